"""Shared machinery of the bounded stand-in layer (DESIGN 3): small-scope enumerators, the
per-character view, coherence observations, and a suite runner that reports failures through
vlib.report.Check.  Nothing here is counted as proved."""
import itertools
import os
import sys

REPO = os.environ.get("CURTSIES_REPO", "/repo")
if REPO not in sys.path:
    sys.path.insert(0, REPO)

from curtsies.formatstring import FmtStr, Chunk, fmtstr  # noqa: E402
from pyvc.spec import cells, norm_atts  # noqa: E402
from pyvc.verify import check_concrete, describe  # noqa: E402

ATT_POOL = [{}, {"fg": 31}, {"bg": 44}, {"bold": True}, {"fg": 32, "bold": True}, {"underline": True, "bold": False},
            {"fg": 35, "bg": 41, "invert": True}]


def mk(lens, base=97, att0=1, uniform=False):
    """FmtStr with run lengths `lens`, distinct letters, a different attribute set per run
    (uniform=True: no attributes on any run -> same display as the one-run value, other boundaries)"""
    chunks, k = [], 0
    for i, l in enumerate(lens):
        chunks.append(Chunk("".join(chr(base + (k + j) % 26) for j in range(l)), ({} if uniform else ATT_POOL[(att0 + i) % len(ATT_POOL)])))
        k += l
    return FmtStr(*chunks)


def mk_twins(n, l, same_object=False, att=1):
    """FmtStr of n runs that compare EQUAL (same text, same attributes) - separate Chunk objects, or the very same object n times
    (what f * n builds): code that finds a run by equality or identity instead of by position goes wrong on these"""
    if same_object:
        c = Chunk("ab"[:l], ATT_POOL[att])
        return FmtStr(*[c] * n)
    return FmtStr(*[Chunk("ab"[:l], dict(ATT_POOL[att])) for _ in range(n)])


def layouts(max_runs=3, max_len=2):
    for n in range(0, max_runs + 1):
        for lens in itertools.product(range(0, max_len + 1), repeat=n):
            yield lens


def text_of(cs):
    return "".join(c for c, _ in cs)


def coherent(r):
    """memoised views of a FmtStr agree with freshly computed ones (C13 / C06 len clause).
    -> '' or a description of the incoherence"""
    if not isinstance(r, FmtStr):
        return ""
    cs = cells(r)
    try:
        if len(r) != len(cs):
            return f"len()={len(r)} but {len(cs)} characters"
        if r.s != text_of(cs):
            return f".s={r.s!r} but characters {text_of(cs)!r}"
        fresh = FmtStr(*r.chunks)
        if str(r) != str(fresh):
            return f"str()={str(r)!r} but fresh {str(fresh)!r}"
        try:
            fw = fresh.width
        except ValueError:
            fw = None
        if fw is not None and r.width != fw:
            return f".width={r.width} but fresh {fw}"
    except Exception as e:
        return f"observation raised {e!r}"
    return ""


def fill_caches(*values):
    """fill the memo caches of FmtStr values (and of their runs) the way a program that already displayed them would"""
    for f in values:
        if isinstance(f, FmtStr):
            try:
                str(f), len(f), f.s, hash(f), repr(f)
                f.width
            except Exception:
                pass
            # ... and had used it: every public operation that only READS its receiver, results thrown away (an operation may leave a
            # lazily built table or memo behind on the receiver; the value itself must be the same value afterwards)
            for use in (lambda: f.divides, lambda: f.splice("x", 0), lambda: f.splice("", 0, len(f)), lambda: f.append("y"), lambda: f[0:1], lambda: f[::1] if False else f[:],
                        lambda: f.setslice_with_length(0, 0, "k", len(f) + 1), lambda: f.shared_atts, lambda: f.split("a"), lambda: f.copy(),
                        lambda: f.width_at_offset(len(f)), lambda: f.width_aware_slice(slice(0, 1)), lambda: f == f, lambda: f + "z", lambda: f * 2,
                        lambda: f.join(["a", "b"]), lambda: list(f.width_aware_splitlines(2)), lambda: f.ljust(len(f) + 1)):
                try:
                    use()
                except Exception:      # noqa: BLE001
                    pass
        elif isinstance(f, (list, tuple)):
            fill_caches(*f)


class Suite:
    def __init__(self, check, name, rule, bound="", exhaustive=True, max_reports=8):
        self.check, self.name, self.rule, self.bound, self.exhaustive = check, name, rule, bound, exhaustive
        self.evaluations = 0
        self.nontrivial = set()
        self.samples = []
        self.failures = 0
        self.max_reports = max_reports
        self.reported = 0

    def case(self, key, nontrivial=True, sample=None):
        self.evaluations += 1
        if nontrivial:
            self.nontrivial.add(key)
        if sample is not None and len(self.samples) < 6 and (self.evaluations % 997 == 1 or len(self.samples) < 2):
            self.samples.append(sample)

    def fail(self, clause, inputs, detail, replay=None):
        self.failures += 1
        if self.reported >= self.max_reports:
            # still consult known findings so that a *different* failure is never swallowed by the cap
            if self.check.match_known(clause, inputs) is not None:
                return
            if self.reported >= self.max_reports * 4:
                return
        r = self.check.violation(clause, inputs, detail, replay=replay, found_input=True)
        if r == "violation":
            self.reported += 1

    def contract_case(self, contract, args, key=None, observe=True, nontrivial=True):
        """evaluate a sidecar contract at run time on the real function"""
        if getattr(self, "poisoned", False) or (self.reported >= self.max_reports * 4 and self.failures > 200):
            # the suite has long since decided: stop feeding values that a broken function may have corrupted (operands mutated
            # in place keep growing from case to case and can make the rest of the enumeration explode)
            self.evaluations += 1
            return False
        desc = {k: describe(v) for k, v in args.items()}
        self.case(key if key is not None else tuple(sorted(desc.items())), nontrivial, sample=desc)
        if self.evaluations % 2 == 0:
            fill_caches(*args.values())      # every other case: operands that were already rendered / measured (caches filled)
        try:
            ok, clause, detail = check_concrete(contract, args)
        except Exception as e:
            ok, clause, detail = False, "oracle", f"contract evaluation raised {e!r}"
        if not ok:
            elided = any(("more runs ..." in d or "more items]" in d or " characters" in d) for d in desc.values())
            self.fail(f"{contract.prop}.{contract.qualname}.{clause}", dict(function=contract.key, **desc), detail,
                      replay=None if elided else {"kind": "contract", "contract": contract.key, "args": desc})
            if clause == "frame":
                # an operand was modified in place: the values shared by the following cases of this suite can no longer be trusted
                # (and may keep growing from case to case) - the suite has its verdict and stops here
                self.poisoned = True
        return ok

    def done(self):
        self.check.add_suite(self.name, self.evaluations, len(self.nontrivial), self.rule, self.samples,
                             exhaustive=self.exhaustive, bound=self.bound)


# ------------------------------------------------------------------------------------------------ interrupted observations
class Aborted(BaseException):
    """what an asynchronous interruption of library code looks like (KeyboardInterrupt from the SIGINT handler, MemoryError,
    RecursionError): raised by a trace function at the k-th executed line of curtsies code"""


def run_interrupted(fn, k):
    """run fn() and abort it at the k-th line event inside curtsies code; -> ("finished", lines executed) | ("aborted", k).
    The abort is an exception no library code catches (BaseException subclass)."""
    import sys
    count = [0]
    root = os.path.dirname(os.path.abspath(sys.modules["curtsies"].__file__))

    def tracer(frame, event, arg):
        if not frame.f_code.co_filename.startswith(root):
            return None
        if event == "line":
            count[0] += 1
            if count[0] == k:
                raise Aborted()
        return tracer

    old = sys.gettrace()
    sys.settrace(tracer)
    try:
        fn()
        return "finished", count[0]
    except Aborted:
        return "aborted", k
    finally:
        sys.settrace(old)


def interrupted_then(build, observe, judge, max_k=400):
    """for every k: a fresh value, `observe` aborted at its k-th line, then judge(value) (which observes again, uninterrupted);
    yields (k, verdict) for every abort point; stops at the first k at which observe finishes"""
    for k in range(1, max_k + 1):
        v = build()
        how, _ = run_interrupted(lambda: observe(v), k)
        if how == "finished":
            return
        yield k, judge(v)


# ------------------------------------------------------------------------------------------------ large values
def long_values():
    """size is an input dimension too: values with thousands of runs / characters (recursion per run or per piece, quadratic blow-ups,
    limits of int()/regex engines only show here).  -> [(label, FmtStr)]"""
    atts = [{"fg": 31}, {"bg": 44, "bold": True}, {}]
    many = FmtStr(*[Chunk("abＥ"[k % 3], dict(atts[k % 3])) for k in range(3000)])
    one = FmtStr(Chunk("xＥ y" * 1200, {"fg": 32}))
    holes = FmtStr(*[Chunk("" if k % 2 else "pq", dict(atts[k % 3])) for k in range(2400)])
    return [("3000 one-character runs", many), ("one run of 6000 characters", one), ("2400 runs, every other one empty", holes)]


# one representative of each class of character that some classification other than wcwidth might treat specially (whitespace, separators,
# format characters, combining marks WITH a width - canonical combining class / category Mc -, variation selectors, emoji modifiers, jamo)
CHAR_CLASSES = ["\u3000", "\u00a0", "\u200b", "\u200d", "\u00ad", "\u2028", "\ufeff", "\U0001F600", "\u4e2d", "\x00", "\u0301", "\uff25", "\u1100",
                "\u0600", "\u2060", "\u00e9", "~", "\ua9c0", "\u1b44", "\u302e", "\U0001D165", "\u0903", "\u093e", "\ufe0f", "\U0001F1E6", "\U0001F3FB",
                "\u1160", "\u0e33", "\u200e"]


# code points a Python str may legally hold that "text" handling tends to normalise, drop or choke on: lone surrogates (what
# surrogateescape / os.fsdecode produce), a surrogate PAIR as two code points, the byte order mark / zero width no-break space,
# noncharacters, NUL, the last code point
ODD_CODEPOINTS = ["\udce9", "\ud800", "\ud83d\ude00", "\ufeff", "\ufffe", "\uffff", "\U0010ffff", "\x00", "\ufffd"]
ODD_TEXTS = ["caf\udce9", "\ufeffab", "a\ufeffb", "x\ud83d\ude00y", "\ud800", "ab\ufeff", "\x00z", "q\uffff", "c\td", "\tq", "ab\t", "v\x0bw\x0c", "bel\x07"]


# environment variables that libraries commonly consult at import time or at run time (colour conventions, terminal type, locale)
ENVIRONMENTS = [{"NO_COLOR": "1"}, {"NO_COLOR": ""}, {"TERM": "dumb"}, {"TERM": "rxvt"}, {"TERM": "rxvt-unicode-256color"}, {"TERM": "linux"},
                {"TERM": "screen-256color"}, {"TERM": ""}, {"CLICOLOR": "0"}, {"CLICOLOR_FORCE": "1", "FORCE_COLOR": "1"}, {"COLORTERM": "truecolor"},
                {"LC_ALL": "C", "LANG": "C"}, {"PYTHONOPTIMIZE": "1"}, {"COLUMNS": "1", "LINES": "1"},
                {"LANG": "ja_JP.UTF-8"}, {"LC_ALL": "zh_CN.UTF-8"}, {"LC_CTYPE": "ko_KR.UTF-8", "LANG": "en_US.UTF-8"}, {"LANG": "tr_TR.UTF-8"}]


def run_in_environment(module, function, extra_env, timeout=300):
    """import `module` in a brand-new interpreter whose environment has `extra_env` set (TERM & co. are read when a library is first
    imported) and call its zero-argument `function`, which returns a JSON-able list of (clause, inputs, detail) failures.
    -> (ran, list or reason)"""
    import json, subprocess, sys
    here = os.path.dirname(os.path.dirname(os.path.abspath(__file__)))
    env = dict(os.environ)
    for k in ("NO_COLOR", "CLICOLOR", "CLICOLOR_FORCE", "FORCE_COLOR", "COLORTERM"):
        env.pop(k, None)
    env.update(extra_env)
    env["PYTHONPATH"] = os.pathsep.join([here] + [p for p in sys.path if p])
    code = f"import json, {module} as M; print('RESULT' + json.dumps(M.{function}()))"
    try:
        r = subprocess.run([sys.executable, "-c", code], env=env, capture_output=True, text=True, timeout=timeout)
        line = [l for l in r.stdout.splitlines() if l.startswith("RESULT")]
        if not line:
            return False, (r.stderr or r.stdout)[-300:]
        return True, json.loads(line[-1][6:])
    except Exception as e:      # noqa: BLE001  (a child that cannot run is a harness matter, never a verdict)
        return False, repr(e)
