"""Derived values: FmtStr values produced by CHAINS of public operations (slices of joins of splices ...), some of them already
rendered / measured, some containing empty runs, twin runs or the same run object twice.  A value that is wrong only on the inside
(a memo slot pre-filled from a formula, a run list shared with an operand, a cache copied from its source) behaves correctly when
looked at once and misbehaves in the NEXT operation; the per-property oracles therefore also run on these values.
Nothing here judges anything: it only builds inputs (deterministic in the seed)."""
import random
from bounded.common import FmtStr, Chunk, fmtstr, fill_caches, mk_twins, ATT_POOL

ALPH = "ab あx"
STRS = ["x", "", "yz"]


def _rand_atts(rng):
    return dict(rng.choice(ATT_POOL))


def _base(rng):
    r = rng.random()
    if r < .1:
        return mk_twins(rng.randint(2, 3), rng.randint(1, 2), same_object=rng.random() < .5)
    return FmtStr(*[Chunk("".join(rng.choice(ALPH) for _ in range(rng.randint(0, 3))), _rand_atts(rng)) for _ in range(rng.randint(0, 3))])


def _step(rng, f, g):
    """one public operation on f (and g); -> list of FmtStr results (possibly empty if the operation raised)"""
    L = len(f)
    a = rng.randint(0, L)
    b = rng.randint(a, L)
    t = rng.choice(STRS)
    ops = [lambda: [f + g], lambda: [f + t], lambda: [t + f], lambda: [f * rng.randint(0, 3)], lambda: [f[a:b]],
           lambda: [f[rng.randint(-L - 1, L + 1):rng.randint(-L - 1, L + 1)]], lambda: [f.splice(g, a, b)], lambda: [f.splice(t, a)],
           lambda: [f.splice(g, a, L + rng.randint(1, 2))], lambda: [f.append(g)], lambda: [f.append(t)], lambda: [f.join([g, t, f])], lambda: [g.join([f, f])],
           lambda: f.split("a"), lambda: f.splitlines(), lambda: [f.ljust(L + 2)], lambda: [f.rjust(L + 1)],
           lambda: [f.copy_with_new_atts(bold=rng.random() < .5)], lambda: [f.new_with_atts_removed("fg")],
           lambda: [f.copy_with_new_str("zz")], lambda: [f.width_aware_slice(slice(0, b))], lambda: list(f.width_aware_splitlines(2)),
           lambda: [f.upper()], lambda: [fmtstr(f, "red")], lambda: [fmtstr(f, bold=False)], lambda: [f.copy()],
           lambda: [f.setslice_with_length(a, b, t, L + 3)], lambda: [f.setslice_with_length(L + 1, L + 2, t, L + 4)]]
    def iadd(x):
        h = f
        h += x              # augmented assignment: for an immutable value the same as h = f + x (an in-place __iadd__ would edit f)
        return [h]

    def imul(k):
        h = f
        h *= k
        return [h]
    ops += [lambda: iadd(g), lambda: iadd(t), lambda: imul(2)]
    try:
        return [x for x in rng.choice(ops)() if isinstance(x, FmtStr)]
    except (ValueError, IndexError, AssertionError, TypeError):
        return []


def derived_values(seed, n_chains, steps=4):
    """-> list of FmtStr values, each the end of a chain of up to `steps` operations; operands and intermediate results are rendered /
    measured at random on the way (fill_caches), as a program that displays them would"""
    out = []
    for c in range(n_chains):
        rng = random.Random(seed * 1000003 + c)
        pool = [_base(rng) for _ in range(3)]
        for _ in range(rng.randint(1, steps)):
            f, g = rng.choice(pool), rng.choice(pool)
            if rng.random() < .4:
                fill_caches(f)
            res = _step(rng, f, g)
            pool.extend(res[:3])
            if len(pool) > 10:
                pool = pool[-10:]
        v = pool[-1]
        if rng.random() < .3:
            fill_caches(v)
        out.append(v)
    return out
