"""Reference terminal (screen) model - the oracle of the window properties C02 / C07.

Written from the documentation, not from curtsies and not from pyte:
  * ECMA-48 (5th ed.) 8.3: BS, HT, LF, CR, CUP/HVP, CHA, CUU/CUD/CUF/CUB, VPA, EL, ED, IND, NEL, RI, SGR, DSR;
  * VT100 / VT510 programmer information: DECSC / DECRC, DECTCEM, the auto-wrap "last column flag";
  * xterm ctlseqs: private modes 12 (blinking cursor: no effect on the model), 25, 1049; window operations
    CSI Ps;Ps;Ps t (no effect on the screen); back-colour-erase (terminfo `bce` of xterm-256color).

Model
-----
screen        list of `height` rows, each a list of `width` cells (char, fmt); fmt is the sorted attribute tuple of
              spec.sgr.fmt_of; a never-written / reset-erased cell is BLANK = (' ', ()).
cursor        (row, col) plus the pending-wrap flag (xterm `do_wrap`, VT "last column flag"): a printable character
              written in the last column leaves the cursor there and sets the flag; the next printable character first
              performs CR + LF (scrolling at the bottom row) and is then written in column 0.  Every explicit cursor
              movement (CUP, CHA, CR, BS, CUx, VPA, LF/IND - as in xterm's CursorSet/CursorDown/...: ResetWrap) clears the
              flag; DECSC/DECRC save and restore it.  EL/ED do not clear it and erase *from the cursor cell*, i.e. EL 0
              issued right after a full-width line erases the character in the last column.
scrolling     LF / IND / NEL on the bottom row (and a wrap there) scroll the whole screen up by one line: on the main
              screen the top line is appended to `scrollback`, on the alternate screen it is lost.  `scrolls` counts them.
erasing       erased cells and lines scrolled in are blank in the current background colour only (bce).
alt screen    ?1049h: save cursor as DECSC, switch to a cleared alternate screen; ?1049l: back to the untouched main
              screen, restore cursor.  The alternate screen has no scrollback.
DSR           CSI 6 n appends 'ESC [ row ; col R' (1-based) to `responses` (see take_responses()).
counters      scrolls (scroll-ups of the visible screen), wraps (printable characters that arrived past the right margin,
              i.e. with the pending-wrap flag set), unknown (sequences / controls the model does not implement - an
              oracle built on this model must refuse to judge a stream that produced any).

Only single-column characters are supported.  `quirks` collects operations on which emulators are documented to differ
from xterm (pyte in particular: no last-column flag on erase, erase with all current attributes, no bce on scroll, no
alternate screen); it has no influence on the model, a second-opinion comparison uses it to know when not to compare.
"""
import copy
import re

from spec.sgr import DEFAULT, apply_sgr, fmt_of

BLANK = (" ", ())
_CSI = re.compile(r"(?:\x1b\[|\x9b)([<=>?]?)([0-9;]*)([ -/]*)([@-~])")
_CSI_PREFIX = re.compile(r"(?:\x1b\[|\x9b)[<=>?]?[0-9;]*[ -/]*\Z")


class Terminal:
    def __init__(self, height, width, bce=True):
        assert height >= 1 and width >= 1
        self.height, self.width, self.bce = height, width, bce
        self.screen = [[BLANK] * width for _ in range(height)]
        self.scrollback = []
        self.row = self.col = 0
        self.pending_wrap = False
        self.sgr = DEFAULT
        self.cursor_visible = True
        self.alt = False
        self._other = None                      # the screen that is not displayed (main while alt is shown)
        self._saved = {False: None, True: None}  # DECSC slot per screen
        self.responses = []
        self.scrolls = 0
        self.wraps = 0
        self.unknown = []
        self.quirks = set()
        self._fresh = False                     # a DECSC has not been consumed by a DECRC yet
        self._soft = False                      # pyte's idea of the last-column state differs until the next cursor set
        self._buf = ""

    # ------------------------------------------------------------------ observation
    @property
    def cursor(self):
        return (self.row, self.col)

    def grid(self):
        return [list(r) for r in self.screen]

    def lines(self):
        return ["".join(c for c, _ in r) for r in self.screen]

    def scrollback_lines(self):
        return ["".join(c for c, _ in r) for r in self.scrollback]

    def all_rows(self):
        """scrollback followed by the screen rows (main screen content as a user scrolling back would see it)"""
        return [list(r) for r in self.scrollback] + self.grid()

    def take_responses(self):
        r, self.responses = "".join(self.responses), []
        return r

    def copy(self):
        return copy.deepcopy(self)

    # ------------------------------------------------------------------ resize
    def resize(self, height, width, junk=None, cursor=None):
        """Change the size.  junk=None keeps the top-left part that still fits (one of many real behaviours);
        junk = callable (row, col) -> cell, or a list of rows of cells, fills the visible screen with arbitrary cells
        (what a resize leaves behind is not specified by any standard).  The cursor is clamped, or put at `cursor`."""
        assert height >= 1 and width >= 1

        def fit(rows):
            rows = [list(r[:width]) + [BLANK] * (width - len(r)) for r in rows[:height]]
            return rows + [[BLANK] * width for _ in range(height - len(rows))]
        if junk is None:
            self.screen = fit(self.screen)
        elif callable(junk):
            self.screen = [[junk(r, c) for c in range(width)] for r in range(height)]
        else:
            self.screen = fit([list(r) for r in junk])
        if self._other is not None:
            self._other = fit(self._other)
        self.height, self.width = height, width
        if cursor is not None:
            self.row, self.col = cursor
        self.row = min(max(self.row, 0), height - 1)
        self.col = min(max(self.col, 0), width - 1)
        self.pending_wrap = False
        self._soft = False

    # ------------------------------------------------------------------ primitives
    def _blank(self):
        bg = self.sgr[1]
        if self.bce and bg is not None:
            return (" ", (("bg", bg),))
        return BLANK

    def _erased(self):
        """an erase is about to use the current rendition"""
        if self.sgr[0] is not None or self.sgr[2]:
            self.quirks.add("erase with foreground/style attributes set (pyte keeps them on the blank)")
        return self._blank()

    def _scroll_up(self):
        top = self.screen.pop(0)
        if not self.alt:
            self.scrollback.append(top)
        if self.sgr[1] is not None and self.bce:
            self.quirks.add("scroll with a background colour set (bce)")
        self.screen.append([self._blank()] * self.width)
        self.scrolls += 1

    def _scroll_down(self):
        self.screen.pop()
        if self.sgr[1] is not None and self.bce:
            self.quirks.add("scroll with a background colour set (bce)")
        self.screen.insert(0, [self._blank()] * self.width)

    def _index(self):
        if self.row == self.height - 1:
            self._scroll_up()
        else:
            self.row += 1

    def _set_cursor(self, row, col):
        self.row = min(max(row, 0), self.height - 1)
        self.col = min(max(col, 0), self.width - 1)
        self.pending_wrap = False
        self._soft = False

    def _print(self, ch):
        if self._soft:
            self.quirks.add("printable character after LF/DECRC in the last-column state")
        if self.pending_wrap:
            self.wraps += 1
            self.pending_wrap = False
            self.col = 0
            self._index()
        self.screen[self.row][self.col] = (ch, fmt_of(self.sgr))
        if self.col == self.width - 1:
            self.pending_wrap = True
        else:
            self.col += 1

    def _linefeed(self):
        if self.pending_wrap:
            self._soft = True           # xterm: flag reset, cursor stays in the last column; pyte keeps wrapping
        self.pending_wrap = False
        self._index()

    def _erase_line(self, mode):
        if self.pending_wrap or self._soft:
            self.quirks.add("erase in the last-column state")
        b = self._erased()
        row = self.screen[self.row]
        if mode == 0:
            lo, hi = self.col, self.width
        elif mode == 1:
            lo, hi = 0, self.col + 1
        elif mode == 2:
            lo, hi = 0, self.width
        else:
            self.unknown.append(f"EL {mode}")
            return
        for c in range(lo, hi):
            row[c] = b

    def _erase_display(self, mode):
        if self.sgr[1] is not None and self.bce:
            self.quirks.add("ED with a background colour set (pyte recolours only cells written before)")
        if mode in (0, 1):
            self._erase_line(mode)
            b = self._erased()
            rows = range(self.row + 1, self.height) if mode == 0 else range(0, self.row)
        elif mode == 2:
            b = self._erased()
            rows = range(self.height)
        elif mode == 3:
            self.scrollback = []
            self.quirks.add("ED 3")
            return
        else:
            self.unknown.append(f"ED {mode}")
            return
        for r in rows:
            self.screen[r] = [b] * self.width

    def _save_cursor(self):
        self._saved[self.alt] = (self.row, self.col, self.pending_wrap, self.sgr, self._soft)
        self._fresh = True

    def _restore_cursor(self):
        s = self._saved[self.alt]
        if s is None:
            self.quirks.add("DECRC without DECSC (pyte keeps the rendition)")
            self._set_cursor(0, 0)      # VT510: nothing saved -> home, default rendition
            self.sgr = DEFAULT
            return
        if not self._fresh:
            self.quirks.add("second DECRC of one DECSC (pyte pops a stack of saved cursors)")
        self._fresh = False
        row, col, pend, sgr, soft = s
        self._set_cursor(row, col)
        self.pending_wrap = pend and self.col == self.width - 1
        self._soft = self.pending_wrap or soft
        self.sgr = sgr

    def _alt_screen(self, on):
        if on == self.alt:
            return
        self.quirks.add("alternate screen")
        if on:
            self._save_cursor()
            self._other = self.screen
            self.alt = True
            self.screen = [[BLANK] * self.width for _ in range(self.height)]
        else:
            self.screen, self._other = self._other, None
            self.alt = False
            self._restore_cursor()

    # ------------------------------------------------------------------ interpreter
    def feed(self, text):
        s = self._buf + text
        self._buf = ""
        i, n = 0, len(s)
        while i < n:
            ch = s[i]
            if ch == "\x1b" or ch == "\x9b":
                if ch == "\x1b" and i + 1 >= n:
                    self._buf = s[i:]
                    return
                if ch == "\x9b" or s[i + 1] == "[":
                    m = _CSI.match(s, i)
                    if m:
                        self._csi(m.group(1), m.group(2), m.group(3), m.group(4))
                        i = m.end()
                        continue
                    if _CSI_PREFIX.match(s, i):
                        self._buf = s[i:]
                        return
                    self.unknown.append("malformed CSI " + repr(s[i:i + 8]))
                    i += 1 if ch == "\x9b" else 2
                    continue
                self._esc(s[i + 1])
                i += 2
                continue
            i += 1
            if ch == "\n" or ch == "\x0b" or ch == "\x0c":
                self._linefeed()
            elif ch == "\r":
                self._set_cursor(self.row, 0)
            elif ch == "\b":
                self._set_cursor(self.row, self.col - 1)
            elif ch == "\t":
                if self.pending_wrap or self._soft:
                    self.quirks.add("HT in the last-column state")
                    continue
                self.col = min((self.col // 8 + 1) * 8, self.width - 1)
            elif ch == "\x07" or ch == "\x00":
                pass
            elif ch < " " or ch == "\x7f" or "\x80" <= ch <= "\x9f":
                self.unknown.append("control " + repr(ch))
            else:
                self._print(ch)

    def _esc(self, f):
        if f == "7":
            self._save_cursor()
        elif f == "8":
            self._restore_cursor()
        elif f == "D":
            self._linefeed()
        elif f == "E":
            self.quirks.add("NEL (pyte performs no CR)")
            self.pending_wrap = False
            self._index()
            self._set_cursor(self.row, 0)
        elif f == "M":
            if self.pending_wrap:
                self._soft = True
            self.pending_wrap = False
            if self.row == 0:
                self._scroll_down()
            else:
                self.row -= 1
        else:
            self.unknown.append("ESC " + repr(f))

    def _csi(self, private, params, inter, final):
        ps = [int(p) if p else None for p in params.split(";")] if params else []

        def arg(k, default):
            v = ps[k] if k < len(ps) else None
            return default if v is None else v

        def count(k=0):
            return max(1, arg(k, 1))
        if inter:
            self.unknown.append("CSI " + repr(private + params + inter + final))
        elif private == "?" and final in "hl":
            for p in ps:
                if p == 25:
                    self.cursor_visible = final == "h"
                elif p == 12:
                    pass
                elif p == 1049:
                    self._alt_screen(final == "h")
                else:
                    self.unknown.append(f"CSI ?{p}{final}")
        elif private:
            self.unknown.append("CSI " + repr(private + params + final))
        elif final in "Hf":
            self._set_cursor(count(0) - 1, count(1) - 1)
        elif final in "G`":
            self._set_cursor(self.row, count() - 1)
        elif final == "d":
            self._keep_soft_set(min(count() - 1, self.height - 1), self.col)
        elif final == "A":
            self._keep_soft_set(max(self.row - count(), 0), self.col)
        elif final == "B":
            self._keep_soft_set(min(self.row + count(), self.height - 1), self.col)
        elif final == "C":
            self._set_cursor(self.row, min(self.col + count(), self.width - 1))
        elif final == "D":
            self._set_cursor(self.row, self.col - count())
        elif final == "K":
            self._erase_line(arg(0, 0))
        elif final == "J":
            self._erase_display(arg(0, 0))
        elif final == "m":
            self.sgr, ok = apply_sgr(self.sgr, [0 if p is None else p for p in ps] or [0])
            if not ok:
                self.unknown.append("SGR " + params)
        elif final == "n":
            if arg(0, 0) == 6:
                if self.pending_wrap or self._soft:
                    self.quirks.add("DSR in the last-column state")
                self.responses.append("\x1b[%d;%dR" % (self.row + 1, self.col + 1))
            elif arg(0, 0) == 5:
                self.responses.append("\x1b[0n")
            else:
                self.unknown.append("DSR " + params)
        elif final == "t":
            pass                        # window manipulation (22/23: push/pop title): nothing on the screen
        else:
            self.unknown.append("CSI " + repr(params + final))

    def _keep_soft_set(self, row, col):
        """vertical movement: clears the flag (xterm), the column is untouched - pyte keeps its own last-column state"""
        soft = self._soft or self.pending_wrap
        self._set_cursor(row, col)
        self._soft = soft


# ---------------------------------------------------------------------- second opinion: pyte
_PYTE_COLOUR = ["black", "red", "green", "brown", "blue", "magenta", "cyan", "white"]
_PYTE_STYLE = [("bold", "bold"), ("italics", "italic"), ("underscore", "underline"), ("reverse", "invert"), ("blink", "blink")]


def _pyte_cell(ch):
    a = []
    if ch.fg != "default":
        a.append(("fg", 30 + _PYTE_COLOUR.index(ch.fg)))
    if ch.bg != "default":
        a.append(("bg", 40 + _PYTE_COLOUR.index(ch.bg)))
    for k, name in _PYTE_STYLE:
        if getattr(ch, k):
            a.append((name, True))
    return (ch.data, tuple(sorted(a)))


def _for_pyte(cell):
    """pyte has no faint rendition"""
    return (cell[0], tuple(a for a in cell[1] if a[0] != "dark"))


def pyte_new(term, history=True):
    """a pyte screen (+ stream) showing exactly what `term` shows now"""
    import pyte
    scr = pyte.HistoryScreen(term.width, term.height, history=100000, ratio=.001) if history else pyte.Screen(term.width, term.height)
    scr.dsr = []
    scr.write_process_input = scr.dsr.append
    pyte_load(scr, term)
    return scr, pyte.Stream(scr)


def pyte_load(scr, term):
    """make the pyte screen equal to the reference screen (size, cells, cursor, rendition); scrollback is not copied"""
    from pyte.screens import Char
    if (scr.lines, scr.columns) != (term.height, term.width):
        scr.resize(term.height, term.width)

    def char(cell):
        d = dict(cell[1])
        return Char(cell[0], fg=_PYTE_COLOUR[d["fg"] - 30] if "fg" in d else "default", bg=_PYTE_COLOUR[d["bg"] - 40] if "bg" in d else "default",
                    bold="bold" in d, italics="italic" in d, underscore="underline" in d, reverse="invert" in d, blink="blink" in d)
    for y in range(term.height):
        line = scr.buffer[y]
        line.clear()
        for x in range(term.width):
            if term.screen[y][x] != BLANK:
                line[x] = char(_for_pyte(term.screen[y][x]))
    scr.cursor.y = term.row
    scr.cursor.x = term.width if term.pending_wrap else term.col
    scr.cursor.attrs = char((" ", fmt_of(term.sgr)))
    scr.cursor.hidden = not term.cursor_visible


def pyte_grid(scr):
    return [[_pyte_cell(scr.buffer[y][x]) for x in range(scr.columns)] for y in range(scr.lines)]


def pyte_history(scr):
    return [[_pyte_cell(line[x]) for x in range(scr.columns)] for line in scr.history.top]


def show(rows):
    """compact rendering of rows of cells for messages: text with '|', formatted cells listed after it"""
    out = []
    for r in rows:
        t = "".join(c for c, _ in r)
        f = [f"{i}:{_short(a)}" for i, (c, a) in enumerate(r) if a]
        out.append(t + ("{" + ",".join(f) + "}" if f else ""))
    return out


def _short(a):
    return "+".join(f"{k}{v}" if k in ("fg", "bg") else k for k, v in a)


def compare_with_pyte(term, scr, scrollback_from=None):
    """'' when pyte shows what the reference model shows (screen cells, cursor, cursor visibility and - for a
    HistoryScreen, with scrollback_from = number of reference scrollback lines that existed when the pyte screen was
    created - the scrollback), else a description.  Must only be called while term.quirks is empty."""
    g = pyte_grid(scr)
    ref = [[_for_pyte(c) for c in r] for r in term.screen]
    if g != ref:
        return f"screen: pyte {show(g)} reference {show(ref)}"
    pc = (scr.cursor.y, min(scr.cursor.x, scr.columns - 1))
    if pc != term.cursor:
        return f"cursor: pyte {pc} reference {term.cursor}"
    if (scr.cursor.x == scr.columns) != term.pending_wrap and not term._soft:
        return f"last-column state: pyte {scr.cursor.x == scr.columns} reference {term.pending_wrap}"
    if scr.cursor.hidden == term.cursor_visible:
        return f"cursor visible: pyte {not scr.cursor.hidden} reference {term.cursor_visible}"
    if scrollback_from is not None:
        ph = pyte_history(scr)
        rh = [[_for_pyte(c) for c in r] for r in term.scrollback[scrollback_from:]]
        if ph != rh:
            return f"scrollback: pyte {show(ph)} reference {show(rh)}"
    return ""


def _random_op(rng, t):
    k = rng.random()
    if k < .30:
        return "".join(rng.choice("abcxyz ") for _ in range(rng.randint(1, t.width + 2)))
    if k < .42:
        ps = [rng.choice([0, 1, 2, 3, 4, 5, 7, 31, 32, 33, 37, 39, 41, 44, 47, 49, None]) for _ in range(rng.randint(0, 3))]
        return "\x1b[" + ";".join("" if p is None else str(p) for p in ps) + "m"
    if k < .54:
        r = rng.choice(["", "0", str(rng.randint(1, t.height + 1)), "1000001"])
        c = rng.choice(["", "0", str(rng.randint(1, t.width + 1)), "999"])
        return rng.choice(["\x1b[%s;%sH" % (r, c), "\x1b[%sH" % r, "\x1b[H", "\x1b[%s;%sf" % (r, c)])
    if k < .60:
        return "\x1b[%sG" % rng.choice(["", "0", str(rng.randint(1, t.width + 2))])
    if k < .70:
        return "\x1b[%sK" % rng.choice(["", "0", "1", "2"])
    if k < .76:
        return "\x1b[%sJ" % rng.choice(["", "0", "1", "2"])
    if k < .86:
        return rng.choice(["\n", "\n", "\r", "\b", "\t", "\x1bD", "\x1bE", "\x1bM", "\r\n"])
    if k < .91:
        return rng.choice(["\x1b7", "\x1b8"])
    if k < .95:
        return "\x1b[%s%s" % (rng.choice(["", "1", "2", "9"]), rng.choice("ABCDd"))
    return rng.choice(["\x1b[?25l", "\x1b[?25h", "\x1b[?12l", "\x1b[?12l\x1b[?25h", "\x1b[22;0;0t", "\x1b[23;0;0t", "\x1b[6n"])


def selftest_against_pyte(n, seed, max_h=5, max_w=6, max_ops=14):
    """Feed `n` random escape streams to the reference model and to pyte.HistoryScreen; -> (streams compared, list of
    disagreement descriptions).  An operation on which the two are documented to differ (Terminal.quirks) is replaced
    by a cursor addressing, so that every compared stream lies in the common ground."""
    import random
    rng = random.Random(seed)
    bad = []
    for it in range(n):
        h, w = rng.randint(1, max_h), rng.randint(1, max_w)
        t = Terminal(h, w)
        scr, st = pyte_new(t)
        stream = []
        for _ in range(rng.randint(1, max_ops)):
            op = _random_op(rng, t)
            trial = t.copy()
            trial.feed(op)
            if trial.quirks or trial.unknown:
                op = "\x1b[%d;%dH" % (rng.randint(1, h), rng.randint(1, w))
            stream.append(op)
            t.feed(op)
            st.feed(op)
            d = compare_with_pyte(t, scr, scrollback_from=0)
            if not d and "".join(scr.dsr) != "".join(t.responses):
                d = f"DSR replies: pyte {scr.dsr!r} reference {t.responses!r}"
            if t.quirks or t.unknown:
                d = f"generator left the common ground: {t.quirks} {t.unknown}"
            if d:
                bad.append(f"{h}x{w} stream {stream!r}: {d}")
                break
    return n, bad
