"""UTF-8 well-formedness (RFC 3629 / Unicode table 3-7) as closed formulas over a fixed number of bytes.
Dual use: the byte values may be python ints (run-time oracle) or SMT integer terms (proof obligations).
Validated against bytes.decode('utf-8') on every run (see props/C03.py)."""
from pyvc.spec import And, Or, Not

# (lead byte range, then per-position ranges of the continuation bytes) for each well-formed pattern
PATTERNS = [
    ((0x00, 0x7F),),
    ((0xC2, 0xDF), (0x80, 0xBF)),
    ((0xE0, 0xE0), (0xA0, 0xBF), (0x80, 0xBF)),
    ((0xE1, 0xEC), (0x80, 0xBF), (0x80, 0xBF)),
    ((0xED, 0xED), (0x80, 0x9F), (0x80, 0xBF)),
    ((0xEE, 0xEF), (0x80, 0xBF), (0x80, 0xBF)),
    ((0xF0, 0xF0), (0x90, 0xBF), (0x80, 0xBF), (0x80, 0xBF)),
    ((0xF1, 0xF3), (0x80, 0xBF), (0x80, 0xBF), (0x80, 0xBF)),
    ((0xF4, 0xF4), (0x80, 0x8F), (0x80, 0xBF), (0x80, 0xBF)),
]


def _in(b, r):
    return And(b >= r[0], b <= r[1])


def char_valid(bs):
    """the bytes bs (1..4 of them) encode exactly one scalar value"""
    return Or(*[And(*[_in(b, r) for b, r in zip(bs, pat)]) for pat in PATTERNS if len(pat) == len(bs)])


def valid(bs):
    """bs is a concatenation of well-formed characters (what bytes.decode('utf-8') accepts)"""
    n = len(bs)
    ok = [True] + [False] * n
    for i in range(1, n + 1):
        alts = []
        for L in range(1, 5):
            if i - L >= 0 and ok[i - L] is not False:
                alts.append(And(ok[i - L], char_valid(bs[i - L:i])))
        ok[i] = Or(*alts) if alts else False
    return ok[n]


def proper_prefix_of_char(bs):
    """bs is a proper, non-empty prefix of the encoding of ONE scalar value (it can still grow into a character)"""
    n = len(bs)
    return Or(*[And(*[_in(b, r) for b, r in zip(bs, pat[:n])]) for pat in PATTERNS if len(pat) > n]) if n >= 1 else False


def selftest():
    """compare with CPython on every 1- and 2-byte string and a structured sample of longer ones"""
    import itertools
    bad = 0
    seqs = [bytes(p) for n in (1, 2) for p in itertools.product(range(256), repeat=n)]
    edge = [0x00, 0x7F, 0x80, 0x8F, 0x90, 0x9F, 0xA0, 0xBF, 0xC0, 0xC1, 0xC2, 0xDF, 0xE0, 0xE1, 0xEC, 0xED, 0xEE, 0xEF, 0xF0, 0xF1, 0xF3, 0xF4, 0xF5, 0xFF]
    seqs += [bytes(p) for n in (3, 4) for p in itertools.product(edge, repeat=n)]
    for s in seqs:
        try:
            s.decode("utf-8")
            d = True
        except UnicodeDecodeError:
            d = False
        if bool(valid(list(s))) != d:
            bad += 1
    return len(seqs), bad
