"""Reference SGR interpreter, written from ECMA-48 8.3.117 (SELECT GRAPHIC RENDITION) - it shares no code
or constant with curtsies.  Graphic state = (fg, bg, styles); parameters:
  0 reset all | 1 bold 2 faint("dark") 3 italic 4 underline 5 blink 7 negative("invert")
  30-37 foreground, 39 default foreground | 40-47 background, 49 default background
An empty parameter (ESC[m, ESC[;1m) means 0.  Anything else is reported as `unsupported`."""
import re

STYLE_OF = {1: "bold", 2: "dark", 3: "italic", 4: "underline", 5: "blink", 7: "invert"}
DEFAULT = (None, None, frozenset())
_SGR = re.compile(r"\x1b\[([0-9;]*)m")


def apply_sgr(state, params):
    fg, bg, sty = state
    ok = True
    for p in params:
        if p == 0:
            fg, bg, sty = None, None, frozenset()
        elif p in STYLE_OF:
            sty = sty | {STYLE_OF[p]}
        elif 30 <= p <= 37:
            fg = p
        elif p == 39:
            fg = None
        elif 40 <= p <= 47:
            bg = p
        elif p == 49:
            bg = None
        else:
            ok = False
    return (fg, bg, sty), ok


def fmt_of(state):
    """the (sorted) attribute tuple a character displayed in this state has, in the vocabulary of pyvc.spec.norm_atts"""
    fg, bg, sty = state
    a = []
    if bg is not None:
        a.append(("bg", bg))
    if fg is not None:
        a.append(("fg", fg))
    a += [(k, True) for k in sty]
    return tuple(sorted(a))


def run(s, state=DEFAULT, token=None):
    """interpret a terminal string: -> (cells, final state, only_sgr).
    `token`: an opaque marker object standing for arbitrary text free of ESC/CSI; s may then be a list of
    str pieces and markers; a marker yields the cell (token, fmt)."""
    pieces = [s] if isinstance(s, str) else list(s)
    out = []
    only_sgr = True
    for piece in pieces:
        if piece is token and token is not None:
            out.append((token, fmt_of(state)))
            continue
        i = 0
        while i < len(piece):
            ch = piece[i]
            if ch == "\x1b" or ch == "\x9b":
                m = _SGR.match(piece, i)
                if not m:
                    only_sgr = False
                    i += 1
                    continue
                ps = [int(p) if p else 0 for p in m.group(1).split(";")] if m.group(1) else [0]
                state, ok = apply_sgr(state, ps)
                only_sgr = only_sgr and ok
                i = m.end()
            else:
                out.append((ch, fmt_of(state)))
                i += 1
    return out, state, only_sgr
