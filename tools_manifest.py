"""Regenerates MANIFEST.json from the table below (run: python3 tools_manifest.py)."""
import json, os
P = {}
def claim(pid, level, text, note, technique, design):
    P[pid] = dict(property_id=pid, quick_cmd=f"bin/check {pid} quick", thorough_cmd=f"bin/check {pid} thorough",
                  evidence_file=f"evidence/{pid}.json", replay_cmd_template="bin/replay {path}", engine="pyvc",
                  level_claimed=dict(category=level, text=text, design_ref=design), level_note=note, technique=technique)

claim("C06", "proof",
      "Contracts (sidecar) on the real normalize_slice, FmtStr.__getitem__, __add__, __radd__, __mul__, join: every obligation "
      "(postcondition = the statement, loop invariants over ghost folds, callee preconditions, exception clauses) generated from "
      "/repo's current AST is discharged by cvc5/z3 for all inputs and all iteration counts; the same contracts are also evaluated "
      "at run time on an exhaustive small scope as a labelled bounded stand-in.",
      "Trusted: pyvc executor/value model, spec library, list-homomorphism lemma schemas, solver unsat answers; fmtstr on strings free of "
      "ESC[ is verified here too (fmtstr#plain, FmtStr.from_str#plain), no longer assumed; __len__/.s bodies are verified in C13.",
      "contract-based deductive verification (AST->VC, cvc5/z3) + bounded run-time contract checking", "DESIGN 9/C06")
claim("C09", "proof",
      "Contracts on the real FmtStr.splice, divides, append: the five-way overlap case split is proved against the statement's "
      "postcondition through an inductive invariant over the cells consumed so far (all run layouts, all start/end, str and FmtStr "
      "replacement values - ANY str, escape sequences included, after the repair 84b9c78); bounded stand-in over all layouts <=3 runs.",
      "Trusted: as C06; the closed form divides[-1] == total length is an instance of the fold lemma.",
      "contract-based deductive verification (AST->VC, cvc5/z3) + bounded run-time contract checking", "DESIGN 9/C09")

claim("C13", "proof",
      "Frame/ownership condition decided statically on the AST of every function of formatstring.py (no attribute store outside "
      "__init__/memo slots, every in-place list/dict operation on a fresh local, no function returns an operand-owned list, "
      "FrozenAttributes seals every dict mutator, constructors copy), plus memo-coherence contracts on the real __len__, s, width, "
      "__str__ proved under MemoInv for hit and miss; bounded stand-in: random straight-line programs with snapshots.",
      "Trusted: the may-alias analysis is flow-insensitive and takes calls to return new objects (function-return aliasing checked); "
      "parse_args' keyword dict is the documented exception; private fields are not written from outside the module.",
      "static frame analysis + contract-based deductive verification of the memoising methods + random-program bounded checking", "DESIGN 9/C13")
claim("C18", "exploration",
      "Movement conservation of _get_cursor_vertical_diff_once and get_cursor_vertical_diff (incl. the nested-call shape) is proved "
      "from contracts over a ghost 'reported row / moved' state (all obligations discharged); CursorAwareWindow.render_to_terminal is "
      "proved (over the tape-model ghost terminal of C07) to remember exactly the row and column on which it left the terminal's cursor, "
      "which is what 'since the last render' is measured from; the report parse of get_cursor_position "
      "is regex-driven and decided by an exhaustive bounded suite over scripted streams only.",
      "Assumed: get_cursor_position returns the reported (row, col); nested calls arrive only inside the query; bounds in evidence.rule.",
      "contract-based deductive verification (integer bookkeeping) + exhaustive bounded checking of the regex parse", "DESIGN 9/C18")
claim("C10", "proof",
      "Every clause of the statement is carried by discharged obligations on the real code: Chunk.width, FmtStr.width (memo) and "
      "width_at_offset against the column count; interval_overlap; the per-character cutter width_aware_slice(s, a, b) (two loops: "
      "column prefix sums, then the cut) against the fold BCUT written from the statement (characters wholly inside kept, a double-width "
      "character cut by an edge becomes one blank, width = requested columns that exist); the run walk FmtStr.width_aware_slice(index) "
      "for every index form (an int = one column with IndexError outside -width..width-1; open, negative, reversed and past-the-end slice "
      "bounds) over the cutter's contract (which also holds for start > end) against the fold RUNCUT (each run's cut with that run's "
      "formatting) over the column range the index denotes, for any number of runs.  Bounded stand-in: every string <=4 over narrow/wide/combining x all 3-run layouts x all ranges against an independent column model.",
      "Assumed: contract of cwcwidth (wcwidth in 0..2 for measurable text, wcswidth = sum; probed); placement of zero-width characters "
      "next to a cut is not specified by the statement (bounded: never invented, in order); fold lemma schemas of the column model are "
      "proved in Lean (lean/Columns.lean) and re-validated on the executable model each run.",
      "contract-based deductive verification (AST->VC with ghost folds, cvc5/z3, Lean lemma schemas) + exhaustive bounded checking against a column model", "DESIGN 9/C10")

claim("C01", "proof",
      "Chunk.color_str is decided by a complete finite split over all 59 049 attribute dicts (quick: 6 561) with the run's text an opaque "
      "parametric token: the real body is executed per dict and the reference SGR interpreter must display the token exactly once "
      "with exactly the dict's formatting, return to the default state and see only SGR; FmtStr.__str__ is proved to be the "
      "concatenation of the runs' strings (memo contract) for any number of runs; bounded: concrete texts and multi-run/derived values.",
      "Trusted: ECMA-48 reading of SGR, composition lemma of the reference interpreter over concatenation, parametricity check, "
      "inlined helper seq, attribute dicts as produced by the public API.",
      "complete finite case split with parametric text (partial evaluation of the real AST) + contract on __str__ + bounded checking", "DESIGN 9/C01")
claim("C04", "exploration",
      "The row primitive FmtStr.setslice_with_length is proved against its contract (over the proved contract of splice) for all rows, "
      "values and bounds; FSArray.__setitem__/__getitem__/fsarray are decided by a bounded suite: assignment histories against a "
      "cell-grid model (24 000 quick / 400 000 thorough) plus an exhaustive small-scope run of the row contract.",
      "FSArray methods not under deductive contract (comprehensions over zip, float slicesize); known finding: over-long row into the blank tail.",
      "contract-based deductive verification of the row primitive + bounded history checking against a grid model", "DESIGN 9/C04")
claim("C14", "exploration",
      "FrozenAttributes.extend/remove decided by a complete finite split over key presence with symbolic values; copy_with_new_atts and "
      "new_with_atts_removed proved pointwise (for every run: same text, attributes = extend/remove of the old ones); shared_atts proved "
      "to report only key/value pairs that every run with characters holds (loop invariant over a symbolic attribute key, all() as a "
      "quantified fact, result not retained by the value); copy_with_new_str proved for uniformly formatted values and ANY new text; "
      "fmtstr(text free of ESC[, **attributes) - the real fmtstr with the real parse_args inlined - proved by a complete finite split over "
      "the 256 sets of attribute keys (one run with exactly those attributes; ValueError iff fg / bg is not a colour code); the name / "
      "positional / style= spellings of parse_args and the fmtfuncs helpers are decided by exhaustive-finite / bounded evaluation.",
      "Attribute keys within the 8 names; the string-name spellings of parse_args are not under deductive contract (table lookups on "
      "symbolic strings); known findings: style values not type-checked; a caller's style= replaces a fmtfuncs helper's own name.",
      "finite split + contract-based deductive verification (pointwise map contracts) + exhaustive-finite evaluation of parse_args", "DESIGN 9/C14")
claim("C19", "exploration",
      "FmtStr.__eq__/__hash__ and Chunk.__eq__/__hash__ proved against 'equal iff same terminal string' / 'hash is a function of it'; "
      "reflected comparison, dict/set behaviour and eval(repr(f)) decided by a bounded all-pairs suite.",
      "repr is reflective string building (bounded only); Python's reflected-operator rule assumed; known finding: repr of a formatted "
      "run whose text contains ESC[ does not evaluate back to the same characters.",
      "contract-based deductive verification (==/hash) + bounded all-pairs checking", "DESIGN 9/C19")

claim("C05", "exploration",
      "token_type is proved against the reference SGR semantics for every integer parameter (symbolic), every pair of representative "
      "parameters and the empty list; the regex-driven parse and the round trip from_str(str(f)) are decided by bounded enumeration: "
      "all attribute dicts on texts with newlines, multi-run values, every grammar string of <=3 items, back-to-back parses.",
      "parse/peel_off_esc_code regexes not under deductive contract; oracle = ECMA-48 interpreter (spec/sgr.py).",
      "contract-based deductive verification of token_type + bounded enumeration against a reference SGR interpreter", "DESIGN 9/C05")
claim("C11", "proof",
      "ChunkSplitter.request is proved against its contract (next unread characters plus at most one pad - only when the next character is "
      "double-width and the line is then full -, fits, greedy, bookkeeping, non-empty, reported width) for all runs; the generator "
      "_width_aware_splitlines is proved over that contract for any number of runs and lines: nested loop invariants (for over the runs, "
      "while over the requests), the yielded lines as a ghost sequence, and a ghost trace of the cells taken from the source and the cells "
      "emitted: every character taken exactly once, in order, with its formatting; the lines hold exactly what was emitted; a pad is always "
      "the last thing on its line; no line empty or wider than `columns`; every line but the last exactly `columns` wide.  reinit and the "
      "public wrapper verified.  Bounded stand-in: strings <=5 over narrow/wide/combining x layouts x columns 2..4, interleaved iterators.",
      "Assumed: wcswidth additive, character widths 0..2 (dependency contract); generator body observed as the sequence of its yields; "
      "placement of zero-width characters compared up to attachment in the bounded oracle.",
      "contract-based deductive verification (nested loop invariants, ghost output/trace) + exhaustive bounded checking of the line filler", "DESIGN 9/C11")
claim("C15", "exploration",
      "Deductive sub-result: FmtStr.ljust / rjust without a fill character are proved for every value and width (text of str.ljust / "
      "rjust, own formatting kept but for an unshared background, uniform padding that carries only formatting every character has) over "
      "the contracts of shared_atts, new_with_atts_removed, __add__/__radd__ and .s.  Everything else is bounded only: 34 delegated str "
      "methods, split (literal and regex), splitlines, ljust/rjust with a fill character, join on random, enumerated and derived values "
      "against str on the text, per-character formatting of pieces, shared/invented formatting.",
      "__getattr__ delegation and regex splitting are outside the deductive subset (stated in DESIGN 10); the callee contract of "
      "fmtstr(blanks, **attributes) used by the proof is verified under C14 (complete split over the 256 key sets); known finding: "
      "other line boundaries (only while splitlines gives exactly the newline-only answer).",
      "contract-based deductive verification of ljust/rjust (AST->VC, cvc5/z3) + bounded run-time checking against str for the reflection/regex driven methods", "DESIGN 9/C15")
claim("C16", "exploration",
      "Bounded only: every string <=6 over {a,b,space,tab,newline} x columns 1..4 plus random multi-format values against an independent "
      "greedy wrap on the per-character list.",
      "linesplit is regex-driven list building, outside the deductive subset (DESIGN 10).",
      "exhaustive bounded checking against a reference wrap (no deductive claim)", "DESIGN 9/C16")
claim("C17", "exploration",
      "Exhaustive bounded: every string of length <=5 (<=6 thorough, 17.9M) over a 16-symbol escape alphabet plus real-world samples "
      "against an independent escape-sequence scanner.  Deductive sub-result (all strings): a string in which ESC[ does not occur comes "
      "back from the real fmtstr / FmtStr.from_str as one unformatted run with exactly that text.",
      "parse/peel_off_esc_code/remove_ansi (the ESC[ branch of from_str) are regex-driven, outside the deductive subset (DESIGN 10).",
      "exhaustive bounded checking against an independent scanner + contract-based deductive verification of the escape-free branch", "DESIGN 9/C17")

claim("C03", "exploration",
      "Per-call contract of get_key/_key_name/decodable/could_be_unfinished_* proved for every byte string of every length 1..MAX+1 "
      "(symbolic bytes, three encodings, three naming modes, full and not full): known keys named from the tables, more input asked "
      "only for prefixes / characters that can still grow, no failure unless the bytes are neither; table facts evaluated; at stream "
      "level the real cutting loop Input._send.find_key is proved to consume the buffered bytes in order without losing or duplicating one "
      "and to cut at the first prefix the decoder recognises (any buffer length, loop invariant); which cuts those are is decided by the "
      "exhaustive decision-tree walk (complete for ascii, latin-1) and two-item streams.",
      "Level is exploration because the stream-level statement has a listed known finding (prefix key followed by a non-ASCII byte "
      "in one read); decode validity per spec/utf8.py (validated against CPython); quick tier proves lengths 1-4, MAX, MAX+1.",
      "contract-based deductive verification on symbolic bytes (complete per call) + exhaustive decision-tree walk", "DESIGN 9/C03")
claim("C20", "proof",
      "Mode independence: the per-call contract of get_key (whose 'asks for more'/'raises' conditions do not mention the naming mode, "
      "and whose bytes-mode clause is identity) is proved for each mode on symbolic bytes; table inclusion evaluated; every valid "
      "configuration key name (finite domain, exhaustive) maps to names the decoder can produce; decision tree walked under 3 modes.",
      "Finite config-name domain decided by exhaustive evaluation; producible names = CURTSIES_NAMES values (naming clause G2); quick "
      "tier proves lengths 1-3 and MAX+1, thorough all.",
      "contract-based deductive verification on symbolic bytes + exhaustive-finite evaluation of KeyMap", "DESIGN 9/C20")

claim("C02", "proof",
      "Inductive proof over histories: the real FullscreenWindow.render_to_terminal (with on_terminal_size_change inlined) is proved, "
      "from ANY window/terminal state satisfying the representation invariant 'same size => every cached row is displayed as cached and "
      "the cache is empty or complete', to leave every screen row showing the array row (clipped) or blank, the cursor at cursor_pos, "
      "no write outside the protocol (no wrap, no scroll), and the invariant re-established - so it holds after every render of every "
      "sequence of renders and resizes (a resize falsifies the size clause, nothing is assumed about the junk it leaves). Ghost terminal "
      "at row granularity, symbolic row cache (arrays), quantified loop invariants. Bounded stand-in: 14 740 / 110 740 histories on a "
      "reference xterm model (+ pyte).",
      "Assumed: blessed/xterm capability semantics at row level (validated by the bounded suite against spec/terminal.py and pyte), "
      "height/width properties as fields, lines identified with their terminal strings (C19/C01/C06/C04 contracts).",
      "contract-based deductive verification with a representation invariant (induction over histories) + bounded history checking", "DESIGN 9/C02")
claim("C07", "proof",
      "Inductive proof over render histories: the real CursorAwareWindow.render_to_terminal (on_terminal_size_change inlined) is proved, from "
      "ANY window/terminal state satisfying the representation invariant (same size => every cached row of [top, H) is displayed as cached "
      "and the cache is empty or complete on [top, H); whatever scrolls into view is blank), to leave every line above the window's first "
      "row exactly as it was (scrollback included), to show array row i on the tape cell T0+i for every i (rows pushed off the top stay "
      "intact in the scrollback), to blank the rest of the screen, to scroll exactly max(0, n-(H-T0)) lines, to return the rows pushed off, "
      "to leave the cursor on the designated cell (the top row if that cell has scrolled off), to write nothing outside the protocol, and to "
      "re-establish the invariant.  Ghost terminal = a tape of rows (scrolling = moving the screen window along it), row cache = symbolic "
      "dict with a key shift (re-keying per scroll), three quantified loop invariants; 194 obligations.  Bounded stand-in: 14 690 / 108 000 "
      "render histories on a reference xterm model with scrollback (+ pyte.HistoryScreen).",
      "Assumed: blessed/xterm capability semantics at row level and scroll_down = one line (validated by the bounded suite against "
      "spec/terminal.py and pyte); rows no wider than the terminal, single-column characters; cursor query returns the cursor row; leaving "
      "the context is covered by the bounded suite only.",
      "contract-based deductive verification with a representation invariant (induction over histories, tape-model ghost terminal) + bounded history checking", "DESIGN 9/C07")

claim("C12", "exploration",
      "Deductive: for Nonblocking, Termmode, Cbreak, ReplacedSigIntHandler, Input (all flag combinations, fresh and re-used object, main "
      "and non-main thread), BaseWindow, FullscreenWindow and CursorAwareWindow the REAL __enter__ and then the REAL __exit__ body are "
      "executed from an arbitrary symbolic OS state (tty attributes, status flags, SIGINT handler, wake-up fd, open-fd count, cursor, "
      "alternate screen) - __exit__ both as after a normal end of the block and with opaque exception arguments whose isinstance/issubclass "
      "tests go both ways - and every component is proved restored; _nonblocking_read and send are proved to leave flags/handler "
      "unchanged on every exit (return, BlockingIOError, other OSError, exceptions escaping _send); render_to_terminal of both window "
      "classes is proved (loop invariants carrying the OS ghost state; any array, cache, cursor_pos and terminal size >= 0, 0x0 included) "
      "to leave a visible cursor visible and every other restored component as it was.  Bounded: 3 400 / 25 000 scenarios "
      "on a real pty with snapshots (exceptions after every body prefix, nesting, threads, real SIGINT).",
      "Level is exploration: the OS/blessed contracts are assumed, signals between two bytecodes of __enter__/__exit__ are not covered, "
      "and there is a listed known finding (pipe leak of threadsafe_event_trigger).",
      "contract-based deductive verification over a ghost OS state (protocol runs of the real bodies) + pty-based bounded checking", "DESIGN 9/C12")
claim("C08", "exploration",
      "Bounded: every history of <=3 (thorough 4) operations over a 19-operation alphabet x 4 paste thresholds on a real pipe/pty with a "
      "substituted clock and callbacks injected inside select (before / during the wait), bursts straddling the 1024-byte read, seeded random "
      "histories, and a few real two-thread runs; oracle = reference queue model written from the statement.  Deductive sub-result: the byte "
      "accounting of Input._send.find_key for every buffer (no byte lost, duplicated or reordered; cut at the first recognised prefix; None only "
      "for an empty buffer; ValueError only when no prefix is recognised).",
      "The property quantifies over thread schedules and signal timing, which sequential contracts cannot express (DESIGN 10); only injection "
      "at the wait is covered; queues/clock/select are bounded only.  Known findings: read ending inside a character; key prefix + non-ASCII.",
      "bounded history checking against a reference queue model + contract-based deductive verification of the byte accounting of find_key", "DESIGN 9/C08 and 10")

ALL = [f"C{i:02d}" for i in range(1, 21)]
NA_REASON = "check not built yet in this session (work in progress; see DESIGN.md section 9 for the plan)"
m = dict(version=1, setup_cmd="bin/setup",
         hooks=dict(guard="CURTSIES_VERIF", enable="none: contracts are sidecar files under /verif/contracts; no hook in /repo",
                    baseline_off_cmd="cd /repo && /venv/bin/python -m pytest -ra -q -p no:cacheprovider --timeout=900 --continue-on-collection-errors",
                    source_commits=[], add_only=True),
         engines=[dict(name="pyvc", path="pyvc/", serves_properties=sorted(P),
                       kind_free_text="own verification-condition generator over the real Python AST (symbolic execution cut at sidecar "
                                      "loop invariants and callee contracts), discharged by cvc5 1.0.3 --strings-exp and z3 5.1; "
                                      "counter-models replayed on the real functions; bounded run-time evaluation of the same contracts")],
         checks=[P[k] for k in sorted(P)],
         not_applicable=[dict(property_id=k, reason=NA_REASON) for k in ALL if k not in P],
         notes="See DESIGN.md. Exit codes: 0 held, 1 VIOLATION, 3 harness error. CURTSIES_REPO=<dir> points a check at another tree.")
json.dump(m, open(os.path.join(os.path.dirname(os.path.abspath(__file__)), "MANIFEST.json"), "w"), indent=1)
print("claimed", sorted(P))
