"""Regenerates MANIFEST.json from the table below (run: python3 tools_manifest.py)."""
import json, os
P = {}
def claim(pid, level, text, note, technique, design):
    P[pid] = dict(property_id=pid, quick_cmd=f"bin/check {pid} quick", thorough_cmd=f"bin/check {pid} thorough",
                  evidence_file=f"evidence/{pid}.json", replay_cmd_template="bin/replay {path}", engine="pyvc",
                  level_claimed=dict(category=level, text=text, design_ref=design), level_note=note, technique=technique)

claim("C06", "proof",
      "Contracts (sidecar) on the real normalize_slice, FmtStr.__getitem__, __add__, __radd__, __mul__, join: every obligation "
      "(postcondition = the statement, loop invariants over ghost folds, callee preconditions, exception clauses) generated from "
      "/repo's current AST is discharged by cvc5/z3 for all inputs and all iteration counts; the same contracts are also evaluated "
      "at run time on an exhaustive small scope as a labelled bounded stand-in.",
      "Trusted: pyvc executor/value model, spec library, list-homomorphism lemma schemas, solver unsat answers, assumed contract of "
      "fmtstr on plain strings; __len__/.s bodies are verified in C13.",
      "contract-based deductive verification (AST->VC, cvc5/z3) + bounded run-time contract checking", "DESIGN 9/C06")
claim("C09", "proof",
      "Contracts on the real FmtStr.splice, divides, append: the five-way overlap case split is proved against the statement's "
      "postcondition through an inductive invariant over the cells consumed so far (all run layouts, all start/end, str and FmtStr "
      "replacement values); bounded stand-in over all layouts <=3 runs.",
      "Trusted: as C06; the closed form divides[-1] == total length is an instance of the fold lemma.",
      "contract-based deductive verification (AST->VC, cvc5/z3) + bounded run-time contract checking", "DESIGN 9/C09")

ALL = [f"C{i:02d}" for i in range(1, 21)]
NA_REASON = "check not built yet in this session (work in progress; see DESIGN.md section 9 for the plan)"
m = dict(version=1, setup_cmd="bin/setup",
         hooks=dict(guard="CURTSIES_VERIF", enable="none: contracts are sidecar files under /verif/contracts; no hook in /repo",
                    baseline_off_cmd="cd /repo && /venv/bin/python -m pytest -ra -q -p no:cacheprovider --timeout=900 --continue-on-collection-errors",
                    source_commits=[], add_only=True),
         engines=[dict(name="pyvc", path="pyvc/", serves_properties=sorted(P),
                       kind_free_text="own verification-condition generator over the real Python AST (symbolic execution cut at sidecar "
                                      "loop invariants and callee contracts), discharged by cvc5 1.0.3 --strings-exp and z3 5.1; "
                                      "counter-models replayed on the real functions; bounded run-time evaluation of the same contracts")],
         checks=[P[k] for k in sorted(P)],
         not_applicable=[dict(property_id=k, reason=NA_REASON) for k in ALL if k not in P],
         notes="See DESIGN.md. Exit codes: 0 held, 1 VIOLATION, 3 harness error. CURTSIES_REPO=<dir> points a check at another tree.")
json.dump(m, open(os.path.join(os.path.dirname(os.path.abspath(__file__)), "MANIFEST.json"), "w"), indent=1)
print("claimed", sorted(P))
