"""Regenerates MANIFEST.json from the table below (run: python3 tools_manifest.py)."""
import json, os
P = {}
def claim(pid, level, text, note, technique, design):
    P[pid] = dict(property_id=pid, quick_cmd=f"bin/check {pid} quick", thorough_cmd=f"bin/check {pid} thorough",
                  evidence_file=f"evidence/{pid}.json", replay_cmd_template="bin/replay {path}", engine="pyvc",
                  level_claimed=dict(category=level, text=text, design_ref=design), level_note=note, technique=technique)

claim("C06", "proof",
      "Contracts (sidecar) on the real normalize_slice, FmtStr.__getitem__, __add__, __radd__, __mul__, join: every obligation "
      "(postcondition = the statement, loop invariants over ghost folds, callee preconditions, exception clauses) generated from "
      "/repo's current AST is discharged by cvc5/z3 for all inputs and all iteration counts; the same contracts are also evaluated "
      "at run time on an exhaustive small scope as a labelled bounded stand-in.",
      "Trusted: pyvc executor/value model, spec library, list-homomorphism lemma schemas, solver unsat answers, assumed contract of "
      "fmtstr on plain strings; __len__/.s bodies are verified in C13.",
      "contract-based deductive verification (AST->VC, cvc5/z3) + bounded run-time contract checking", "DESIGN 9/C06")
claim("C09", "proof",
      "Contracts on the real FmtStr.splice, divides, append: the five-way overlap case split is proved against the statement's "
      "postcondition through an inductive invariant over the cells consumed so far (all run layouts, all start/end, str and FmtStr "
      "replacement values); bounded stand-in over all layouts <=3 runs.",
      "Trusted: as C06; the closed form divides[-1] == total length is an instance of the fold lemma.",
      "contract-based deductive verification (AST->VC, cvc5/z3) + bounded run-time contract checking", "DESIGN 9/C09")

claim("C13", "proof",
      "Frame/ownership condition decided statically on the AST of every function of formatstring.py (no attribute store outside "
      "__init__/memo slots, every in-place list/dict operation on a fresh local, no function returns an operand-owned list, "
      "FrozenAttributes seals every dict mutator, constructors copy), plus memo-coherence contracts on the real __len__, s, width, "
      "__str__ proved under MemoInv for hit and miss; bounded stand-in: random straight-line programs with snapshots.",
      "Trusted: the may-alias analysis is flow-insensitive and takes calls to return new objects (function-return aliasing checked); "
      "parse_args' keyword dict is the documented exception; private fields are not written from outside the module.",
      "static frame analysis + contract-based deductive verification of the memoising methods + random-program bounded checking", "DESIGN 9/C13")
claim("C18", "exploration",
      "Movement conservation of _get_cursor_vertical_diff_once and get_cursor_vertical_diff (incl. the nested-call shape) is proved "
      "from contracts over a ghost 'reported row / moved' state (all obligations discharged); the report parse of get_cursor_position "
      "is regex-driven and decided by an exhaustive bounded suite over scripted streams only.",
      "Assumed: get_cursor_position returns the reported (row, col); nested calls arrive only inside the query; bounds in evidence.rule.",
      "contract-based deductive verification (integer bookkeeping) + exhaustive bounded checking of the regex parse", "DESIGN 9/C18")
claim("C10", "exploration",
      "interval_overlap, Chunk.width, FmtStr.width (memo) and width_at_offset are proved against contracts over an assumed wcswidth; "
      "the column cutter and the run walk of width_aware_slice are decided by an exhaustive bounded suite against a column model "
      "(strings <=4 over narrow/wide/combining x all 3-run layouts x all ranges).",
      "Assumed contract of cwcwidth (probed); cutter and run walk not under deductive contract (stated bound).",
      "contract-based deductive verification (width functions) + exhaustive bounded checking against a column model", "DESIGN 9/C10")

ALL = [f"C{i:02d}" for i in range(1, 21)]
NA_REASON = "check not built yet in this session (work in progress; see DESIGN.md section 9 for the plan)"
m = dict(version=1, setup_cmd="bin/setup",
         hooks=dict(guard="CURTSIES_VERIF", enable="none: contracts are sidecar files under /verif/contracts; no hook in /repo",
                    baseline_off_cmd="cd /repo && /venv/bin/python -m pytest -ra -q -p no:cacheprovider --timeout=900 --continue-on-collection-errors",
                    source_commits=[], add_only=True),
         engines=[dict(name="pyvc", path="pyvc/", serves_properties=sorted(P),
                       kind_free_text="own verification-condition generator over the real Python AST (symbolic execution cut at sidecar "
                                      "loop invariants and callee contracts), discharged by cvc5 1.0.3 --strings-exp and z3 5.1; "
                                      "counter-models replayed on the real functions; bounded run-time evaluation of the same contracts")],
         checks=[P[k] for k in sorted(P)],
         not_applicable=[dict(property_id=k, reason=NA_REASON) for k in ALL if k not in P],
         notes="See DESIGN.md. Exit codes: 0 held, 1 VIOLATION, 3 harness error. CURTSIES_REPO=<dir> points a check at another tree.")
json.dump(m, open(os.path.join(os.path.dirname(os.path.abspath(__file__)), "MANIFEST.json"), "w"), indent=1)
print("claimed", sorted(P))
