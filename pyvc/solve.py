"""Back ends (DESIGN 2.6): every obligation is exported once as SMT-LIB2; cvc5 (--strings-exp)
is the prover of record for sequence VCs, z3 the model finder.  Verdicts:
  unsat -> discharged     sat -> refuted (+ model)     unknown/timeout/crash -> undecided
"""
import os
import sys
import subprocess
import tempfile
import time
from concurrent.futures import ProcessPoolExecutor

import z3

CVC5 = "/usr/bin/cvc5"


def to_smt2(hyps, goal):
    s = z3.Solver()
    for h in hyps:
        s.add(h)
    s.add(z3.Not(goal))
    # z3's simplifier splits seq.nth into seq.nth_i (in range) / seq.nth_u (out of range, unspecified);
    # both are read back as seq.nth, which has exactly that meaning, so that cvc5 accepts the file.
    txt = s.to_smt2().replace("seq.nth_i", "seq.nth").replace("seq.nth_u", "seq.nth")
    return "(set-logic ALL)\n" + txt


def _pyval(e):
    """z3 model value -> python structure"""
    if z3.is_int_value(e):
        return e.as_long()
    if z3.is_true(e):
        return True
    if z3.is_false(e):
        return False
    if z3.is_seq(e):
        out = []

        def walk(x):
            k = x.decl().kind()
            if k == z3.Z3_OP_SEQ_EMPTY:
                return
            if k == z3.Z3_OP_SEQ_UNIT:
                out.append(_pyval(x.arg(0)))
                return
            if k == z3.Z3_OP_SEQ_CONCAT:
                for i in range(x.num_args()):
                    walk(x.arg(i))
                return
            if z3.is_string_value(x):
                out.extend(ord(c) for c in x.as_string())
                return
            out.append(("?", str(x)))
        walk(e)
        return out
    if z3.is_app(e) and e.sort().kind() == z3.Z3_DATATYPE_SORT:
        return (e.decl().name(), [_pyval(e.arg(i)) for i in range(e.num_args())])
    return ("?", str(e))


def _run_cvc5(path, timeout_s):
    try:
        p = subprocess.run([CVC5, "--strings-exp", f"--tlimit={int(timeout_s * 1000)}", path],
                           capture_output=True, text=True, timeout=timeout_s + 5)
        out = (p.stdout.strip().split("\n") or [""])[0].strip()
        if out in ("sat", "unsat", "unknown"):
            return out, (p.stderr or "")[:300]
        return "error", (p.stdout + p.stderr)[:300]
    except subprocess.TimeoutExpired:
        return "timeout", ""
    except Exception as e:       # pragma: no cover
        return "error", repr(e)


def solve_smt2(job):
    """job = (obligation name, smt2 text, budget seconds, want_model, need_second_opinion)
    -> dict(result, solver, seconds, model, detail)"""
    name, smt2, budget, want_models, second = job
    t0 = time.time()
    fd, path = tempfile.mkstemp(suffix=".smt2", prefix="pyvc_")
    with os.fdopen(fd, "w") as f:
        f.write(smt2)
    try:
        # cvc5 asynchronously, z3 in-process meanwhile
        proc = subprocess.Popen([CVC5, "--strings-exp", f"--tlimit={int(budget * 1000)}", path],
                                stdout=subprocess.PIPE, stderr=subprocess.PIPE, text=True)
        s = z3.Solver()
        s.from_string(smt2)
        zt = min(budget, 1.5)
        s.set("timeout", int(zt * 1000))
        r = s.check()
        zres = str(r)
        detail = ""
        if r == z3.sat:
            models = []
            try:
                for _ in range(max(1, want_models)):
                    m = s.model()
                    mv = {d.name(): _pyval(m[d]) for d in m.decls() if d.arity() == 0}
                    models.append(mv)
                    if len(models) >= want_models:
                        break
                    # block this model on its integer / boolean constants to get a different one
                    blk = []
                    for d in m.decls():
                        if d.arity() == 0 and (z3.is_int_value(m[d]) or z3.is_true(m[d]) or z3.is_false(m[d])) \
                                and "!" not in d.name().split("!")[0][-1:]:
                            blk.append(d() != m[d])
                    if not blk:
                        break
                    s.add(z3.Or(*blk))
                    s.set("timeout", 2000)
                    if s.check() != z3.sat:
                        break
            except Exception as e:  # pragma: no cover
                detail = f"model extraction: {e!r}"
            proc.kill()
            proc.communicate()
            return dict(name=name, result="sat", solver="z3", seconds=time.time() - t0, models=models, detail=detail)
        if r == z3.unsat and not second:
            proc.kill()
            proc.communicate()
            return dict(name=name, result="unsat", solver="z3", seconds=time.time() - t0, models=[], detail="")
        # wait for cvc5 - it usually answers within a second; if it has not after a few, z3 gets a longer attempt in this
        # process while cvc5 keeps running in its own (some row-list VCs are unsat for z3 in ~6 s and time out in cvc5)
        r_long = None
        try:
            out, err = proc.communicate(timeout=min(3.0, max(1.0, budget - (time.time() - t0))))
            cres = (out.strip().split("\n") or [""])[0].strip()
        except subprocess.TimeoutExpired:
            cres, err = None, ""
        if cres is None and r != z3.unsat:
            left = budget - (time.time() - t0) - 1
            if left > 2:
                # z3 as a non-incremental command-line run first (its default tactic decides some VCs the incremental API solver
                # does not), then the API solver for whatever time is left (needed anyway for a model)
                r_long = z3.unknown
                zcli = os.path.join(os.path.dirname(sys.executable), "z3")
                if os.path.exists(zcli):
                    try:
                        pz = subprocess.run([zcli, f"-T:{max(1, int(left * 0.7))}", path], capture_output=True, text=True, timeout=left)
                        first = (pz.stdout.strip().split("\n") or [""])[0].strip()
                        if first == "unsat":
                            r_long = z3.unsat
                        elif first == "sat":
                            r_long = z3.sat
                    except subprocess.TimeoutExpired:
                        pass
                s3 = z3.Solver()
                s3.from_string(smt2)
                if r_long != z3.unsat:
                    left = budget - (time.time() - t0) - 1
                    if left > 1 or r_long == z3.sat:
                        s3.set("timeout", int(max(left, 5) * 1000))
                        r3 = s3.check()
                        if r3 != z3.unknown:
                            r_long = r3
                        elif r_long == z3.sat:
                            proc.kill()
                            proc.communicate()
                            return dict(name=name, result="sat", solver="z3(cli)", seconds=time.time() - t0, models=[], detail="no model")
                if r_long == z3.unsat and not second:
                    proc.kill()
                    proc.communicate()
                    return dict(name=name, result="unsat", solver="z3", seconds=time.time() - t0, models=[], detail="cvc5 still running")
                if r_long == z3.sat:
                    m = s3.model()
                    proc.kill()
                    proc.communicate()
                    return dict(name=name, result="sat", solver="z3", seconds=time.time() - t0,
                                models=[{d.name(): _pyval(m[d]) for d in m.decls() if d.arity() == 0}], detail="")
                if r_long == z3.unsat:
                    r = r_long
        if cres is None:
            try:
                out, err = proc.communicate(timeout=max(1.0, budget - (time.time() - t0)) + 5)
                cres = (out.strip().split("\n") or [""])[0].strip()
            except subprocess.TimeoutExpired:
                proc.kill()
                proc.communicate()
                cres, err = "timeout", ""
        if cres == "unsat":
            if r == z3.unsat:
                return dict(name=name, result="unsat", solver="z3+cvc5", seconds=time.time() - t0, models=[], detail="")
            return dict(name=name, result="unsat", solver="cvc5", seconds=time.time() - t0, models=[], detail=f"z3={zres}")
        if cres == "sat":
            if r == z3.unsat:
                return dict(name=name, result="error", solver="z3+cvc5", seconds=time.time() - t0, models=[],
                            detail="solver disagreement: z3 unsat, cvc5 sat")
            # give z3 more time to produce a model
            s2 = z3.Solver()
            s2.from_string(smt2)
            s2.set("timeout", int(min(budget, 20) * 1000))
            models = []
            if s2.check() == z3.sat:
                m = s2.model()
                models.append({d.name(): _pyval(m[d]) for d in m.decls() if d.arity() == 0})
            return dict(name=name, result="sat", solver="cvc5", seconds=time.time() - t0, models=models,
                        detail="cvc5 sat" + ("" if models else "; z3 produced no model"))
        if r == z3.unsat:
            return dict(name=name, result="unsat", solver="z3", seconds=time.time() - t0, models=[], detail=f"cvc5={cres}")
        # neither answered: one longer z3 attempt within what is left of the budget
        left = budget - (time.time() - t0)
        if left > 2 and r_long is None:
            s3 = z3.Solver()
            s3.from_string(smt2)
            s3.set("timeout", int(left * 1000))
            r3 = s3.check()
            if r3 == z3.unsat:
                return dict(name=name, result="unsat", solver="z3", seconds=time.time() - t0, models=[], detail=f"cvc5={cres}")
            if r3 == z3.sat:
                m = s3.model()
                return dict(name=name, result="sat", solver="z3", seconds=time.time() - t0,
                            models=[{d.name(): _pyval(m[d]) for d in m.decls() if d.arity() == 0}], detail="")
        return dict(name=name, result="unknown", solver="z3+cvc5", seconds=time.time() - t0, models=[],
                    detail=f"z3={zres} cvc5={cres} {err[:200] if isinstance(err, str) else ''}")
    finally:
        try:
            os.unlink(path)
        except OSError:
            pass


_POOL = None


def pool(workers=None):
    global _POOL
    if _POOL is None:
        _POOL = ProcessPoolExecutor(max_workers=workers or max(2, (os.cpu_count() or 4) - 2))
    return _POOL


def shutdown():
    """stop the solver pool (before another process pool forks from this process)"""
    global _POOL
    if _POOL is not None:
        _POOL.shutdown(wait=True)
        _POOL = None


def solve_all(jobs):
    """jobs: list of (name, smt2, budget, want_models, second) -> list of result dicts (same order)"""
    if not jobs:
        return []
    if len(jobs) == 1 or os.environ.get("PYVC_SERIAL"):
        return [solve_smt2(j) for j in jobs]
    return list(pool().map(solve_smt2, jobs))
