"""Loops cut at sidecar invariants, comprehensions as maps/filters/folds (DESIGN 2.5)."""
import ast
import z3
from . import terms as T
from .terms import Lemmas
from .contract import NS, specval
from .values import (Sym, Ref, ListV, DictV, ObjV, SliceV, FuncV, OpaqueV, POISON, Unsupported, PyRaise, fresh,
                     mk_int, mk_bool, int_term, str_term, is_int, SEQ_OF_TAG, SORT_OF_TAG)

NORMAL = ("normal",)


class GenV:
    """lazy comprehension over a symbolic list: elements elt(x) for x in xs [if cond(x)]"""
    __slots__ = ("src", "node", "env", "kind")

    def __init__(self, src, node, env, kind):
        self.src, self.node, self.env, self.kind = src, node, env, kind


class Ghost:
    """ghost fold over the iterated elements: unit, step(g, elem_value, k) and the closed form
    total(space) at exhaustion; tail(total, g_after, st) relates them at a break."""

    def __init__(self, name, sort, unit, step, total, tail=None):
        self.name, self.sort, self.unit, self.step, self.total, self.tail = name, sort, unit, step, total, tail


def _first_chunk(elem):
    if isinstance(elem, tuple):
        for e in elem:
            if isinstance(e, Sym) and e.tag == "chunk":
                return e
        raise Unsupported("ghost V needs a run among the loop targets")
    return elem


def _first_chunk_list(space):
    for t, tag in space.sources:
        if tag == "chunk":
            return t
    raise Unsupported("ghost fold without a run list source")


GHOSTS = {
    # cells of the runs consumed so far
    "V": Ghost("V", T.SC, lambda: z3.Empty(T.SC),
               lambda g, e, k, old: z3.Concat(g, T.CELLS(T.ChunkS.s(_first_chunk(e).t), T.ChunkS.atts(_first_chunk(e).t))),
               lambda sp, old: T.VIEW(_first_chunk_list(sp)),
               lambda total, g2: total == z3.Concat(g2, fresh("rest", T.SC))),
    # columns of the runs consumed so far
    "W": Ghost("W", T.I, lambda: z3.IntVal(0),
               lambda g, e, k, old: g + T.WCS(T.ChunkS.s(_first_chunk(e).t)),
               lambda sp, old: T.TOTW(_first_chunk_list(sp)),
               lambda total, g2: z3.And(total == g2 + fresh("restw", T.I))),
}


class Space:
    """iteration space of a symbolic loop: N iterations, element k, the list terms it reads; `offsets`: element k of the
    loop is element k + off of an underlying sequence (quantified facts about that sequence are instantiated there)"""

    def __init__(self, n, elem, sources, offsets=()):
        self.n, self.elem, self.sources, self.offsets = n, elem, sources, tuple(offsets)


class LoopMixin:
    # ------------------------------------------------------------------ iteration spaces
    def iter_space(self, it, st):
        """-> ('concrete', [values]) | ('symbolic', Space)"""
        if isinstance(it, (tuple,)) and it and it[0] == "range":
            a = it[1:]
            if all(isinstance(x, int) for x in a):
                return "concrete", list(range(*a))
            if len(a) == 1:
                n = int_term(a[0])
                return "symbolic", Space(z3.If(n > 0, n, 0), lambda k: mk_int(k), [])
            if len(a) == 2:
                lo, hi = int_term(a[0]), int_term(a[1])
                return "symbolic", Space(z3.If(hi > lo, hi - lo, 0), lambda k: mk_int(lo + k), [])
            raise Unsupported("range with a step")
        if isinstance(it, tuple) and it and it[0] == "zip":
            subs = [self.iter_space(x, st) for x in it[1:]]
            if all(k == "concrete" for k, _ in subs):
                return "concrete", [tuple(t) for t in zip(*[v for _, v in subs])]
            sp = []
            for (k, v), raw in zip(subs, it[1:]):
                if k == "concrete":
                    raise Unsupported("zip of concrete and symbolic iterables")
                sp.append(v)
            n = sp[0].n
            for s in sp[1:]:
                n = z3.If(n <= s.n, n, s.n)
            return "symbolic", Space(n, lambda k: tuple(s.elem(k) for s in sp), [x for s in sp for x in s.sources],
                                     offsets=[o for s in sp for o in s.offsets])
        if isinstance(it, tuple) and it and it[0] == "enumerate":
            kind, v = self.iter_space(it[1], st)
            if kind == "concrete":
                return "concrete", list(enumerate(v))
            return "symbolic", Space(v.n, lambda k: (mk_int(k), v.elem(k)), v.sources, offsets=v.offsets)
        from .values import AbsSeq
        if isinstance(it, AbsSeq):
            return "symbolic", Space(it.n, (it.elem if it.elem is not None else (lambda k: OpaqueV("element"))), [],
                                     offsets=([it.offset] if it.offset is not None else []))
        if isinstance(it, (tuple, str, bytes, frozenset)):
            return "concrete", list(it)
        if isinstance(it, dict):
            return "concrete", list(it)
        if isinstance(it, Ref):
            o = st.deref(it)
            if isinstance(o, ListV):
                if o.items is not None:
                    return "concrete", list(o.items)
                t, tag = o.t, o.tag
                offs = []
                if o.origin is not None:
                    base, off = o.origin
                    el = lambda k: self.elem_value(tag, base[off + k])
                    offs = [off]
                else:
                    el = lambda k: self.elem_value(tag, t[k])
                if tag == "chunk":
                    st.fact(Lemmas.list_basic(t))
                return "symbolic", Space(z3.Length(t), el, [(t, tag)], offsets=offs)
            if isinstance(o, DictV):
                return "concrete", list(o.items)
        if isinstance(it, Sym) and it.tag == "str":
            return "symbolic", Space(z3.Length(it.t), lambda k: Sym("str", z3.SubSeq(it.t, k, 1), origin=("slice", it.t, k, k + 1)),
                                     [(it.t, "char")])
        if isinstance(it, GenV):
            raise Unsupported("iteration over a lazy comprehension")
        raise Unsupported(f"iteration over {it!r}")

    # ------------------------------------------------------------------ for
    def s_For(self, node, st):
        it = self.ev(node.iter, st)
        kind, sp = self.iter_space(it, st)
        if kind == "concrete":
            return self.unrolled_for(node, sp, st)
        if node.orelse:
            raise Unsupported("for/else over a symbolic iterable")
        brk = self.symbolic_loop(node, sp, st)
        return [(st, NORMAL)] + brk

    def unrolled_for(self, node, values, st):
        outs = []
        live = [st]
        for v in values:
            nxt = []
            for s in live:
                self.assign(node.target, v, s)
                for s2, oc in self.exec_block(node.body, s):
                    if oc == NORMAL or oc[0] == "continue":
                        nxt.append(s2)
                    elif oc[0] == "break":
                        outs.append((s2, NORMAL))
                    else:
                        outs.append((s2, oc))
            live = nxt
            if len(live) > 4096:
                raise Unsupported("path explosion in an unrolled loop")
        for s in live:
            if node.orelse:
                outs += self.exec_block(node.orelse, s)
            else:
                outs.append((s, NORMAL))
        return outs

    # ------------------------------------------------------------------ invariant machinery
    def assigned_in(self, body):
        names, fields, mutated = set(), set(), set()
        for stmt in body:
            for n in ast.walk(stmt):
                if isinstance(n, ast.Name) and isinstance(n.ctx, (ast.Store, ast.Del)):
                    names.add(n.id)
                elif isinstance(n, ast.Attribute) and isinstance(n.ctx, ast.Store) and isinstance(n.value, ast.Name):
                    fields.add((n.value.id, n.attr))
                elif isinstance(n, ast.Subscript) and isinstance(n.ctx, (ast.Store, ast.Del)) and isinstance(n.value, ast.Name):
                    mutated.add(n.value.id)         # x[k] = v mutates x
                elif isinstance(n, ast.AugAssign) and isinstance(n.target, ast.Name):
                    names.add(n.target.id)
                    mutated.add(n.target.id)
                elif isinstance(n, ast.Call) and isinstance(n.func, ast.Attribute) and isinstance(n.func.value, ast.Name) \
                        and n.func.attr in ("append", "extend", "pop", "insert", "remove", "clear", "sort", "reverse", "update"):
                    mutated.add(n.func.value.id)
                elif isinstance(n, ast.Call) and isinstance(n.func, ast.Attribute) and isinstance(n.func.value, ast.Attribute) \
                        and isinstance(n.func.value.value, ast.Name) \
                        and n.func.attr in ("append", "extend", "pop", "insert", "remove", "clear", "sort", "reverse", "update"):
                    fields.add((n.func.value.value.id, n.func.value.attr))      # obj.field.append(..): the list held by the field changes
                elif isinstance(n, ast.Delete):
                    for t in n.targets:
                        if isinstance(t, ast.Subscript) and isinstance(t.value, ast.Name):
                            mutated.add(t.value.id)
                if isinstance(n, ast.Call) and isinstance(n.func, ast.Attribute) and isinstance(n.func.value, ast.Name):
                    # a method whose contract has side effects on its receiver: those fields change in the loop too
                    for key, c in self.registry.items():
                        if key.split(":", 1)[-1].split("#")[0].endswith("." + n.func.attr) and getattr(c, "modifies", None):
                            for fld in c.modifies:
                                fields.add((n.func.value.id, fld))
        return names, fields, mutated

    def havoc_value(self, name, v, st, hints):
        if name in hints:
            return hints[name].fresh(name, st)
        if isinstance(v, bool) or (isinstance(v, Sym) and v.tag == "bool"):
            return Sym("bool", fresh(name, T.B))
        if isinstance(v, Sym) and v.tag == "optint":
            return Sym("optint", fresh(name, T.OptInt))
        if is_int(v):
            return Sym("int", fresh(name, T.I))
        if isinstance(v, Sym) and v.tag in SORT_OF_TAG:
            t = fresh(name, SORT_OF_TAG[v.tag])
            if v.tag == "fmtstr":
                st.fact(Lemmas.list_basic(T.FmtS.chunks(t)))
            return Sym(v.tag, t)
        if isinstance(v, str):
            return Sym("str", fresh(name, T.SI))
        return POISON

    GHOST_CONST = ("term.H", "term.W", "term.rows0", "os.main_thread", "os.entry")

    def havoc_ghost(self, st):
        """ghost state written by callee effects inside the loop body is unknown at an arbitrary iteration"""
        for k in sorted(st.ghost):
            v = st.ghost[k]
            if k in self.GHOST_CONST or k.startswith("ctx.") or not z3.is_expr(v):
                continue
            st.ghost[k] = fresh("ghost_" + k.replace(".", "_"), v.sort())

    def havoc(self, st, names, fields, mutated, hints):
        self.havoc_ghost(st)
        for nm in sorted(names | mutated):
            if nm not in st.env:
                st.env[nm] = POISON if nm not in hints else hints[nm].fresh(nm, st)
                continue
            v = st.env[nm]
            if isinstance(v, Ref) and isinstance(st.deref(v), ListV):
                o = st.deref(v)
                if nm in mutated or nm in names:
                    tag = o.tag
                    if isinstance(hints.get(nm), str) and hints[nm] in SEQ_OF_TAG:
                        tag = hints[nm]
                    elif o.items is not None:
                        tag = None
                        for x in o.items:
                            if isinstance(x, Sym):
                                tag = x.tag
                            elif is_int(x):
                                tag = "int"
                        tag = tag or (hints[nm] if isinstance(hints.get(nm), str) else "chunk")
                    t = fresh(nm, SEQ_OF_TAG[tag])
                    if tag == "chunk":
                        st.fact(Lemmas.list_basic(t))
                    if nm in names and nm not in mutated:
                        st.env[nm] = st.alloc(ListV(tag=tag, t=t))
                    elif nm in names:
                        # rebound and mutated: a fresh object (aliases of the old one are left alone)
                        st.env[nm] = st.alloc(ListV(tag=tag, t=t))
                    else:
                        o.items, o.tag, o.t, o.origin = None, tag, t, None
                continue
            from .values import AbsV, SymDict
            if isinstance(v, Ref) and (isinstance(st.deref(v), SymDict) or
                                       (isinstance(st.deref(v), DictV) and getattr(self.contract, "symdict", False))):
                old_d = st.deref(v)
                # the key shift changes only when the name is rebound in the loop body (a re-keying comprehension)
                keep_shift = isinstance(old_d, SymDict) and nm not in names
                nd = SymDict(fresh(nm + "_present", z3.ArraySort(T.I, T.B)), fresh(nm + "_val", z3.ArraySort(T.I, T.I)), fresh(nm + "_nonempty", T.B),
                             old_d.shift if keep_shift else (z3.IntVal(0) if not isinstance(old_d, SymDict) and nm not in names else fresh(nm + "_shift", T.I)))
                if nm in names:
                    st.env[nm] = st.alloc(nd)
                else:
                    st.heap[v.oid] = nd
                continue
            from .values import SymAtts
            if isinstance(v, Ref) and (isinstance(st.deref(v), SymAtts) or
                                       (isinstance(st.deref(v), DictV) and hints.get(nm) == "atts")):
                nd = SymAtts(fresh(nm, T.Atts))
                if nm in names:
                    st.env[nm] = st.alloc(nd)
                else:
                    st.heap[v.oid] = nd
                continue
            if isinstance(v, Ref) and isinstance(st.deref(v), (DictV, AbsV)):
                if getattr(self.contract, "abstract", False):
                    if nm in names:
                        st.env[nm] = st.alloc(AbsV(fresh(nm, T.I), kind="dict"))
                    else:
                        st.heap[v.oid] = AbsV(fresh(nm, T.I), kind="dict")
                    continue
                raise Unsupported(f"dict {nm} modified inside an invariant-cut loop")
            st.env[nm] = self.havoc_value(nm, v, st, hints)
        for obj, attr in sorted(fields):
            v = st.env.get(obj)
            if isinstance(v, Ref) and isinstance(st.deref(v), ObjV):
                o = st.deref(v)
                cur = o.fields.get(attr)
                if isinstance(cur, Ref) and isinstance(st.deref(cur), ListV):
                    lv = st.deref(cur)
                    tag = lv.tag if lv.items is None else (hints.get(f"{obj}.{attr}") if isinstance(hints.get(f"{obj}.{attr}"), str) else None)
                    if tag not in SEQ_OF_TAG:
                        raise Unsupported(f"list field {obj}.{attr} of unknown element type modified in a loop")
                    nt = fresh(f"{obj}_{attr}", SEQ_OF_TAG[tag])
                    if tag == "chunk":
                        st.fact(Lemmas.list_basic(nt))
                    st.heap[cur.oid] = ListV(tag=tag, t=nt)       # same object, unknown contents
                    continue
                o.fields[attr] = self.havoc_value(f"{obj}_{attr}", cur, st, hints)
            else:
                raise Unsupported(f"attribute store {obj}.{attr} in a loop")

    def loop_ns(self, st, k, ghosts):
        d = {}
        for nm, v in st.env.items():
            try:
                sv = specval(v, st, self)
            except Unsupported:
                continue
            d[nm] = sv
        d["k"] = k
        d.update(ghosts)
        d["old"] = self.entry_ns
        d["_st"] = st
        return NS(d)

    def get_loop_spec(self, node):
        o = self.loop_ordinal.get(id(node))
        spec = self.contract.loops.get(o)
        if spec is None:
            raise Unsupported(f"loop {o} of {self.contract.qualname} has no invariant in the sidecar contract")
        return spec

    def symbolic_loop(self, node, sp, st, spec=None):
        """Cuts a `for` over a symbolic iteration space at its invariant.  Emits inv0 / invS obligations,
        turns `st` (in place) into the state after exhaustion and returns the states after `break`."""
        spec = spec or self.get_loop_spec(node)
        hints = getattr(spec, "types", {}) or {}
        names, fields, mutated = self.assigned_in(node.body)
        tnames = {n.id for n in ast.walk(node.target) if isinstance(n, ast.Name)}
        names -= tnames
        gdefs = [GHOSTS[g] if isinstance(g, str) else g for g in spec.ghosts]
        # (i) invariant on entry
        g0 = {g.name: g.unit() for g in gdefs}
        self.inv_oblige(spec, st, z3.IntVal(0), g0, "inv0", f"loop@{node.lineno}", sp)
        # (ii) preserved by an arbitrary iteration
        s2 = st.clone()
        self.havoc(s2, names, fields, mutated, hints)
        k = fresh("k", T.I)
        gk = {g.name: fresh(g.name, g.sort) for g in gdefs}
        s2.assume(k >= 0, k < sp.n)
        s2.add_index(k)
        s2.add_index(k + 1)
        for off in sp.offsets:
            s2.add_index(z3.simplify(off + k))
        self.inv_assume(spec, s2, k, gk, sp)
        # the iteration's ghost values and index are visible to invariants of loops nested in the body ("ctx." entries are
        # constants of the iteration: never havocked)
        for g in gdefs:
            s2.ghost["ctx." + g.name] = gk[g.name]
        s2.ghost["ctx.k"] = k
        for g in gdefs:         # before the first iteration every ghost fold is its unit
            s2.fact(z3.Implies(k == 0, gk[g.name] == g.unit()))
        elem = sp.elem(k)
        self._elem_facts(elem, s2)
        self.assign(node.target, elem, s2)
        g1 = {g.name: g.step(gk[g.name], elem, k, self.entry_ns) for g in gdefs}
        from . import spec as S_
        s2.fact(S_.drain())     # lemma instances requested by the ghost steps belong to every path through the body
        for g in gdefs:         # fold split at k: total == (fold of elements 0..k) (+) rest
            if g.tail is not None:
                if g.tail.__code__.co_argcount >= 3:
                    s2.fact(g.tail(g.total(sp, self.entry_ns), g1[g.name], self.entry_ns))
                else:
                    s2.fact(g.tail(g.total(sp, self.entry_ns), g1[g.name]))
        s2.trace.append(f"loop@{node.lineno}:iter")
        breaks, others = [], []
        for s3, oc in self.exec_block(node.body, s2):
            if oc == NORMAL or oc[0] == "continue":
                self.inv_oblige(spec, s3, k + 1, g1, "invS", f"loop@{node.lineno} " + "/".join(s3.trace[-3:]), sp)
            elif oc[0] == "break":
                for g in gdefs:
                    if g.tail is None:
                        raise Unsupported(f"ghost {g.name} has no break relation")
                s3.ghost.update(g1)
                breaks.append((s3, NORMAL))
            else:
                others.append((s3, oc))
        # (iii) exhaustion: st becomes the state after the loop
        self.havoc(st, names, fields, mutated, hints)
        gx = {g.name: fresh(g.name + "x", g.sort) for g in gdefs}
        st.add_index(sp.n)
        self.inv_assume(spec, st, sp.n, gx, sp)
        for g in gdefs:
            st.assume(gx[g.name] == g.total(sp, self.entry_ns))
        st.trace.append(f"loop@{node.lineno}:done")
        self.loop_exits = getattr(self, "loop_exits", [])
        return breaks + others

    def _inv_parts(self, spec, st, k, ghosts, sp=None):
        from . import spec as S
        L = self.loop_ns(st, k, ghosts)
        if sp is not None:
            L.__dict__["at"] = lambda i, sp=sp, st=st: specval(sp.elem(i), st, self)
        try:
            r = spec.inv(L)
        except AttributeError as e:
            # a local named by the invariant no longer exists (rename/refactor): binding failure -> undecided
            raise Unsupported(f"invariant binding failure: {e}")
        st.fact(S.drain())
        if not isinstance(r, (list, tuple)):
            r = [r]
        ground, foralls = [], []
        for x in r:
            if callable(x) and not z3.is_expr(x):
                foralls.append(x)
            else:
                ground.append(z3.BoolVal(x) if isinstance(x, bool) else x)
        return ground, foralls

    def inv_assume(self, spec, st, k, ghosts, sp=None):
        ground, foralls = self._inv_parts(spec, st, k, ghosts, sp)
        st.assume(*ground)
        for f in foralls:
            st.add_inst(f)

    def inv_oblige(self, spec, st, k, ghosts, kind, label, sp=None):
        ground, foralls = self._inv_parts(spec, st, k, ghosts, sp)
        self.oblige(st, kind, z3.And(*ground) if len(ground) != 1 else ground[0], label=label)
        for f in foralls:
            j = fresh("j", T.I)
            st.add_index(j)
            self.oblige(st, kind + ".forall", f(j), label=label)

    def _inv(self, spec, st, k, ghosts):
        ground, foralls = self._inv_parts(spec, st, k, ghosts)
        if foralls:
            raise Unsupported("quantified invariant on a while loop")
        return z3.And(*ground) if len(ground) != 1 else ground[0]

    def _elem_facts(self, elem, st):
        for e in (elem if isinstance(elem, tuple) else (elem,)):
            if isinstance(e, Sym) and e.tag == "chunk":
                st.fact(Lemmas.chunk(e.t))

    # ------------------------------------------------------------------ while
    def s_While(self, node, st):
        if node.orelse:
            raise Unsupported("while/else")
        spec = self.get_loop_spec(node)
        hints = getattr(spec, "types", {}) or {}
        names, fields, mutated = self.assigned_in(node.body)
        self.inv_oblige(spec, st, z3.IntVal(0), {}, "inv0", f"while@{node.lineno}")
        outs = []
        s2 = st.clone()
        self.havoc(s2, names, fields, mutated, hints)
        k = fresh("k", T.I)
        s2.assume(k >= 0)
        s2.add_index(k)
        self.inv_assume(spec, s2, k, {})
        s2.trace.append(f"while@{node.lineno}:iter")
        for s2b, guard in self._guard_states(node.test, s2):
            if not guard:
                continue
            for s3, oc in self.exec_block(node.body, s2b):
                if oc == NORMAL or oc[0] == "continue":
                    self.inv_oblige(spec, s3, k + 1, {}, "invS", f"while@{node.lineno} " + "/".join(s3.trace[-3:]))
                elif oc[0] == "break":
                    outs.append((s3, NORMAL))
                else:
                    outs.append((s3, oc))
        s4 = st
        self.havoc(s4, names, fields, mutated, hints)
        kx = fresh("kx", T.I)
        s4.assume(kx >= 0)
        s4.add_index(kx)
        self.inv_assume(spec, s4, kx, {})
        s4.trace.append(f"while@{node.lineno}:done")
        for s5, guard in self._guard_states(node.test, s4):
            if guard:
                continue
            outs.append((s5, NORMAL))
        return outs

    def _guard_states(self, test, st):
        """evaluate a loop guard, forking as needed -> [(state, python bool)]"""
        from .values import NeedSplit
        pre = st.clone()
        try:
            c = self.truth(self.ev(test, st), st)
        except NeedSplit as ns:
            res = []
            for val in (True, False):
                cc = ns.cond if val else z3.Not(ns.cond)
                if self.feasible(pre, cc):
                    s = pre.clone()
                    s.pc.append(cc)
                    s.decided.append((ns.cond, val))
                    res += self._guard_states(test, s)
            return res
        if isinstance(c, bool):
            return [(st, c)]
        res = []
        for val in (True, False):
            cc = c if val else z3.Not(c)
            if self.feasible(st, cc):
                s = st.clone()
                s.pc.append(cc)
                res.append((s, val))
        return res

    # ------------------------------------------------------------------ comprehensions
    def comprehension(self, n, st, kind):
        if kind == "dict" and len(n.generators) == 2:
            return self.merged_atts_comprehension(n, st)
        if len(n.generators) != 1 or n.generators[0].is_async:
            raise Unsupported("nested comprehension")
        g = n.generators[0]
        single = self._single_bytes_idiom(n, g, st) if kind in ("list", "gen") else None
        if single is not None:
            return single
        it = self.ev(g.iter, st)
        if isinstance(it, tuple) and len(it) == 2 and it[0] == "symdict_items":
            return self.rekey_symdict(n, g, it[1], st, kind)
        k, sp = self.iter_space(it, st)
        if k == "concrete":
            out = []
            keys = {}
            saved = dict(st.env)
            for v in sp:
                self.assign(g.target, v, st)
                if all(self._truth_concrete(self.ev(c, st), st) for c in g.ifs):
                    if kind == "dict":
                        kk = self.ev(n.key, st)
                        if isinstance(kk, (Sym, Ref)):
                            raise Unsupported("symbolic dict-comprehension key")
                        keys[kk] = self.ev(n.value, st)
                    else:
                        out.append(self.ev(n.elt, st))
            for nm in [x.id for x in ast.walk(g.target) if isinstance(x, ast.Name)]:
                if nm in saved:
                    st.env[nm] = saved[nm]
                else:
                    st.env.pop(nm, None)
            if kind == "dict":
                return st.alloc(DictV(keys))
            return st.alloc(ListV(items=out))
        if kind == "dict" and getattr(self.contract, "abstract", False):
            from .values import AbsV
            return st.alloc(AbsV(fresh("absdict", T.I), kind="dict"))
        gv = GenV(sp, n, dict(st.env), kind)
        if kind == "list":
            return self.materialize(gv, st)
        return gv

    def _single_bytes_idiom(self, n, g, st):
        """X[i : i + 1] for i in range(len(X)) over a symbolic bytes value X: the list of X's one-byte slices, in order (their
        concatenation is X) - the library's way of turning a read into buffered single bytes"""
        if g.ifs or not isinstance(g.target, ast.Name):
            return None
        i = g.target.id
        it, e = g.iter, n.elt
        ok = (isinstance(it, ast.Call) and isinstance(it.func, ast.Name) and it.func.id == "range" and len(it.args) == 1 and not it.keywords
              and isinstance(it.args[0], ast.Call) and isinstance(it.args[0].func, ast.Name) and it.args[0].func.id == "len"
              and len(it.args[0].args) == 1 and isinstance(it.args[0].args[0], ast.Name)
              and isinstance(e, ast.Subscript) and isinstance(e.value, ast.Name) and e.value.id == it.args[0].args[0].id
              and isinstance(e.slice, ast.Slice) and e.slice.step is None
              and isinstance(e.slice.lower, ast.Name) and e.slice.lower.id == i
              and isinstance(e.slice.upper, ast.BinOp) and isinstance(e.slice.upper.op, ast.Add)
              and isinstance(e.slice.upper.left, ast.Name) and e.slice.upper.left.id == i
              and isinstance(e.slice.upper.right, ast.Constant) and e.slice.upper.right.value == 1
              and "range" not in st.env and "len" not in st.env and i != e.value.id)
        if not ok:
            return None
        x = st.env.get(e.value.id)
        if not (isinstance(x, Sym) and x.tag == "bytes"):
            return None
        return st.alloc(ListV(tag="byte1", t=x.t))

    def merged_atts_comprehension(self, n, st):
        """{k: v for run in RUNS for (k, v) in run.atts.items()}: the attribute dicts of the runs merged in order (a later run's
        value wins).  Modelled per attribute key by a witness: the merged value, if present, is the value of the LAST run that has
        the key; a key some run has is present."""
        g1, g2 = n.generators
        ok = (not g1.ifs and not g2.ifs and isinstance(g1.target, ast.Name) and isinstance(g2.target, ast.Tuple) and len(g2.target.elts) == 2
              and all(isinstance(e, ast.Name) for e in g2.target.elts)
              and isinstance(n.key, ast.Name) and n.key.id == g2.target.elts[0].id
              and isinstance(n.value, ast.Name) and n.value.id == g2.target.elts[1].id
              and isinstance(g2.iter, ast.Call) and isinstance(g2.iter.func, ast.Attribute) and g2.iter.func.attr == "items" and not g2.iter.args
              and isinstance(g2.iter.func.value, ast.Attribute) and g2.iter.func.value.attr in ("atts", "_atts")
              and isinstance(g2.iter.func.value.value, ast.Name) and g2.iter.func.value.value.id == g1.target.id)
        if not ok:
            raise Unsupported("nested comprehension")
        src = self.ev(g1.iter, st)
        if not (isinstance(src, Ref) and isinstance(st.deref(src), ListV)):
            raise Unsupported("nested comprehension over a non-list")
        lv = st.deref(src)
        xs, tag = self.list_term(lv, st, "chunk")
        if tag != "chunk":
            raise Unsupported("nested comprehension over a list that does not hold runs")
        nruns = z3.Length(xs)
        R = fresh("merged_atts", T.Atts)
        for i, fld in enumerate(T.ATT_FIELDS):
            w = fresh(f"last_{T.ATT_KEYS[i]}", T.I)
            st.fact(z3.Implies(fld(R) != 0, z3.And(w >= 0, w < nruns, fld(T.ChunkS.atts(xs[w])) == fld(R))))
            st.add_inst(lambda j, fld=fld, w=w: z3.Implies(z3.And(j >= 0, j < nruns, fld(T.ChunkS.atts(xs[j])) != 0),
                                                          z3.And(fld(R) != 0, z3.Or(j <= w, z3.BoolVal(False)))))
            st.add_inst(lambda j, fld=fld, w=w: z3.Implies(z3.And(j > w, j < nruns, fld(R) != 0), fld(T.ChunkS.atts(xs[j])) == 0))
            st.add_index(w)
            if xs.decl().name() == "DROP_EMPTY":        # the kept run at w is the run DROPJ(base, w) of the unfiltered list
                st.add_index(T.DROPJ(xs.arg(0), w))
                st.add_index(T.DROPJ(xs.arg(0), z3.IntVal(0)))
        return Sym("atts", R)

    def rekey_symdict(self, n, g, ref, st, kind):
        """{k + c: v for k, v in d.items()} over a symbolic int-keyed dict: the same entries under shifted keys"""
        from .values import SymDict
        d = st.deref(ref)
        if kind != "dict" or g.ifs or not (isinstance(g.target, ast.Tuple) and len(g.target.elts) == 2
                                         and all(isinstance(e, ast.Name) for e in g.target.elts)):
            raise Unsupported("comprehension over the items of a symbolic dict")
        kn, vn = g.target.elts[0].id, g.target.elts[1].id
        if not (isinstance(n.value, ast.Name) and n.value.id == vn):
            raise Unsupported("re-keying comprehension that changes the values")
        key = n.key
        if isinstance(key, ast.Name) and key.id == kn:
            c = 0
        elif isinstance(key, ast.BinOp) and isinstance(key.left, ast.Name) and key.left.id == kn and isinstance(key.op, (ast.Add, ast.Sub)):
            cv = self.ev(key.right, st)
            if not is_int(cv):
                raise Unsupported("re-keying by a non-integer")
            c = int_term(cv) if isinstance(key.op, ast.Add) else -int_term(cv)
        else:
            raise Unsupported("re-keying comprehension with this key expression")
        # new key k' = k + c holds what key k held: array index of k' is k' - c + shift
        return st.alloc(SymDict(d.present, d.val, d.nonempty, z3.simplify(d.shift - c)))

    def _truth_concrete(self, v, st):
        t = self.truth(v, st)
        if isinstance(t, bool):
            return t
        return self.decide(t, st)

    def gen_apply(self, gv, elem, st):
        """evaluate the comprehension's (cond, elt) for one element value"""
        g = gv.node.generators[0]
        saved = st.env
        st.env = dict(gv.env)
        try:
            self.assign(g.target, elem, st)
            conds = [self.truth(self.ev(c, st), st) for c in g.ifs]
            val = self.ev(gv.node.elt, st)
        finally:
            st.env = saved
        return conds, val

    def materialize(self, gv, st):
        """list of the comprehension's values as a symbolic list (map / filter-nonempty)"""
        sp = gv.src
        e = Sym("chunk", fresh("e", T.ChunkS)) if any(tag == "chunk" for _, tag in sp.sources) and len(sp.sources) == 1 else None
        if e is None:
            return self.materialize_general(gv, st)
        xs = sp.sources[0][0]
        probe = st.clone()
        from .values import NeedSplit
        try:
            conds, val = self.gen_apply(gv, e, probe)
        except NeedSplit:
            raise Unsupported("comprehension element branches on the element")
        if conds:
            # only the filter `if x.s` with identity element: DROP_EMPTY
            c = conds[0]
            if len(conds) == 1 and isinstance(val, Sym) and val.t.eq(e.t) and not isinstance(c, bool) and \
                    z3.simplify(c).eq(z3.simplify(z3.Length(T.ChunkS.s(e.t)) > 0)):
                st.fact(Lemmas.drop_empty(xs))
                d = T.DROPE(xs)
                # filter facts (lean/Lemmas.lean: mem_filter): every kept run is a run of xs with characters; a run with
                # characters makes the result non-empty; nothing is invented
                st.fact(z3.Length(d) <= z3.Length(xs))
                st.add_inst(lambda i, d=d, xs=xs: z3.Implies(z3.And(i >= 0, i < z3.Length(d)),
                                                             z3.And(T.DROPJ(xs, i) >= 0, T.DROPJ(xs, i) < z3.Length(xs),
                                                                    d[i] == xs[T.DROPJ(xs, i)], z3.Length(T.ChunkS.s(d[i])) > 0)))
                st.add_inst(lambda j, d=d, xs=xs: z3.Implies(z3.And(j >= 0, j < z3.Length(xs), z3.Length(T.ChunkS.s(xs[j])) > 0),
                                                             z3.Length(d) > 0))
                return st.alloc(ListV(tag="chunk", t=d))
            raise Unsupported("filtered comprehension other than `x for x in xs if x.s`")
        if isinstance(val, Sym) and val.t.eq(e.t):
            return st.alloc(ListV(tag="chunk", t=xs))          # identity map
        if isinstance(val, Sym) and val.tag in SEQ_OF_TAG:
            out = fresh("mapped", SEQ_OF_TAG[val.tag])
            st.fact(z3.Length(out) == sp.n)
            if val.tag == "chunk":
                st.fact(Lemmas.list_basic(out))

            def inst(i, gv=gv, out=out, sp=sp, st=st):
                s = st
                _, v = self.gen_apply(gv, sp.elem(i), s)
                return z3.Implies(z3.And(i >= 0, i < sp.n), out[i] == v.t)
            st.add_inst(inst)
            return st.alloc(ListV(tag=val.tag, t=out))
        raise Unsupported("comprehension element is not a modelled value")

    def materialize_general(self, gv, st):
        """[elt(x) for x in <symbolic space>] whose element evaluation neither branches on the element nor has side effects:
        a fresh sequence `out` with |out| = N and the instantiable fact out[i] == elt(space[i]).
        An element evaluation that may RAISE (a callee contract with exception clauses) makes the whole comprehension raise:
        a fresh boolean ALLOK guards the facts; not ALLOK has a witness index whose element raises (the first such exception
        class is propagated).  Element evaluations are executed on a scratch copy of the state, so the facts they assume are
        added only under `0 <= i < N and ALLOK` (and under the element's own not-raising conditions)."""
        sp = gv.src
        if gv.node.generators[0].ifs:
            raise Unsupported("filtered comprehension over this iteration space")
        # the generic element (index pk, 0 <= pk < N): obligations raised while evaluating it (callee preconditions, safety) are
        # emitted once, for this arbitrary index
        probe_k = fresh("pk", T.I)
        gen_st = st.clone()
        gen_st.assume(probe_k >= 0, probe_k < sp.n)
        gen_st.add_index(probe_k)
        for off in sp.offsets:
            gen_st.add_index(z3.simplify(off + probe_k))
        val0, conds0, facts0 = self._elt_on_scratch(gv, sp.elem(probe_k), gen_st, oblige=True)
        if not (isinstance(val0, Sym) and val0.tag in SEQ_OF_TAG):
            raise Unsupported("comprehension element is not a modelled value")
        tag = val0.tag
        out = fresh("mapped", SEQ_OF_TAG[tag])
        st.fact(z3.Length(out) == sp.n)
        if tag == "chunk":
            st.fact(Lemmas.list_basic(out))
        # (named after the site, so that re-executing the statement after a fork meets the same constant again)
        allok = st.nd_bool(f"allok@{gv.node.lineno}:{gv.node.col_offset}") if conds0 else z3.BoolVal(True)

        def inst(i, gv=gv, sp=sp, st=st, out=out):
            val, conds, facts = self._elt_on_scratch(gv, sp.elem(i), st)
            body = [out[i] == val.t] + [z3.Not(c) for _, c in conds] + facts
            return z3.Implies(z3.And(i >= 0, i < sp.n, allok), z3.And(*body))
        st.add_inst(inst)
        st.seq_inst[out.get_id()] = inst
        if conds0:
            # the comprehension raises iff some element raises
            if not self.decide(allok, st):
                w = st.nd_int(f"witness@{gv.node.lineno}:{gv.node.col_offset}")
                st.add_index(w)
                valw, condsw, factsw = self._elt_on_scratch(gv, sp.elem(w), st)
                st.assume(w >= 0, w < sp.n, z3.Or(*[c for _, c in condsw]))
                # which exception: the first listed clause that holds at the witness
                for exc, c in condsw[:-1]:
                    if self.decide(c, st):
                        raise PyRaise(exc, note="raised while evaluating a comprehension element")
                raise PyRaise(condsw[-1][0], note="raised while evaluating a comprehension element")     # (the disjunction holds)
        return st.alloc(ListV(tag=tag, t=out))

    def _elt_on_scratch(self, gv, elem, st, oblige=False):
        """evaluate the comprehension's element for one element of the space on a scratch copy of `st`, collecting the raise
        conditions of callee contracts instead of forking -> (value, [(exception, condition)], [facts the evaluation assumed])"""
        from .values import NeedSplit
        scratch = st.clone()
        n_f, n_p = len(scratch.facts), len(scratch.pc)
        self._collect_raises = []
        saved_sup = getattr(self, "_suppress_oblige", False)
        self._suppress_oblige = not oblige
        from . import spec as S_
        saved_blanks = list(S_._BLANK_TERMS)       # blank-splitting lemmas only among the terms of this one evaluation
        del S_._BLANK_TERMS[:]
        try:
            _, val = self.gen_apply(gv, elem, scratch)
        except NeedSplit:
            raise Unsupported("comprehension element branches on the element")
        finally:
            conds, self._collect_raises = self._collect_raises, None
            self._suppress_oblige = saved_sup
            S_._BLANK_TERMS[:] = saved_blanks
        if scratch.inst[len(st.inst):]:
            raise Unsupported("comprehension element with a quantified callee postcondition")
        return val, conds, scratch.facts[n_f:] + scratch.pc[n_p:]

    # ------------------------------------------------------------------ folds: sum / all / any / join
    def fold_call(self, kind, args, st):
        src = args[0]
        if isinstance(src, Ref) and isinstance(st.deref(src), ListV) and st.deref(src).items is not None:
            items = st.deref(src).items
            return self.fold_concrete(kind, items, args[1:], st)
        if isinstance(src, (tuple, list)) and not (src and src[0] in ("range", "zip", "enumerate")):
            return self.fold_concrete(kind, list(src), args[1:], st)
        if kind == "join" and isinstance(src, Ref) and isinstance(st.deref(src), ListV) and st.deref(src).tag == "char" \
                and len(args) > 1 and args[1] == "":
            return Sym("str", st.deref(src).t)          # "".join(list of 1-character strings)
        if not isinstance(src, GenV):
            raise Unsupported(f"{kind} over {src!r}")
        sp = src.src
        if len(sp.sources) == 1 and sp.sources[0][1] == "chunk":
            xs = sp.sources[0][0]
            e = Sym("chunk", fresh("e", T.ChunkS))
            probe = st.clone()
            from .values import NeedSplit
            try:
                conds, val = self.gen_apply(src, e, probe)
            except (NeedSplit, PyRaise):
                conds, val = None, None
            if conds and kind in ("all", "any") and len(args) == 1:
                return self.quantified_fold(kind, src, xs, st)
            if conds is None or conds:
                if kind == "sum" and conds is None:
                    return self.sum_over_range(src, args[1] if len(args) > 1 else 0, st)
                raise Unsupported("filtered fold")
            if kind in ("all", "any") and len(args) == 1 and (isinstance(val, Sym) and val.tag == "bool" or isinstance(val, bool)):
                return self.quantified_fold(kind, src, xs, st)
            et = e.t
            if kind == "sum" and len(args) == 1 and is_int(val):
                vt = z3.simplify(int_term(val))
                if vt.eq(z3.simplify(z3.Length(T.ChunkS.s(et)))):
                    st.fact(Lemmas.list_basic(xs))
                    return mk_int(T.TOTLEN(xs))
                if vt.eq(z3.simplify(T.WCS(T.ChunkS.s(et)))):
                    st.fact(Lemmas.list_basic(xs))
                    return mk_int(T.TOTW(xs))
            if kind == "join" and args[1] == "" and isinstance(val, Sym) and val.tag == "str":
                vt = z3.simplify(val.t)
                if vt.eq(z3.simplify(T.ChunkS.s(et))):
                    st.fact(Lemmas.list_basic(xs))
                    return Sym("str", T.TEXT(xs))
                if vt.eq(z3.simplify(COLORSTR(et))):
                    return Sym("str", STRFOLD(xs))
            if kind == "sum":
                return self.sum_over_range(src, args[1] if len(args) > 1 else 0, st)
            raise Unsupported(f"{kind} of an unrecognised element expression over runs")
        if not sp.sources and kind == "sum" and len(args) == 2:
            return self.sum_over_range(src, args[1], st)
        raise Unsupported(f"{kind} over this iteration space")

    def quantified_fold(self, kind, gv, xs, st):
        """all(elt(x) for x in xs if cond(x)) / any(...) over a symbolic run list: a fresh boolean R with
             all: R  => forall i. cond(xs[i]) => elt(xs[i])        not R => a witness w with cond(xs[w]) and not elt(xs[w])
             any: dually.   (the universally quantified half is an instantiable fact)"""
        n = z3.Length(xs)
        R = fresh(kind, T.B)

        def body(i, s):
            conds, val = self.gen_apply(gv, Sym("chunk", xs[i]), s)
            cs = [z3.BoolVal(c) if isinstance(c, bool) else c for c in conds]
            t = self.truth(val, s)
            t = z3.BoolVal(t) if isinstance(t, bool) else t
            return (z3.And(*cs) if cs else z3.BoolVal(True)), t
        w = fresh("w", T.I)
        cw, tw = body(w, st)
        pos = R if kind == "all" else z3.Not(R)         # the polarity under which the universal half holds

        def inst(i, st=st):
            c, t = body(i, st)
            claim = z3.Implies(c, t) if kind == "all" else z3.Implies(c, z3.Not(t))
            return z3.Implies(z3.And(pos, i >= 0, i < n), claim)
        st.add_inst(inst)
        st.fact(z3.Implies(z3.Not(pos), z3.And(w >= 0, w < n, cw, z3.Not(tw) if kind == "all" else tw)))
        st.add_index(w)
        return Sym("bool", R)

    def fold_concrete(self, kind, items, rest, st):
        if kind == "sum":
            acc = rest[0] if rest else 0
            for x in items:
                acc = self.binop("Add", acc, x, st)
            return acc
        if kind in ("all", "any"):
            want = kind == "any"
            for x in items:
                t = self.truth(x, st)
                if not isinstance(t, bool):
                    t = self.decide(t, st)
                if t == want:
                    return want
            return not want
        if kind == "join":
            sep = rest[0]
            if isinstance(sep, str) and all(isinstance(x, str) for x in items):
                return sep.join(items)
            if sep == b"":
                acc = b""
                for x in items:
                    acc = self.binop("Add", acc, x, st)
                return acc
            if sep == "":
                acc = ""
                for x in items:
                    acc = self.binop("Add", acc, x, st)
                return acc
        raise Unsupported(f"{kind} over a concrete list")

    def sum_over_range(self, gv, start, st):
        """sum((elt for _ in range(n)), start): executed as the loop it abbreviates,
        `acc = start; for _ in range(n): acc = acc + elt`, with the sidecar invariant of the comprehension."""
        o = self.comp_ordinal.get(id(gv.node))
        spec = self.contract.loops.get(("comp", o))
        if spec is None:
            raise Unsupported("sum() of this element expression needs an invariant for the comprehension in the sidecar")
        g = gv.node.generators[0]
        acc_name = "acc__"
        body = ast.Assign(targets=[ast.Name(id=acc_name, ctx=ast.Store())],
                          value=ast.BinOp(left=ast.Name(id=acc_name, ctx=ast.Load()), op=ast.Add(), right=gv.node.elt),
                          lineno=gv.node.lineno, col_offset=0)
        loop = ast.For(target=g.target, iter=g.iter, body=[body], orelse=[], lineno=gv.node.lineno, col_offset=0)
        ast.fix_missing_locations(loop)
        saved_env = st.env
        st.env = dict(gv.env)
        st.env[acc_name] = start
        try:
            extra = self.symbolic_loop(loop, gv.src, st, spec=spec)
            if extra:
                raise Unsupported("abrupt exit inside sum()")
            res = st.env[acc_name]
        finally:
            env_after = st.env
            st.env = saved_env
        return res


COLORSTR = z3.Function("COLORSTR", T.ChunkS, T.SI)      # Chunk.color_str (contract in C01)
STRFOLD = z3.Function("STRFOLD", T.SCh, T.SI)           # concat of color_str over runs
