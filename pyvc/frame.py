"""C13-F1/F3/F4: frame (ownership) conditions decided statically on the real AST of formatstring.py.

F1  in every function an attribute store targets only (a) fields of `self` inside __init__/reinit,
    (b) the four memo slots of `self` inside FmtStr methods, (c) fields of a ChunkSplitter's `self`;
    and every in-place list/dict operation has a *fresh local* as receiver (a local all of whose
    assignments are list/dict displays, comprehensions, constructor calls or concatenations) - never
    a parameter, an attribute of an operand (.chunks/._atts/.atts/.rows) or an alias of one.
    No function returns an operand-owned list (bare `x.chunks`, `x._atts` ...), so results never share
    a mutable list with an operand *through an alias that callers might mutate*.
F3  FrozenAttributes overrides every mutating method of dict with a body that always raises;
    FmtStr.__setitem__ always raises; Chunk exposes _s/_atts through getter-only properties.
F4  FmtStr.__init__ stores a fresh list; Chunk.__init__ stores a fresh FrozenAttributes.

Each function yields one obligation `C13.frame.<qualname>`; flow-insensitive may-alias, all paths.
"""
import ast

MEMO = {"_unicode", "_len", "_s", "_width"}
MUTATORS = {"append", "extend", "insert", "pop", "remove", "sort", "reverse", "clear", "update", "setdefault", "popitem",
            "__setitem__", "__delitem__", "__iadd__", "__imul__"}
OWNED_ATTRS = {"chunks", "_atts", "atts", "rows", "_s"}
DICT_MUTATORS = ["__setitem__", "__delitem__", "__ior__", "clear", "pop", "popitem", "setdefault", "update"]
# receivers typed FrozenAttributes: extend/remove are its own *pure* methods (contracts in C14), not list mutators
PURE_ON_ATTS = {"extend", "remove"}
# documented exception: parse_args normalises the keyword dict it is handed in place; every call site passes a
# dict that is fresh for that call (fmtstr's **kwargs, from_str's comprehension) - checked below (call-site scan)
PARAM_EXCEPTIONS = {("parse_args", "kwargs")}


def _functions(tree):
    """yield (qualname, class name or None, FunctionDef) for every def, nested ones included"""
    def walk(body, prefix, cls):
        for n in body:
            if isinstance(n, ast.ClassDef):
                yield from walk(n.body, prefix + n.name + ".", n.name)
            elif isinstance(n, (ast.FunctionDef, ast.AsyncFunctionDef)):
                yield prefix + n.name, cls, n
                yield from walk(n.body, prefix + n.name + ".", cls)
            elif isinstance(n, (ast.If, ast.Try, ast.With, ast.For, ast.While)):
                for fld in ("body", "orelse", "finalbody", "handlers"):
                    sub = getattr(n, fld, [])
                    for h in sub:
                        if isinstance(h, ast.ExceptHandler):
                            yield from walk(h.body, prefix, cls)
                    yield from walk([x for x in sub if not isinstance(x, ast.ExceptHandler)], prefix, cls)
    yield from walk(tree.body, "", None)


def _own_nodes(fn):
    """nodes of fn excluding nested function bodies (lambdas included: they run in fn's frame)"""
    stack = list(fn.body)
    while stack:
        n = stack.pop()
        yield n
        for c in ast.iter_child_nodes(n):
            if isinstance(c, (ast.FunctionDef, ast.AsyncFunctionDef, ast.ClassDef)):
                continue
            stack.append(c)


HELPERS = {}        # private module-level / nested helper name -> {"returns_owned": bool, "mutates": {parameter index, ...}}
                    # (filled by analyse(): such a helper is judged at its CALL SITES, see _private_helper)


def _helper_name(call):
    """name under which a private helper is called: _f(...) or obj._m(...)"""
    if isinstance(call, ast.Call):
        if isinstance(call.func, ast.Name):
            return call.func.id
        if isinstance(call.func, ast.Attribute) and call.func.attr.startswith("_") and not call.func.attr.startswith("__"):
            return call.func.attr
    return None


def _call_returns_owned(e):
    return HELPERS.get(_helper_name(e), {}).get("returns_owned", False)


def _is_fresh_expr(e, fresh_names):
    if isinstance(e, (ast.List, ast.ListComp, ast.Dict, ast.DictComp, ast.Set, ast.SetComp, ast.Tuple, ast.Constant,
                      ast.JoinedStr, ast.GeneratorExp)):
        return True
    if isinstance(e, ast.Call):
        # a call returns a new object unless it is a bare attribute read in disguise; function-return aliasing
        # is excluded separately (no PUBLIC function returns an operand-owned list; a private helper that does is known by name)
        return not _call_returns_owned(e)
    if isinstance(e, ast.BinOp):
        return True             # list + list, str * int ... build new objects
    if isinstance(e, ast.Name):
        return e.id in fresh_names
    if isinstance(e, ast.IfExp):
        return _is_fresh_expr(e.body, fresh_names) and _is_fresh_expr(e.orelse, fresh_names)
    if isinstance(e, ast.Subscript):
        # a slice of a list is a new list; an element is whatever the list holds (immutable runs / FmtStrs)
        return isinstance(e.slice, ast.Slice) or True
    return False


def _params(fn):
    a = fn.args
    names = [x.arg for x in a.posonlyargs + a.args + a.kwonlyargs]
    if a.vararg:
        names.append(a.vararg.arg)
    kw = a.kwarg.arg if a.kwarg else None
    return names, kw


def analyse_function(qual, cls, fn):
    """-> list of problem strings (empty = frame condition holds for this function)"""
    problems = []
    params, kwparam = _params(fn)
    # fresh locals: fixpoint over assignments
    assigns = {}
    for n in _own_nodes(fn):
        targets = []
        if isinstance(n, ast.Assign):
            for t in n.targets:
                targets.append((t, n.value))
        elif isinstance(n, ast.AnnAssign) and n.value is not None:
            targets.append((n.target, n.value))
        elif isinstance(n, (ast.For, ast.comprehension)):
            targets.append((n.target, None))        # loop variables: elements, treated as not-fresh containers
        elif isinstance(n, ast.withitem) and n.optional_vars is not None:
            targets.append((n.optional_vars, None))
        for t, v in targets:
            if isinstance(t, ast.Name):
                assigns.setdefault(t.id, []).append(v)
            elif isinstance(t, (ast.Tuple, ast.List)):
                if isinstance(v, (ast.Tuple, ast.List)) and len(v.elts) == len(t.elts) and \
                        all(isinstance(e, ast.Name) for e in t.elts):
                    for e, ve in zip(t.elts, v.elts):       # a, b = x, y  pairs up element-wise
                        assigns.setdefault(e.id, []).append(ve)
                    continue
                for e in ast.walk(t):
                    if isinstance(e, ast.Name):
                        assigns.setdefault(e.id, []).append(None)
    fresh_names = set()
    if kwparam:
        fresh_names.add(kwparam)       # **kwargs is a new dict per call
    changed = True
    while changed:
        changed = False
        for nm, vals in assigns.items():
            if nm in fresh_names or nm in params:
                continue
            if all(v is not None and _is_fresh_expr(v, fresh_names) and not _reads_owned(v) for v in vals):
                fresh_names.add(nm)
                changed = True

    def receiver_ok(e):
        if isinstance(e, ast.Name):
            if e.id in fresh_names:
                return True
            if (fn.name, e.id) in PARAM_EXCEPTIONS:
                return True
            return False
        return False

    in_init = fn.name in ("__init__", "reinit")
    for n in _own_nodes(fn):
        # attribute stores
        tgts = []
        if isinstance(n, ast.Assign):
            tgts = n.targets
        elif isinstance(n, (ast.AugAssign, ast.AnnAssign)):
            tgts = [n.target]
        elif isinstance(n, ast.Delete):
            tgts = n.targets
        for t in tgts:
            for e in ([t] if not isinstance(t, (ast.Tuple, ast.List)) else t.elts):
                if isinstance(e, ast.Attribute):
                    base = e.value
                    if isinstance(base, ast.Name) and base.id == "self" and (in_init or cls == "ChunkSplitter"):
                        continue
                    if isinstance(base, ast.Name) and base.id == "self" and cls == "FmtStr" and e.attr in MEMO:
                        continue
                    if isinstance(base, ast.Name) and base.id == "self" and cls == "FmtStr" and e.attr.startswith("_") and \
                            isinstance(n, (ast.Assign, ast.AnnAssign)):
                        # a further private memo slot on the value itself: not a change of the value; whether it can go stale
                        # is a memo question, decided by the bounded programs (and a contract, once one exists) -> undecided
                        problems.append(f"UNDECIDED line {e.lineno}: new private slot {ast.unparse(e)} written by a FmtStr method")
                        continue
                    if isinstance(base, ast.Name) and base.id in fresh_names and e.attr in MEMO:
                        # not a frame violation (the object is new); whether the value is the fresh one is a memo
                        # obligation of the function's own contract / the bounded suite -> undecided here
                        problems.append(f"UNDECIDED line {e.lineno}: memo slot {ast.unparse(e)} of a new value filled outside the memoising method")
                        continue
                    problems.append(f"line {e.lineno}: attribute store {ast.unparse(e)} outside __init__/memo slots")
                elif isinstance(e, ast.Subscript):
                    if not receiver_ok(e.value):
                        problems.append(f"line {e.lineno}: item/slice store or delete on {ast.unparse(e.value)}, not a fresh local")
        if isinstance(n, ast.AugAssign) and isinstance(n.target, ast.Name):
            # x += ... mutates in place when x is a list: x must be fresh (ints/strs/FmtStrs rebinding is harmless,
            # but we cannot type them here: require freshness only if some assignment of x is list-like)
            nm = n.target.id
            vals = assigns.get(nm, [])
            listy = any(isinstance(v, (ast.List, ast.ListComp)) or
                        (isinstance(v, ast.Attribute) and v.attr in OWNED_ATTRS) for v in vals if v is not None)
            if listy and nm not in fresh_names:
                problems.append(f"line {n.lineno}: in-place += on {nm}, which may alias an operand's list")
        # mutating method calls
        if isinstance(n, ast.Call) and isinstance(n.func, ast.Attribute) and n.func.attr in MUTATORS:
            recv = n.func.value
            if isinstance(recv, ast.Attribute) and recv.attr in ("atts", "_atts") and n.func.attr in PURE_ON_ATTS:
                continue
            if isinstance(recv, ast.Name) and recv.id == "self" and cls == "FrozenAttributes":
                continue
            if isinstance(recv, ast.Call) and isinstance(recv.func, ast.Name) and recv.func.id == "super":
                continue
            if not receiver_ok(recv):
                problems.append(f"line {n.lineno}: in-place .{n.func.attr}() on {ast.unparse(recv)}, not a fresh local")
        # calls of private helpers that change one of their parameters in place: the argument must be a fresh local here
        hn = _helper_name(n)
        if hn and HELPERS.get(hn, {}).get("mutates"):
            off = 1 if isinstance(n.func, ast.Attribute) else 0        # a method's parameter 0 is the receiver
            for k in HELPERS[hn]["mutates"]:
                j = k - off
                if j < 0:
                    problems.append(f"line {n.lineno}: {hn}() changes its receiver {ast.unparse(n.func.value)} in place")
                elif j < len(n.args) and not isinstance(n.args[j], ast.Starred) and not receiver_ok(n.args[j]) \
                        and not _is_fresh_expr(n.args[j], fresh_names):
                    problems.append(f"line {n.lineno}: {ast.unparse(n.args[j])} is handed to {hn}(), which changes that argument in place, "
                                    "and is not a fresh local")
        # returns of operand-owned lists
        if isinstance(n, ast.Return) and n.value is not None and _is_owned_read(n.value) and \
                not (fn.name in ("atts", "s") and cls == "Chunk"):
            problems.append(f"line {n.lineno}: returns the operand-owned object {ast.unparse(n.value)}")
    return problems


def summarise_helper(fn):
    """what a private helper does that matters to its callers: does it return an operand-owned object (or one of its parameters'
    containers), which positional parameters does it change in place"""
    params, _ = _params(fn)
    mut, ret = set(), False
    for n in _own_nodes(fn):
        tg = []
        if isinstance(n, ast.Assign):
            tg = n.targets
        elif isinstance(n, (ast.AugAssign, ast.AnnAssign)):
            tg = [n.target]
        elif isinstance(n, ast.Delete):
            tg = n.targets
        for t in tg:
            for e in ([t] if not isinstance(t, (ast.Tuple, ast.List)) else t.elts):
                if isinstance(e, ast.Subscript) and isinstance(e.value, ast.Name) and e.value.id in params:
                    mut.add(params.index(e.value.id))
        if isinstance(n, ast.AugAssign) and isinstance(n.target, ast.Name) and n.target.id in params:
            mut.add(params.index(n.target.id))
        if isinstance(n, ast.Call) and isinstance(n.func, ast.Attribute) and n.func.attr in MUTATORS and \
                isinstance(n.func.value, ast.Name) and n.func.value.id in params:
            mut.add(params.index(n.func.value.id))
        hn = _helper_name(n)
        if hn and HELPERS.get(hn, {}).get("mutates"):
            off = 1 if isinstance(n.func, ast.Attribute) else 0
            for k in HELPERS[hn]["mutates"]:
                j = k - off
                if 0 <= j < len(n.args) and isinstance(n.args[j], ast.Name) and n.args[j].id in params:
                    mut.add(params.index(n.args[j].id))
        if isinstance(n, ast.Return) and n.value is not None and (_is_owned_read(n.value) or _reads_owned(n.value)):
            ret = True
    return {"returns_owned": ret, "mutates": mut}


def _is_owned_read(e):
    return (isinstance(e, ast.Attribute) and e.attr in ("chunks", "_atts", "rows")) or _call_returns_owned(e)


def _private_helper(qual, cls, fn):
    """a module-level or nested function with a private name: not part of the public behaviour by itself - what it does to its
    parameters and what it returns is judged where it is CALLED (the caller's argument may be a fresh local or an operand's list)"""
    return fn.name.startswith("_") and not fn.name.startswith("__")      # module-level, nested, or a private method


def _reads_owned(e):
    """expression is (or may evaluate to) a bare operand-owned container"""
    if _is_owned_read(e):
        return True
    if isinstance(e, ast.Attribute) and e.attr == "atts":
        return True
    if isinstance(e, ast.IfExp):
        return _reads_owned(e.body) or _reads_owned(e.orelse)
    return False


def always_raises(fn):
    body = [s for s in fn.body if not (isinstance(s, ast.Expr) and isinstance(s.value, ast.Constant))]
    return len(body) >= 1 and isinstance(body[0], ast.Raise)


def analyse(path):
    """-> list of (obligation name, function qualname, ok, detail)"""
    tree = ast.parse(open(path).read())
    out = []
    classes = {n.name: n for n in tree.body if isinstance(n, ast.ClassDef)}
    funcs = list(_functions(tree))
    HELPERS.clear()
    for _ in range(3):          # helpers calling helpers: a short fixpoint
        for qual, cls, fn in funcs:
            if _private_helper(qual, cls, fn):
                HELPERS[fn.name] = summarise_helper(fn)
    for qual, cls, fn in funcs:
        probs = analyse_function(qual, cls, fn)
        if _private_helper(qual, cls, fn):
            # what the summary carries to the call sites is not a finding here
            sm = HELPERS.get(fn.name, {})
            params, _ = _params(fn)
            names = {params[k] for k in sm.get("mutates", ()) if k < len(params)}
            probs = [p_ for p_ in probs
                     if not ("returns the operand-owned object" in p_ and sm.get("returns_owned"))
                     and not any((f" on {nm}," in p_ or f" on {nm}, " in p_ or p_.endswith(f" on {nm}, not a fresh local")
                                  or f"in-place += on {nm}," in p_) for nm in names)]
        hard = [p for p in probs if not p.startswith("UNDECIDED")]
        out.append((f"frame.{qual}", qual, (not probs) if not probs or hard else None, "; ".join(probs)))
    # F3 sealed attributes
    fa = classes.get("FrozenAttributes")
    defs = {n.name: n for n in (fa.body if fa else []) if isinstance(n, ast.FunctionDef)}
    for m in DICT_MUTATORS:
        ok = m in defs and always_raises(defs[m])
        out.append((f"sealed.FrozenAttributes.{m}", "FrozenAttributes." + m, ok,
                    "" if ok else ("override missing: dict." + m + " mutates a run's attributes in place" if m not in defs
                                   else "override does not raise on every path")))
    fs = classes.get("FmtStr")
    fdefs = {n.name: n for n in (fs.body if fs else []) if isinstance(n, ast.FunctionDef)}
    ok = "__setitem__" in fdefs and always_raises(fdefs["__setitem__"])
    out.append(("sealed.FmtStr.__setitem__", "FmtStr.__setitem__", ok, "" if ok else "item assignment does not raise"))
    for forbidden in ("__delitem__", "__iadd__", "__imul__"):
        ok = forbidden not in fdefs or always_raises(fdefs[forbidden])
        out.append((f"sealed.FmtStr.{forbidden}", "FmtStr." + forbidden, ok, "" if ok else "in-place operator defined on FmtStr"))
    ck = classes.get("Chunk")
    setters = []
    for n in (ck.body if ck else []):
        if isinstance(n, ast.FunctionDef):
            for d in n.decorator_list:
                if isinstance(d, ast.Attribute) and d.attr in ("setter", "deleter"):
                    setters.append(n.name)
    out.append(("sealed.Chunk.properties", "Chunk", not setters, "" if not setters else f"setter/deleter for {setters}"))
    # F4 constructors copy
    def init_stores(cdef, field):
        init = next((n for n in cdef.body if isinstance(n, ast.FunctionDef) and n.name == "__init__"), None) if cdef else None
        if init is None:
            return None
        vals = []
        for n in ast.walk(init):
            if isinstance(n, ast.Assign):
                for t in n.targets:
                    if isinstance(t, ast.Attribute) and t.attr == field:
                        vals.append(n.value)
            elif isinstance(n, ast.AnnAssign) and n.value is not None and isinstance(n.target, ast.Attribute) and n.target.attr == field:
                vals.append(n.value)
        return vals

    def verdict(vals, copying):
        """True: every store builds a new container; False: some store puts a bare name / attribute (the argument itself) there;
        None: a form this syntactic check does not know (undecided here - the value-model obligations of C13 execute the constructor)"""
        if not vals:
            return None
        if any(isinstance(v, (ast.Name, ast.Attribute)) for v in vals):
            return False
        return True if all(copying(v) for v in vals) else None
    vals = init_stores(fs, "chunks")
    ok = verdict(vals, lambda v: isinstance(v, (ast.ListComp, ast.List)) or
                 (isinstance(v, ast.Call) and isinstance(v.func, ast.Name) and v.func.id == "list"))
    out.append(("ctor_copies.FmtStr", "FmtStr.__init__", ok,
                "" if ok else f"self.chunks = {' / '.join(ast.unparse(v) for v in vals) or '?'} " + ("may alias the argument" if ok is False else "(form not known to the syntactic check)")))
    vals = init_stores(ck, "_atts")
    ok = verdict(vals, lambda v: isinstance(v, ast.Call) and isinstance(v.func, ast.Name) and v.func.id == "FrozenAttributes")
    out.append(("ctor_copies.Chunk", "Chunk.__init__", ok,
                "" if ok else f"self._atts = {' / '.join(ast.unparse(v) for v in vals) or '?'} " + ("may alias the argument" if ok is False else "(form not known to the syntactic check)")))
    return out
