"""Sidecar contracts (DESIGN 2.4): parameter shapes, requires/ensures/raises, loop invariants.

A contract never contains a copy of the code: the body that is verified is the AST read from
/repo on every run.  The same `ensures` text is used (a) as proof obligation over SMT terms,
(b) as run-time oracle over real objects in the replay harness and the bounded stand-in.
"""
import z3
from . import terms as T
from .values import Sym, Ref, ListV, SliceV, OpaqueV, fresh, mk_int, Unsupported, SEQ_OF_TAG

REGISTRY = {}


class TypeSpec:
    tag = None

    def fresh(self, name, st):
        raise NotImplementedError

    def concretize(self, value, model, cx):
        raise NotImplementedError


class IntT(TypeSpec):
    tag = "int"

    def __init__(self, lo=None, hi=None):
        self.lo, self.hi = lo, hi

    def fresh(self, name, st):
        t = fresh(name, T.I)
        if self.lo is not None:
            st.assume(t >= self.lo)
        if self.hi is not None:
            st.assume(t <= self.hi)
        return Sym("int", t)

    def concretize(self, value, model, cx):
        return cx.int(value.t, model)


class OptIntT(TypeSpec):
    """Optional[int] as a symbolic value (None or an integer)"""
    tag = "optint"

    def fresh(self, name, st):
        return Sym("optint", fresh(name, T.OptInt))


class BoolT(TypeSpec):
    tag = "bool"

    def fresh(self, name, st):
        return Sym("bool", fresh(name, T.B))

    def concretize(self, value, model, cx):
        return z3.is_true(model.eval(value.t, model_completion=True))


class ConstT(TypeSpec):
    def __init__(self, value):
        self.value = value

    def fresh(self, name, st):
        return self.value

    def concretize(self, value, model, cx):
        return self.value


NoneT = ConstT(None)


class StrT(TypeSpec):
    """str as Seq Int. `plain`: assumed free of ESC[ (so that fmtstr() does not parse it)."""
    tag = "str"

    def __init__(self, plain=True):
        self.plain = plain

    def fresh(self, name, st):
        t = fresh(name, T.SI)
        if self.plain:
            st.assume(PLAIN(t))
        st.fact(z3.Length(T.CELLS(t, T.NOATTS)) == z3.Length(t))
        return Sym("str", t)

    def concretize(self, value, model, cx):
        return cx.text(value.t, model)


PLAIN = z3.Function("PLAIN", T.SI, T.B)     # "contains no ESC[": fmtstr(s) is one unformatted run


class ChunkListT(TypeSpec):
    def fresh(self, name, st):
        from .terms import Lemmas
        t = fresh(name, T.SCh)
        st.fact(Lemmas.list_basic(t))
        return st.alloc(ListV(tag="chunk", t=t))


class FmtT(TypeSpec):
    tag = "fmtstr"

    def fresh(self, name, st):
        from .terms import Lemmas
        t = fresh(name, T.FmtS)
        st.fact(Lemmas.list_basic(T.FmtS.chunks(t)))
        return Sym("fmtstr", t)

    def concretize(self, value, model, cx):
        return cx.fmtstr(value.t, model)


class ChunkT(TypeSpec):
    tag = "chunk"

    def fresh(self, name, st):
        from .terms import Lemmas
        t = fresh(name, T.ChunkS)
        st.fact(Lemmas.chunk(t))
        return Sym("chunk", t)

    def concretize(self, value, model, cx):
        return cx.chunk(value.t, model)


class SliceT(TypeSpec):
    def __init__(self, start=None, stop=None, step=None):
        self.parts = (start, stop, step)

    def fresh(self, name, st):
        vals = []
        for p, nm in zip(self.parts, ("start", "stop", "step")):
            vals.append(None if p is None else p.fresh(f"{name}_{nm}", st))
        return SliceV(*vals)

    def concretize(self, value, model, cx):
        return slice(*[None if p is None else p.concretize(v, model, cx) for p, v in
                       zip(self.parts, (value.start, value.stop, value.step))])


class OtherT(TypeSpec):
    """an object of a type unknown to the function (isinstance(...) is False for every class it tests)"""

    def fresh(self, name, st):
        return OpaqueV("other")

    def concretize(self, value, model, cx):
        return object()


class ItemListT(TypeSpec):
    """list whose elements are FmtStr | str | something else (iterable given to join)"""

    def fresh(self, name, st):
        t = fresh(name, T.SItem)
        return st.alloc(ListV(tag="item", t=t))

    def concretize(self, value_ref, model, cx):
        return cx.itemlist(value_ref, model)


class ObjT(TypeSpec):
    """heap object of class `cls` with the given field types (a field type may be a TypeSpec or a constant)"""

    def __init__(self, cls, fields):
        self.cls, self.fields = cls, fields

    def fresh(self, name, st):
        from .values import ObjV
        f = {}
        for k, t in self.fields.items():
            f[k] = t.fresh(f"{name}_{k}", st) if isinstance(t, TypeSpec) else t
        return st.alloc(ObjV(self.cls, f))

    def concretize(self, value, model, cx):
        raise NotImplementedError("objects are replayed by the property's own harness")


class AttsDictT(TypeSpec):
    """a FrozenAttributes / kwargs dict with a concrete key set and symbolic (non-zero) values: one case of the
    complete finite split over which keys are present"""

    def __init__(self, present):
        self.present = tuple(present)

    def fresh(self, name, st):
        from .values import DictV
        d = {}
        for k in self.present:
            t = fresh(f"{name}_{k}", T.I)
            st.assume(t != 0)
            d[k] = Sym("int", t)
        return st.alloc(DictV(d))

    def concretize(self, value, model, cx):
        raise NotImplementedError


class AttsT(TypeSpec):
    """attribute dict as a value of the Atts datatype (0 = key absent)"""
    tag = "atts"

    def fresh(self, name, st):
        return Sym("atts", fresh(name, T.Atts))

    def concretize(self, value, model, cx):
        return cx.atts_of(cx.lookup(value.t))


class Shape:
    def __init__(self, name, types, requires=None):
        self.name, self.types, self.requires = name, types, requires


class Loop:
    """Invariant of the n-th loop of a function.  `inv(L)` gets a namespace with the current
    values of the locals (as SMT terms), the arguments at entry (L.old.<param>), the iteration
    index L.k and the ghost folds (L.V: cells of the runs consumed so far, ...)."""

    def __init__(self, inv, ghosts=(), decreases=None, label=""):
        self.inv, self.ghosts, self.decreases, self.label = inv, tuple(ghosts), decreases, label


class Contract:
    def __init__(self, key, prop, params, shapes=(), requires=None, ensures=None, raises=None, loops=None,
                 result=None, callees=None, defaults=None, kind="function", cls=None, doc=""):
        self.key, self.prop, self.params = key, prop, list(params)
        self.shapes = list(shapes)
        self.requires, self.ensures = requires, ensures
        self.raises = dict(raises or {})
        self.loops = dict(loops or {})
        self.result = result
        self.callees = dict(callees or {})
        self.defaults = dict(defaults or {})
        self.kind, self.cls, self.doc = kind, cls, doc
        self.effect = None          # callee side effects on heap objects: effect(a, st, result)
        self.assumed = False
        REGISTRY[key] = self

    def callee_key(self, local_name):
        return self.callees.get(local_name)

    @property
    def qualname(self):
        return self.key.split(":", 1)[1].split("#")[0]      # "#variant" distinguishes several contracts on one function

    @property
    def module_name(self):
        return self.key.split(":", 1)[0]


class NS:
    """argument namespace handed to requires/ensures/raises lambdas"""

    def __init__(self, d):
        self.__dict__.update(d)

    def __getitem__(self, k):
        return self.__dict__[k]


def specval(v, st=None, ex=None):
    """executor value -> value of the spec language (SMT term, SliceV, or python constant)"""
    if isinstance(v, Sym):
        return v.t
    if isinstance(v, Ref) and st is not None:
        o = st.deref(v)
        from .values import ObjV
        if isinstance(o, ObjV):
            return NS({f: specval(x, st, ex) for f, x in o.fields.items()})
        from .values import DictV, SymDict, SymAtts
        if isinstance(o, SymAtts):
            return o.t
        if isinstance(o, SymDict):
            return NS(dict(present=o.present, val=o.val, nonempty=o.nonempty, shift=o.shift))
        if isinstance(o, DictV):
            return {k: specval(x, st, ex) for k, x in o.items.items()}
        if isinstance(o, ListV):
            if o.items is None:
                return o.t
            homogeneous = all(isinstance(x, Sym) and x.tag in SEQ_OF_TAG for x in o.items)
            if ex is not None and homogeneous:
                t, _ = ex.list_term(o, st)      # (an empty display becomes the empty run list)
                return t
            return [specval(x, st, ex) for x in o.items]
        return v
    if isinstance(v, SliceV):
        return SliceV(specval(v.start, st, ex), specval(v.stop, st, ex), specval(v.step, st, ex))
    if isinstance(v, tuple):
        return tuple(specval(x, st, ex) for x in v)
    return v
