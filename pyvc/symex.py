"""Forward symbolic executor over the real AST of a function (DESIGN 2.5).

exec_block(stmts, state) -> [(state, outcome)], outcome in
  ('normal',) ('return', value) ('raise', ClassName) ('break',) ('continue',)
Loops over symbolic iterables are cut at sidecar invariants (loops.py); calls go through callee
contracts (calls.py).  Anything outside the subset raises Unsupported.
"""
import ast
import z3
from . import terms as T
from .values import (Sym, Ref, ListV, DictV, ObjV, SliceV, FuncV, Builtin, ClassV, ContractFn, BoundMethod, OpaqueV,
                     POISON, Poison, Unsupported, PyRaise, NeedSplit, fresh, mk_int, mk_bool, int_term, bool_term,
                     str_term, is_int, SORT_OF_TAG, SEQ_OF_TAG)
from .state import State
from .exprs import ExprMixin
from .calls import CallMixin
from .loops import LoopMixin

NORMAL = ("normal",)


class Obl:
    __slots__ = ("name", "kind", "hyps", "goal", "trace", "meta")

    def __init__(self, name, kind, hyps, goal, trace, meta=None):
        self.name, self.kind, self.hyps, self.goal, self.trace, self.meta = name, kind, hyps, goal, trace, meta or {}


class Executor(ExprMixin, CallMixin, LoopMixin):
    def __init__(self, fn_node, module, contract, registry, feas_timeout_ms=400):
        self.fn = fn_node
        self.module = module                # the real imported module (constants by value)
        self.contract = contract
        self.registry = registry            # name -> Contract
        self.obligations = []
        self.counters = {}
        self.paths = 0
        self.feas_timeout = feas_timeout_ms
        self.loop_ordinal = {}
        n = 0
        for node in ast.walk(fn_node):
            if isinstance(node, (ast.For, ast.While)):
                self.loop_ordinal[id(node)] = None
        # ordinals in source order
        for node in sorted((x for x in ast.walk(fn_node) if isinstance(x, (ast.For, ast.While))),
                           key=lambda x: (x.lineno, x.col_offset)):
            self.loop_ordinal[id(node)] = n
            n += 1
        self.comp_ordinal = {}
        for i, node in enumerate(sorted((x for x in ast.walk(fn_node)
                                         if isinstance(x, (ast.ListComp, ast.GeneratorExp, ast.DictComp))),
                                        key=lambda x: (x.lineno, x.col_offset))):
            self.comp_ordinal[id(node)] = i

    # ------------------------------------------------------------------ obligations
    def oblige(self, st, kind, goal, label="", meta=None):
        if getattr(self, "_suppress_oblige", False):
            return          # re-evaluation of a comprehension element for another index: obligations were emitted for the generic one
        if goal is True:
            goal = z3.BoolVal(True)      # trivially true after partial evaluation: still counted, discharged by the solver
        if goal is False:
            goal = z3.BoolVal(False)
        n = self.counters.get(kind, 0)
        self.counters[kind] = n + 1
        name = f"{kind}.{n}" + (f"[{label}]" if label else "")
        self.obligations.append(Obl(name, kind, st.hyps(), goal, list(st.trace), meta))

    # ------------------------------------------------------------------ feasibility / deciding
    def feasible(self, st, cond):
        s = z3.Solver()
        s.set("timeout", self.feas_timeout)
        s.add(*st.pc)
        s.add(*st.facts)
        s.add(cond)
        return s.check() != z3.unsat

    def decide(self, cond, st):
        """python bool for a condition; forks the enclosing statement when undetermined."""
        if isinstance(cond, bool):
            return cond
        if isinstance(cond, Sym):
            cond = cond.t
        c = z3.simplify(cond)
        if z3.is_true(c):
            return True
        if z3.is_false(c):
            return False
        for t, v in st.decided:
            if t.eq(cond) or t.eq(c):
                return v
        raise NeedSplit(cond)

    # ------------------------------------------------------------------ blocks and statements
    def exec_block(self, stmts, st):
        outs = []
        work = [(st, 0)]
        while work:
            s, i = work.pop()
            if i >= len(stmts):
                outs.append((s, NORMAL))
                continue
            for s2, oc in self.exec_stmt(stmts[i], s):
                if oc is NORMAL or oc == NORMAL:
                    work.append((s2, i + 1))
                else:
                    outs.append((s2, oc))
        return outs

    def exec_stmt(self, node, st):
        pre = st.clone()
        try:
            return self._exec(node, st)
        except NeedSplit as ns:
            if getattr(self, "_inline_depth", 0) > 0:
                raise           # inside an inlined helper: the ENCLOSING statement of the verified function is the one that forks
            outs = []
            for val in (True, False):
                c = ns.cond if val else z3.Not(ns.cond)
                if self.feasible(pre, c):
                    st2 = pre.clone()
                    st2.pc.append(c)
                    st2.decided.append((ns.cond, val))
                    outs += self.exec_stmt(node, st2)
            return outs
        except PyRaise as r:
            st.trace.append(f"raise {r.cls}@{getattr(node, 'lineno', '?')}")
            return [(st, ("raise", r.cls))]

    def _exec(self, node, st):
        m = getattr(self, "s_" + type(node).__name__, None)
        if m is None:
            raise Unsupported(f"statement {type(node).__name__} at line {node.lineno}")
        return m(node, st)

    def s_Expr(self, node, st):
        if isinstance(node.value, ast.Constant):
            return [(st, NORMAL)]           # docstring
        if isinstance(node.value, ast.Yield):
            # generator function: the values yielded so far are the ghost sequence gen.out (the consumer is not modelled: a
            # generator body runs to completion between observations, values are immutable FmtStr)
            v = self.ev(node.value.value, st) if node.value.value is not None else None
            if not (isinstance(v, Sym) and v.tag == "fmtstr"):
                raise Unsupported("yield of a value other than a FmtStr")
            out = st.ghost.get("gen.out", z3.Empty(T.SF))
            new = z3.Concat(out, z3.Unit(v.t))
            st.fact(T.Lemmas.flat_append(new, out, v.t))
            st.ghost["gen.out"] = new
            hook = getattr(self.contract, "on_yield", None)
            if hook is not None:
                hook(st, v, self)
            return [(st, NORMAL)]
        if self._is_logger_call(node.value):
            return [(st, NORMAL)]           # dropped: logger.* assumed effect-free (DESIGN 2.1)
        self.ev(node.value, st)
        return [(st, NORMAL)]

    @staticmethod
    def _is_logger_call(e):
        return (isinstance(e, ast.Call) and isinstance(e.func, ast.Attribute) and isinstance(e.func.value, ast.Name)
                and e.func.value.id in ("logger", "logging"))

    def s_Pass(self, node, st):
        return [(st, NORMAL)]

    def s_Assign(self, node, st):
        v = self.ev(node.value, st)
        for tgt in node.targets:
            self.assign(tgt, v, st)
        return [(st, NORMAL)]

    def s_AnnAssign(self, node, st):
        if node.value is not None:
            self.assign(node.target, self.ev(node.value, st), st)
        return [(st, NORMAL)]

    def s_AugAssign(self, node, st):
        cur = self.ev(self._as_load(node.target), st)
        rhs = self.ev(node.value, st)
        if isinstance(cur, Ref) and isinstance(st.deref(cur), ListV) and isinstance(node.op, ast.Add):
            self.list_extend(cur, rhs, st)          # in-place +=
            return [(st, NORMAL)]
        v = self.binop(type(node.op).__name__, cur, rhs, st)
        self.assign(node.target, v, st)
        return [(st, NORMAL)]

    @staticmethod
    def _as_load(t):
        import copy
        t2 = copy.copy(t)
        t2.ctx = ast.Load()
        return t2

    def assign(self, tgt, v, st):
        if isinstance(tgt, ast.Name):
            st.env[tgt.id] = v
        elif isinstance(tgt, (ast.Tuple, ast.List)):
            vals = self.unpack(v, len(tgt.elts), st)
            for t, x in zip(tgt.elts, vals):
                self.assign(t, x, st)
        elif isinstance(tgt, ast.Attribute):
            obj = self.ev(tgt.value, st)
            self.set_attr(obj, tgt.attr, v, st)
        elif isinstance(tgt, ast.Subscript):
            obj = self.ev(tgt.value, st)
            self.set_item(obj, tgt.slice, v, st)
        else:
            raise Unsupported(f"assignment target {type(tgt).__name__}")

    def unpack(self, v, n, st):
        if isinstance(v, tuple):
            if len(v) != n:
                raise PyRaise("ValueError")
            return list(v)
        if isinstance(v, Ref) and isinstance(st.deref(v), ListV) and st.deref(v).items is not None:
            items = st.deref(v).items
            if len(items) != n:
                raise PyRaise("ValueError")
            return list(items)
        raise Unsupported(f"unpack of {v!r}")

    def s_Return(self, node, st):
        v = None if node.value is None else self.ev(node.value, st)
        return [(st, ("return", v))]

    def s_Raise(self, node, st):
        if node.exc is None:
            raise Unsupported("bare raise")
        exc = node.exc
        if isinstance(exc, ast.Call):
            name = self._exc_name(exc.func)
        else:
            name = self._exc_name(exc)
        st.trace.append(f"raise {name}@{node.lineno}")
        return [(st, ("raise", name))]

    @staticmethod
    def _exc_name(e):
        if isinstance(e, ast.Name):
            return e.id
        if isinstance(e, ast.Attribute):
            return e.attr
        raise Unsupported("raise of a computed exception")

    def s_Break(self, node, st):
        return [(st, ("break",))]

    def s_Continue(self, node, st):
        return [(st, ("continue",))]

    def s_Assert(self, node, st):
        c = self.truth(self.ev(node.test, st), st)
        if c is True:
            return [(st, NORMAL)]
        # the assertion is a safety obligation unless the contract lists AssertionError in `raises`
        if "AssertionError" in self.contract.raises:
            if self.decide(c, st):
                return [(st, NORMAL)]
            raise PyRaise("AssertionError")
        self.oblige(st, "safe.assert", c if c is not False else z3.BoolVal(False), label=f"line{node.lineno}")
        if c is False:
            return []           # the path ends here; the obligation above reports it
        st.assume(c)
        return [(st, NORMAL)]

    MUTATORS = ("append", "extend", "insert", "pop", "remove", "clear", "sort", "reverse", "update", "setdefault", "popitem", "add", "discard")

    def error_branch(self, body):
        """(contract.abstract_error_branches) a block that only computes an error message and raises: its last statement is a
        `raise`, it contains no return / break / continue / yield, stores only to plain local names and calls no in-place mutator
        on anything but such locals.  It is then abstracted to "raises some Exception, the heap unchanged" (what it calls are
        functions of formatstring.py on values, whose frame condition is C13) instead of being executed."""
        if not getattr(self.contract, "abstract_error_branches", False) or not body or not isinstance(body[-1], ast.Raise):
            return False
        local = set()
        for stmt in body:
            for n in ast.walk(stmt):
                if isinstance(n, ast.Name) and isinstance(n.ctx, ast.Store):
                    local.add(n.id)
        for stmt in body:
            for n in ast.walk(stmt):
                if isinstance(n, (ast.Return, ast.Break, ast.Continue, ast.Yield, ast.YieldFrom, ast.Global, ast.Nonlocal, ast.Delete)):
                    return False
                if isinstance(n, (ast.Attribute, ast.Subscript)) and isinstance(n.ctx, (ast.Store, ast.Del)):
                    return False
                if isinstance(n, ast.Call) and isinstance(n.func, ast.Attribute) and n.func.attr in self.MUTATORS:
                    if not (isinstance(n.func.value, ast.Name) and n.func.value.id in local):
                        return False
        return True

    def s_If(self, node, st):
        c = self.truth(self.ev(node.test, st), st)
        if not isinstance(c, bool) and getattr(self, "_inline_depth", 0) > 0:
            c = self.decide(c, st)      # an inlined helper yields ONE outcome per decision vector (the calling statement is re-executed)
        if isinstance(c, bool):
            if c and self.error_branch(node.body):
                st.trace.append(f"error-branch@{node.lineno}")
                return [(st, ("raise", "Exception"))]
            return self.exec_block(node.body if c else node.orelse, st)
        outs = []
        for val, body in ((True, node.body), (False, node.orelse)):
            cond = c if val else z3.Not(c)
            if self.feasible(st, cond):
                st2 = st.clone()
                st2.pc.append(cond)
                st2.trace.append(f"{'T' if val else 'F'}@{node.lineno}")
                if body and self.error_branch(body):
                    st2.trace.append(f"error-branch@{node.lineno}")
                    outs.append((st2, ("raise", "Exception")))
                    continue
                outs += self.exec_block(body, st2)
        return outs

    def s_Delete(self, node, st):
        for tgt in node.targets:
            if isinstance(tgt, ast.Subscript):
                obj = self.ev(tgt.value, st)
                self.del_item(obj, tgt.slice, st)
            elif isinstance(tgt, ast.Name):
                st.env.pop(tgt.id, None)
            else:
                raise Unsupported("del target")
        return [(st, NORMAL)]

    def s_FunctionDef(self, node, st):
        st.env[node.name] = FuncV(node, st.env, node.name)
        return [(st, NORMAL)]

    def s_Try(self, node, st):
        outs = self._try_core(node, st)
        if not node.finalbody:
            return outs
        # finally: runs on every exit of the try statement; its own abrupt exit replaces the pending one
        res = []
        for s2, oc in outs:
            for s3, oc3 in self.exec_block(node.finalbody, s2):
                res.append((s3, oc if oc3 == NORMAL else oc3))
        return res

    def _try_core(self, node, st):
        outs = []
        for s2, oc in self.exec_block(node.body, st):
            if oc[0] == "raise":
                handled = False
                for h in node.handlers:
                    names = self._handler_names(h)
                    if names is None or self._exc_matches(oc[1], names):
                        if h.name:
                            s2.env[h.name] = OpaqueV("exception")
                        outs += self.exec_block(h.body, s2)
                        handled = True
                        break
                if not handled:
                    outs.append((s2, oc))
            elif oc == NORMAL and node.orelse:
                outs += self.exec_block(node.orelse, s2)
            else:
                outs.append((s2, oc))
        return outs

    @staticmethod
    def _handler_names(h):
        if h.type is None:
            return None
        if isinstance(h.type, ast.Tuple):
            return [Executor._exc_name(e) for e in h.type.elts]
        return [Executor._exc_name(h.type)]

    EXC_PARENTS = {"BlockingIOError": "OSError", "InterruptedError": "OSError", "UnicodeDecodeError": "ValueError",
                   "IndexError": "LookupError", "KeyError": "LookupError", "OSError": "Exception",
                   "ValueError": "Exception", "TypeError": "Exception", "LookupError": "Exception",
                   "AssertionError": "Exception", "NotImplementedError": "RuntimeError", "RuntimeError": "Exception",
                   "StopIteration": "Exception", "AttributeError": "Exception", "Exception": "BaseException",
                   "KeyboardInterrupt": "BaseException", "SystemExit": "BaseException"}

    @classmethod
    def _exc_matches(cls, raised, names):
        cur = raised
        while cur is not None:
            if cur in names:
                return True
            cur = cls.EXC_PARENTS.get(cur)
        return False

    def s_With(self, node, st):
        if len(node.items) != 1:
            raise Unsupported("multi-item with")
        item = node.items[0]
        cm = self.ev(item.context_expr, st)
        outs = []
        for s1, oc1, entered in self.cm_enter(cm, st):
            if oc1 != NORMAL:
                outs.append((s1, oc1))
                continue
            if item.optional_vars is not None:
                self.assign(item.optional_vars, entered, s1)
            for s2, oc in self.exec_block(node.body, s1):
                for s3, oc3 in self.cm_exit(cm, s2, oc):
                    outs.append((s3, oc3))
        return outs

    # context managers are objects with contracts for __enter__/__exit__ (see calls.py)

    # ------------------------------------------------------------------ entry point
    def run(self, st):
        outs = self.exec_block(self.fn.body, st)
        res = []
        for s, oc in outs:
            if oc == NORMAL:
                oc = ("return", None)
            if oc[0] in ("break", "continue"):
                raise Unsupported("break/continue outside loop")
            res.append((s, oc))
        self.paths = len(res)
        return res
