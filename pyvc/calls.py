"""Attribute access, calls (builtins, constructors, callee contracts), comprehensions."""
import ast
import types as pytypes
import z3
from . import terms as T
from .terms import Lemmas
from .contract import NS, specval, PLAIN, REGISTRY
from .values import (Sym, Ref, ListV, DictV, ObjV, SliceV, FuncV, Builtin, ClassV, ContractFn, BoundMethod, OpaqueV,
                     POISON, Unsupported, PyRaise, NeedSplit, fresh, mk_int, mk_bool, int_term, bool_term, str_term,
                     is_int, SORT_OF_TAG, SEQ_OF_TAG)

CLASS_OF_TAG = {"fmtstr": "FmtStr", "chunk": "Chunk", "atts": "FrozenAttributes"}
PROPERTIES = {("FmtStr", "s"), ("FmtStr", "divides"), ("FmtStr", "width"), ("FmtStr", "shared_atts"),
              ("Chunk", "width"), ("Chunk", "color_str")}
MEMO_FIELDS = {"_unicode", "_len", "_s", "_width"}


class CallMixin:
    # ------------------------------------------------------------------ attributes
    def e_Attribute(self, n, st):
        v = self.ev(n.value, st)
        return self.get_attr(v, n.attr, st)

    def get_attr(self, v, attr, st):
        import enum as _enum
        if attr == "__class__":
            if isinstance(v, Ref):
                o = st.deref(v)
                if isinstance(o, ListV):
                    return ClassV("list")
                if isinstance(o, DictV):
                    return ClassV("dict")
                if isinstance(o, ObjV):
                    return ClassV(o.cls)
            if isinstance(v, Sym) and v.tag in CLASS_OF_TAG:
                return ClassV(CLASS_OF_TAG[v.tag])
            if isinstance(v, (str, int, tuple)) and not isinstance(v, bool):
                return ClassV(type(v).__name__)
            raise Unsupported(f"__class__ of {v!r}")
        if attr == "__name__" and isinstance(v, ClassV):
            return v.name
        if isinstance(v, type) and issubclass(v, _enum.Enum):
            return getattr(v, attr)
        if isinstance(v, SliceV):
            if attr in ("start", "stop", "step"):
                return getattr(v, attr)
            raise Unsupported(f"slice.{attr}")
        if isinstance(v, pytypes.ModuleType):
            x = getattr(v, attr)
            if isinstance(x, (int, str, bytes, bool)) or x is None:
                return x
            key = f"{v.__name__.split('.')[-1]}.{attr}"
            if "ext:" + key in self.registry:
                return ContractFn(self.registry["ext:" + key])
            if key in CONCRETE_EXTERNALS:
                return ConcreteFn(x)
            if isinstance(x, pytypes.ModuleType):
                return x
            if isinstance(x, type) and issubclass(x, BaseException):
                return ClassV(x.__name__)
            if isinstance(x, dict):
                return x
            raise Unsupported(f"external {key} without a contract")
        if isinstance(v, Sym):
            if v.tag == "item":         # element of join's iterable: project to the alternative the path has established
                if attr == "chunks":
                    v = Sym("fmtstr", T.ItemS.ifmt(v.t))
                else:
                    raise Unsupported(f"attribute {attr} of a join item")
            if v.tag == "fmtstr":
                if attr == "chunks":
                    xs = T.FmtS.chunks(v.t)
                    st.fact(Lemmas.list_basic(xs))
                    return st.alloc(ListV(tag="chunk", t=xs, borrowed=True))
                if ("FmtStr", attr) in PROPERTIES:
                    return self.call_method_contract(v, attr, [], {}, st)
                if attr in MEMO_FIELDS:
                    raise Unsupported("read of a memo field of a FmtStr value")
                return BoundMethod(v, attr)
            if v.tag == "chunk":
                if attr in ("s", "_s"):
                    return Sym("str", T.ChunkS.s(v.t))
                if attr in ("atts", "_atts"):
                    return Sym("atts", T.ChunkS.atts(v.t))
                if ("Chunk", attr) in PROPERTIES:
                    return self.call_method_contract(v, attr, [], {}, st)
                return BoundMethod(v, attr)
            return BoundMethod(v, attr)
        if isinstance(v, Ref):
            o = st.deref(v)
            if isinstance(o, ObjV):
                if attr in o.fields:
                    return o.fields[attr]
                key = f"{o.cls}.{attr}"
                c = self.find_method_contract(o.cls, attr)
                if c is not None and c.kind == "property":
                    return self.call_contract(c, [v], {}, st)
                return BoundMethod(v, attr)
            return BoundMethod(v, attr)
        if isinstance(v, (str, bytes, dict, tuple, frozenset)):
            return BoundMethod(v, attr)
        if isinstance(v, ClassV):
            return BoundMethod(v, attr)
        from .values import AbsV
        if isinstance(v, Ref) and isinstance(st.deref(v), AbsV):
            return BoundMethod(v, attr)
        raise Unsupported(f"attribute {attr} of {v!r}")

    def set_attr(self, obj, attr, v, st):
        if isinstance(obj, Ref) and isinstance(st.deref(obj), ObjV):
            st.deref(obj).fields[attr] = v
            return
        if isinstance(obj, Sym) and obj.tag == "fmtstr" and attr in MEMO_FIELDS:
            # a memo slot of a FmtStr value is filled: obligation that it equals the fresh value (C13-F2)
            xs = T.FmtS.chunks(obj.t)
            st.fact(Lemmas.list_basic(xs))
            if attr == "_len":
                goal = int_term(v) == T.TOTLEN(xs)
            elif attr == "_s":
                goal = str_term(v) == T.TEXT(xs)
            elif attr == "_width":
                goal = int_term(v) == T.TOTW(xs)
            else:
                raise Unsupported("store to _unicode of a FmtStr value")
            self.oblige(st, "memo", goal, label=f"{attr} filled with the fresh value")
            return
        if isinstance(obj, Sym):
            self.oblige(st, "frame", z3.BoolVal(False), label=f"attribute store .{attr} on an immutable value")
            return
        raise Unsupported(f"attribute store on {obj!r}")

    MODS = ("formatstring", "formatstringarray", "window", "input", "termhelpers", "events", "escseqparse")

    def find_method_contract(self, cls, name, _seen=None):
        for modname in self.MODS:
            k = f"{modname}:{cls}.{name}"
            if k in self.registry:
                return self.registry[k]
        if f"ext:{cls}.{name}" in self.registry:
            return self.registry[f"ext:{cls}.{name}"]
        # inherited method: follow the real class's MRO
        import sys as _sys
        for modname in self.MODS:
            m = _sys.modules.get("curtsies." + modname)
            real = getattr(m, cls, None) if m else None
            if isinstance(real, type):
                for base in real.__mro__[1:]:
                    if name in base.__dict__ and base.__name__ != cls:
                        return self.find_method_contract(base.__name__, name)
                break
        return None

    # ------------------------------------------------------------------ calls
    def super_call(self, n, st):
        """super().m(args): the next class in the real MRO that defines m, through its contract"""
        import inspect
        meth = n.func.attr
        cls_name = self.contract.qualname.split(".")[0]
        cls = getattr(self.module, cls_name)
        for base in cls.__mro__[1:]:
            if meth in base.__dict__:
                c = self.find_method_contract(base.__name__, meth)
                args = self.eval_args(n, st, None)
                kwargs = {k.arg: self.ev(k.value, st) for k in n.keywords}
                if c is None:
                    # no contract: the parent's real body is executed (inlined through its AST)
                    from .verify import find_function
                    import sys as _sys
                    pmod = _sys.modules[base.__module__]
                    if not base.__module__.startswith("curtsies"):
                        raise Unsupported(f"super().{meth}: {base.__name__}.{meth} is outside the library and has no contract")
                    fn, _ = find_function(pmod, f"{base.__name__}.{meth}")
                    return self.call_closure(FuncV(fn, {}, f"{base.__name__}.{meth}", module=pmod), [st.env["self"]] + args, kwargs, st,
                                             allow_none_return=True)
                return self.call_contract(c, [st.env["self"]] + args, kwargs, st)
        raise Unsupported(f"super().{meth} not found")

    def instantiate_inline(self, key, args, kwargs, st):
        """Cls(args): a new object whose __init__ is executed through its real AST"""
        from .verify import load_module, find_function
        modname, clsname = key.split(":")
        mod = load_module(modname)
        fn, _ = find_function(mod, clsname + ".__init__")
        obj = st.alloc(ObjV(clsname, {}))
        f = FuncV(fn, {}, clsname + ".__init__", module=mod)
        self.call_closure(f, [obj] + list(args), kwargs, st, allow_none_return=True)
        return obj

    def e_Call(self, n, st):
        if isinstance(n.func, ast.Attribute) and isinstance(n.func.value, ast.Call) and isinstance(n.func.value.func, ast.Name) \
                and n.func.value.func.id == "super" and not n.func.value.args:
            return self.super_call(n, st)
        if isinstance(n.func, ast.Name) and n.func.id == "cast" and len(n.args) == 2 and n.func.id not in st.env:
            return self.ev(n.args[1], st)       # typing.cast(T, x) is x; the type expression is not evaluated
        f = self.ev(n.func, st)
        args = self.eval_args(n, st, f)
        kwargs = {}
        for k in n.keywords:
            if k.arg is None:
                d = self.ev(k.value, st)
                if isinstance(d, Ref) and isinstance(st.deref(d), DictV):
                    kwargs.update(st.deref(d).items)
                elif isinstance(d, dict):
                    kwargs.update(d)
                else:
                    kwargs["**"] = d
            else:
                kwargs[k.arg] = self.ev(k.value, st)
        return self.call(f, args, kwargs, st, n)

    def eval_args(self, n, st, f):
        """positional arguments of the call node n, star-arguments of a concrete tuple / list expanded"""
        args = []
        for a in n.args:
            if isinstance(a, ast.Starred):
                seq = self.ev(a.value, st)
                if isinstance(f, ClassV) and f.name == "FmtStr":
                    args.append(("*", seq))
                elif isinstance(seq, tuple):
                    args.extend(seq)
                elif isinstance(seq, Ref) and isinstance(st.deref(seq), ListV) and st.deref(seq).items is not None:
                    args.extend(st.deref(seq).items)
                else:
                    raise Unsupported("star-args of a symbolic sequence")
            else:
                args.append(self.ev(a, st))
        return args

    def call(self, f, args, kwargs, st, node=None):
        if isinstance(f, OpaqueV) and f.kind == "for_stdout" and len(args) == 1 and isinstance(args[0], Sym) and args[0].tag == "line":
            return ("text", args[0])          # the line's terminal string (FmtStr.__str__, C01), as a token for the ghost terminal
        if isinstance(f, OpaqueV) and getattr(self.contract, "abstract", False):
            return OpaqueV("result of an opaque callable")
        if isinstance(f, ConcreteFn):
            if any(isinstance(a, (Sym, Ref)) for a in args) or kwargs:
                raise Unsupported("external function called with symbolic arguments")
            return f.fn(*args)
        if isinstance(f, Builtin):
            return self.call_builtin(f.name, args, kwargs, st, node)
        if isinstance(f, ClassV):
            return self.construct(f.name, args, kwargs, st)
        if isinstance(f, ContractFn):
            return self.call_contract(f.contract, args, kwargs, st)
        if isinstance(f, BoundMethod):
            return self.call_method(f.recv, f.name, args, kwargs, st)
        if isinstance(f, FuncV):
            return self.call_closure(f, args, kwargs, st)
        raise Unsupported(f"call of {f!r}")

    def module_lambda_table(self, name):
        """a module-level `name = {key: lambda ...}` table: the lambdas' ASTs from the real source"""
        import inspect
        cache = _TABLE_CACHE.setdefault(inspect.getsourcefile(self.module), {})
        if name in cache:
            return cache[name]
        tree = ast.parse(open(inspect.getsourcefile(self.module)).read())
        for n in tree.body:
            tgt = n.targets[0] if isinstance(n, ast.Assign) else (n.target if isinstance(n, ast.AnnAssign) else None)
            if isinstance(tgt, ast.Name) and tgt.id == name and isinstance(n.value, ast.Dict):
                out = {}
                for k, v in zip(n.value.keys, n.value.values):
                    if not (isinstance(k, ast.Constant) and isinstance(v, ast.Lambda)):
                        raise Unsupported(f"{name}: not a table of lambdas")
                    out[k.value] = FuncV(v, {}, f"{name}[{k.value!r}]")
                cache[name] = out
                return out
        raise Unsupported(f"module table {name} not found")

    def inline_function(self, key):
        """a tiny pure helper executed through its real AST (still the code that runs), not through a contract"""
        from .verify import load_module, find_function
        if key in _INLINE_CACHE:
            return _INLINE_CACHE[key]
        modname, qual = key.split(":")
        mod = load_module(modname)
        fn, _ = find_function(mod, qual)
        _INLINE_CACHE[key] = FuncV(fn, {}, qual)
        return _INLINE_CACHE[key]

    def call_closure(self, f, args, kwargs, st, allow_none_return=False):
        node = f.node
        if isinstance(node, ast.FunctionDef):
            params = [a.arg for a in node.args.args]
            args = list(args)
            for p in params[len(args):]:
                if p in kwargs:
                    args.append(kwargs.pop(p))
            extra = None
            if node.args.vararg is not None and len(args) >= len(params) and not kwargs:
                extra = tuple(args[len(params):])           # def helper(a, *rest): the surplus positional arguments as a tuple
                args = args[:len(params)]
            if len(params) != len(args) or kwargs or node.args.kwonlyargs or node.args.kwarg is not None or \
                    (node.args.vararg is not None and extra is None):
                raise Unsupported("inlined helper arity")
            saved = st.env
            saved_mod = self.module
            st.env = dict(f.env)
            st.env.update(zip(params, args))
            if extra is not None:
                st.env[node.args.vararg.arg] = extra
            if f.module is not None:
                self.module = f.module          # globals of an inlined body resolve in the module that defines it
            self._inline_depth = getattr(self, "_inline_depth", 0) + 1
            try:
                outs = self.exec_block(node.body, st)
            finally:
                self._inline_depth -= 1
                env_after, st.env = st.env, saved
                self.module = saved_mod
            if len(outs) == 1 and outs[0][1] == ("normal",) and outs[0][0] is st:
                return None         # falling off the end of a function returns None
            if len(outs) == 1 and outs[0][1][0] == "raise" and outs[0][0] is st:
                raise PyRaise(outs[0][1][1], note=f"raised by inlined helper {f.name}")
            if len(outs) != 1 or outs[0][1][0] != "return" or outs[0][0] is not st:
                raise Unsupported(f"inlined helper {f.name} is not a single straight-line return")
            return outs[0][1][1]
        if not isinstance(node, ast.Lambda):
            raise Unsupported(f"call of nested function {f.name}")
        params = [a.arg for a in node.args.args]
        if len(params) != len(args) or kwargs:
            raise Unsupported("lambda call arity")
        saved = st.env
        st.env = dict(f.env)
        st.env.update(zip(params, args))
        try:
            return self.ev(node.body, st)
        finally:
            st.env = saved

    # ------------------------------------------------------------------ constructors
    def construct(self, name, args, kwargs, st):
        if name == "Chunk":
            s = args[0] if args else kwargs.get("string")
            atts = args[1] if len(args) > 1 else kwargs.get("atts")
            return self.mk_chunk(s, atts, st)
        if name == "FmtStr":
            return self.mk_fmtstr(args, st)
        if name in ("int", "str", "bool", "bytes"):
            return self.call_builtin(name, args, kwargs, st, None)
        if name in ("FrozenAttributes", "dict"):
            if len(args) == 1 and isinstance(args[0], Sym) and args[0].tag == "atts":
                return args[0]
            if not args:
                return st.alloc(DictV(dict(kwargs)))
            src = args[0]
            from .loops import GenV
            if isinstance(src, Ref) and isinstance(st.deref(src), DictV):
                d = dict(st.deref(src).items)
                d.update(kwargs)
                return st.alloc(DictV(d))
            if isinstance(src, Ref) and isinstance(st.deref(src), ListV) and st.deref(src).items is not None:
                d = {}
                for kv in st.deref(src).items:
                    if not (isinstance(kv, tuple) and len(kv) == 2 and isinstance(kv[0], (str, int, bytes))):
                        raise Unsupported("dict() of non-pair items")
                    d[kv[0]] = kv[1]
                d.update(kwargs)
                return st.alloc(DictV(d))
            raise Unsupported(f"{name}(...) of {src!r}")
        inl = getattr(self.contract, "inline", {}) or {}
        if name in inl:
            return self.instantiate_inline(inl[name], args, kwargs, st)
        c = self.find_method_contract(name, "__init__")
        if c is not None:
            return self.call_contract(c, args, kwargs, st)
        return OpaqueV(name)            # exception instances etc.

    def mk_chunk(self, s, atts, st):
        if isinstance(s, Sym) and s.tag == "item":
            # element of join's iterable used as the text of a run: a str on the paths that established it, else Chunk.__init__ raises
            if not self.decide(T.ItemS.is_item_str(s.t), st):
                raise PyRaise("ValueError")
            s = Sym("str", T.ItemS.istr(s.t))
        if not (isinstance(s, str) or (isinstance(s, Sym) and s.tag == "str")):
            if isinstance(s, (Sym, bytes, int)) or s is None:
                raise PyRaise("ValueError")     # Chunk.__init__: "unicode string required"
            raise Unsupported(f"Chunk({s!r})")
        if atts is None:
            at = T.NOATTS
        elif isinstance(atts, Sym) and atts.tag == "atts":
            at = atts.t
        elif isinstance(atts, Ref) and isinstance(st.deref(atts), DictV) and not st.deref(atts).items:
            at = T.NOATTS
        else:
            raise Unsupported(f"Chunk atts {atts!r}")
        stt = str_term(s)
        ch = T.ChunkS.mkchunk(stt, at)
        st.fact(Lemmas.cells_of(stt, at))
        self.cells_lemmas(s, at, st)
        return Sym("chunk", ch)

    def cells_lemmas(self, s, at, st):
        """ground instances relating CELLS of a derived string to CELLS of what it was derived from"""
        if isinstance(s, str):
            if s == "":
                st.fact(T.CELLS(T.str_term(""), at) == z3.Empty(T.SC))
            return
        o = s.origin
        if not o:
            return
        if o[0] == "slice":
            _, base, a, b = o
            st.fact(Lemmas.str_slice_cells(s.t, base, a, b, at))
        elif o[0] == "concat":
            _, x, y = o
            st.fact(Lemmas.str_concat_cells(s.t, [x, y], at))

    def mk_fmtstr(self, args, st):
        parts = []
        plain = []
        for a in args:
            if isinstance(a, tuple) and len(a) == 2 and a[0] == "*":
                seq = a[1]
                from .loops import GenV
                if isinstance(seq, GenV):
                    seq = self.materialize(seq, st)
                if not isinstance(seq, Ref):
                    if isinstance(seq, tuple):
                        plain.extend(seq)
                        continue
                    raise Unsupported("FmtStr(*x) of a non-list")
                if plain:
                    parts.append(ListV(items=plain))
                    plain = []
                parts.append(st.deref(seq))
            else:
                plain.append(a)
        if plain or not parts:
            parts.append(ListV(items=plain))
        terms = [self.list_term(p, st, "chunk")[0] for p in parts]
        t = terms[0] if len(terms) == 1 else z3.Concat(*terms)
        if len(terms) > 1:
            st.fact(Lemmas.list_concat(t, terms))
        st.fact(Lemmas.list_basic(t))
        return Sym("fmtstr", T.FmtS.mkfmt(t))

    # ------------------------------------------------------------------ builtins
    def call_builtin(self, name, args, kwargs, st, node):
        m = getattr(self, "b_" + name, None)
        if m is None:
            raise Unsupported(f"builtin {name}")
        return m(args, kwargs, st)

    def b_cast(self, args, kwargs, st):
        return args[1]

    def b_isinstance(self, args, kwargs, st):
        v, cls = args
        names = [c.name for c in cls] if isinstance(cls, tuple) else [cls.name]
        r = False
        for nm in names:
            x = self.isinstance1(v, nm, st)
            if x is True:
                return True
            if x is not False:
                r = x if r is False else z3.Or(r, x)
        return r if isinstance(r, bool) else mk_bool(r)

    def isinstance1(self, v, nm, st):
        if isinstance(v, Sym):
            if v.tag == "item":
                if nm == "FmtStr":
                    return T.ItemS.is_item_fmt(v.t)
                if nm == "str":
                    return T.ItemS.is_item_str(v.t)
                return False
            return {"int": nm == "int", "bool": nm in ("bool", "int"), "str": nm == "str", "bytes": nm == "bytes",
                    "fmtstr": nm == "FmtStr", "chunk": nm == "Chunk", "atts": nm in ("FrozenAttributes", "dict")}.get(v.tag, False)
        if isinstance(v, bool):
            return nm in ("bool", "int")
        if isinstance(v, int):
            return nm == "int"
        if isinstance(v, str):
            return nm == "str"
        if isinstance(v, bytes):
            return nm == "bytes"
        if isinstance(v, SliceV):
            return nm == "slice"
        if isinstance(v, Ref):
            o = st.deref(v)
            if isinstance(o, ObjV):
                return o.cls == nm
            if isinstance(o, DictV):
                return nm == "dict"
            if isinstance(o, ListV):
                return nm == "list"
        if isinstance(v, tuple):
            return nm == "tuple"
        if isinstance(v, OpaqueV) and v.kind in ("exc_type", "exc_value", "exc_tb"):
            # the exception a `with` body was left through: of an arbitrary class (each test is answered both ways, consistently)
            return st.nd_bool(f"isinstance@{v.kind}:{nm}")
        if v is None or isinstance(v, (OpaqueV, float)):
            return False
        raise Unsupported(f"isinstance({v!r}, {nm})")

    def b_issubclass(self, args, kwargs, st):
        v, cls = args
        if isinstance(v, OpaqueV) and v.kind == "exc_type":
            names = [c.name for c in cls] if isinstance(cls, tuple) else [cls.name]
            r = False
            for nm in names:
                x = st.nd_bool(f"isinstance@exc_value:{nm}")       # (the class of the value IS the type: same answers)
                r = x if r is False else z3.Or(r, x)
            return mk_bool(r)
        raise Unsupported(f"issubclass({v!r}, ...)")

    def narrow_item(self, name_node, v, st, as_fmt):
        pass

    def b_slice(self, args, kwargs, st):
        a = list(args)
        if len(a) == 1:
            return SliceV(None, a[0], None)
        a += [None] * (3 - len(a))
        return SliceV(*a)

    def b_len(self, args, kwargs, st):
        v = args[0]
        from .values import AbsSeq
        if isinstance(v, AbsSeq):
            return mk_int(v.n)
        if isinstance(v, Sym) and v.tag == "line":
            st.fact(T.line_facts(v.t))
            return mk_int(T.LINELEN(v.t))
        if isinstance(v, OpaqueV) and getattr(self.contract, "abstract", False):
            n = st.nd_int("len@opaque")
            st.assume(n >= 0)
            return mk_int(n)
        if isinstance(v, (str, bytes, tuple, dict, frozenset)):
            return len(v)
        if isinstance(v, Sym):
            if v.tag in ("str", "bytes"):
                return mk_int(z3.Length(v.t))
            if v.tag == "chunk":
                return mk_int(z3.Length(T.ChunkS.s(v.t)))
            if v.tag == "fmtstr":
                return self.call_method_contract(v, "__len__", [], {}, st)
            if v.tag == "item":
                raise Unsupported("len of an un-narrowed join item")
        if isinstance(v, Ref):
            o = st.deref(v)
            if isinstance(o, ListV):
                return self.list_len(o, st)
            if isinstance(o, DictV):
                return len(o.items)
            if isinstance(o, ObjV):
                c = self.find_method_contract(o.cls, "__len__")
                if c:
                    return self.call_contract(c, [v], {}, st)
        raise Unsupported(f"len({v!r})")

    def _minmax(self, args, st, is_max):
        if len(args) == 1:
            raise Unsupported("min/max of an iterable")
        if all(isinstance(a, (int, float)) and not isinstance(a, bool) for a in args):
            return max(args) if is_max else min(args)
        cur = int_term(args[0])
        for a in args[1:]:
            t = int_term(a)
            cur = z3.If(cur >= t, cur, t) if is_max else z3.If(cur <= t, cur, t)
        return mk_int(cur)

    def b_max(self, args, kwargs, st):
        return self._minmax(args, st, True)

    def b_min(self, args, kwargs, st):
        return self._minmax(args, st, False)

    def b_int(self, args, kwargs, st):
        v = args[0]
        if is_int(v) or isinstance(v, bool):
            return v if not isinstance(v, bool) else int(v)
        if isinstance(v, float):
            return int(v)
        if isinstance(v, str):
            try:
                return int(v)
            except ValueError:
                raise PyRaise("ValueError")
        raise Unsupported(f"int({v!r})")

    def b_bool(self, args, kwargs, st):
        t = self.truth(args[0], st)
        return t if isinstance(t, bool) else mk_bool(t)

    def b_ord(self, args, kwargs, st):
        v = args[0]
        if isinstance(v, (str, bytes)):
            if len(v) != 1:
                raise PyRaise("TypeError")
            return ord(v)
        if isinstance(v, Sym) and v.tag in ("str", "bytes"):
            ok = z3.Length(v.t) == 1
            if not self.decide(ok, st):
                raise PyRaise("TypeError")
            return mk_int(v.t[0])
        raise Unsupported("ord")

    def b_str(self, args, kwargs, st):
        v = args[0]
        if isinstance(v, str):
            return v
        if isinstance(v, Sym) and v.tag == "str":
            return v
        if isinstance(v, Sym) and v.tag in ("fmtstr", "chunk"):
            return self.call_method_contract(v, "__str__", [], {}, st)
        if isinstance(v, int):
            return str(v)
        raise Unsupported(f"str({v!r})")

    def b_hash(self, args, kwargs, st):
        v = args[0]
        if isinstance(v, Sym) and v.tag in ("fmtstr", "chunk"):
            return self.call_method_contract(v, "__hash__", [], {}, st)
        if isinstance(v, Sym) and v.tag == "str":
            return mk_int(HASHSTR(v.t))
        if isinstance(v, tuple) and len(v) == 2 and all(isinstance(x, Sym) for x in v):
            return mk_int(HASHPAIR(v[0].t, v[1].t))
        raise Unsupported("hash")

    def b_list(self, args, kwargs, st):
        if not args:
            return st.alloc(ListV(items=[]))
        v = args[0]
        if isinstance(v, tuple) and v and v[0] == "range":
            kind, sp = self.iter_space(v, st)
            if kind == "concrete":
                return st.alloc(ListV(items=sp))
            t = fresh("range", T.SI)
            st.fact(z3.Length(t) == sp.n)
            st.add_inst(lambda i, t=t, sp=sp: z3.Implies(z3.And(i >= 0, i < sp.n), t[i] == int_term(sp.elem(i))))
            return st.alloc(ListV(tag="int", t=t))
        if isinstance(v, tuple):
            return st.alloc(ListV(items=list(v)))
        if isinstance(v, Ref) and isinstance(st.deref(v), ListV):
            o = st.deref(v).clone()
            o.borrowed = False
            return st.alloc(o)
        if isinstance(v, dict):
            return st.alloc(ListV(items=list(v)))
        raise Unsupported("list(...)")

    def b_tuple(self, args, kwargs, st):
        v = args[0] if args else ()
        if isinstance(v, tuple):
            return v
        if isinstance(v, Ref) and isinstance(st.deref(v), ListV) and st.deref(v).items is not None:
            return tuple(st.deref(v).items)
        raise Unsupported("tuple(...)")

    def b_chain(self, args, kwargs, st):
        out = []
        for a in args:
            if isinstance(a, tuple):
                out.extend(a)
            elif isinstance(a, Ref) and isinstance(st.deref(a), ListV) and st.deref(a).items is not None:
                out.extend(st.deref(a).items)
            else:
                raise Unsupported("chain over a symbolic iterable")
        return st.alloc(ListV(items=out))

    def b_dict(self, args, kwargs, st):
        return self.construct("dict", args, kwargs, st)

    def b_range(self, args, kwargs, st):
        return ("range",) + tuple(args)

    def b_zip(self, args, kwargs, st):
        return ("zip",) + tuple(args)

    def b_enumerate(self, args, kwargs, st):
        return ("enumerate",) + tuple(args)

    def b_sorted(self, args, kwargs, st):
        v = args[0]
        from .values import SymAtts, AbsSeq
        if isinstance(v, Ref) and isinstance(st.deref(v), SymAtts):
            v = Sym("atts", st.deref(v).t)
        if isinstance(v, Sym) and v.tag == "atts" and not kwargs:
            # the keys of a symbolic attribute dict, in some order: an abstract sequence of present keys
            a = v.t
            n = T.NKEYS(a)
            st.fact(n >= 0, n <= len(T.ATT_KEYS), z3.Implies(a == T.NOATTS, n == 0))
            st.add_inst(lambda k, a=a, n=n: z3.Implies(z3.And(k >= 0, k < n),
                                                        z3.And(T.SORTEDKEY(a, k) >= 0, T.SORTEDKEY(a, k) < len(T.ATT_KEYS),
                                                               T.att_field_at(a, T.SORTEDKEY(a, k)) != 0)))
            return AbsSeq(n, lambda k, a=a: Sym("attkey", T.SORTEDKEY(a, k), origin=("keyof", a)))
        if isinstance(v, (tuple, dict, frozenset)) and not kwargs:
            return st.alloc(ListV(items=sorted(v)))
        if isinstance(v, Ref) and isinstance(st.deref(v), ListV) and st.deref(v).items is not None \
                and all(not isinstance(x, (Sym, Ref)) or isinstance(x, tuple) for x in st.deref(v).items):
            items = st.deref(v).items
            try:
                return st.alloc(ListV(items=sorted(items, key=lambda kv: kv[0] if isinstance(kv, tuple) else kv)))
            except TypeError:
                raise Unsupported("sorted of incomparable items")
        raise Unsupported("sorted(...)")

    def b_sum(self, args, kwargs, st):
        return self.fold_call("sum", args, st)

    def b_all(self, args, kwargs, st):
        return self.fold_call("all", args, st)

    def b_any(self, args, kwargs, st):
        return self.fold_call("any", args, st)

    # ------------------------------------------------------------------ methods
    def call_method(self, recv, name, args, kwargs, st):
        if isinstance(recv, Ref):
            o = st.deref(recv)
            if isinstance(o, ListV):
                if name == "append":
                    self.list_append(recv, args[0], st)
                    return None
                if name == "extend":
                    self.list_extend(recv, args[0], st)
                    return None
                if name == "pop" and o.items is not None and all(isinstance(a, int) for a in args):
                    self.mutate_check(o, st, "pop")
                    try:
                        return o.items.pop(*args)
                    except IndexError:
                        raise PyRaise("IndexError")
                if name == "pop" and o.items is None and len(args) == 1 and args[0] == 0:
                    self.mutate_check(o, st, "pop")
                    n = z3.Length(o.t)
                    if not self.decide(n > 0, st):
                        raise PyRaise("IndexError")
                    first = self.elem_value(o.tag, o.t[0] if o.origin is None else o.origin[0][o.origin[1]])
                    o.t, o.origin = z3.SubSeq(o.t, 1, n - 1), None
                    return first
                if name == "clear" and not args and not kwargs:
                    self.mutate_check(o, st, "clear")       # x.clear() is del x[:]
                    o.items, o.t, o.origin = [], None, None
                    return None
                if name in ("insert", "remove", "sort", "reverse", "clear", "pop"):
                    self.mutate_check(o, st, name)
                    raise Unsupported(f"list.{name}")
                raise Unsupported(f"list.{name}")
            if isinstance(o, DictV):
                if name == "get" and isinstance(args[0], (str, int, bytes)):
                    return o.items.get(args[0], args[1] if len(args) > 1 else None)
                if name == "get" and not o.items:
                    return args[1] if len(args) > 1 else None       # empty dict: the default, whatever the key
                if name == "get" and getattr(self.contract, "abstract", False):
                    return OpaqueV("dict value")
                if name == "items":
                    return st.alloc(ListV(items=[(k, v) for k, v in o.items.items()]))
                if name == "keys":
                    return st.alloc(ListV(items=list(o.items.keys())))
                if name == "values":
                    return st.alloc(ListV(items=list(o.items.values())))
                if name == "update":
                    src = args[0]
                    if isinstance(src, Ref) and isinstance(st.deref(src), DictV):
                        o.items.update(st.deref(src).items)
                        return None
                    if isinstance(src, dict):
                        o.items.update(src)
                        return None
                raise Unsupported(f"dict.{name}")
            if isinstance(o, ObjV) and o.cls in (getattr(self.contract, "inline", {}) or {}) and name in ("__enter__", "__exit__"):
                return self._cm_inline(recv, st, name, list(args))
            if isinstance(o, ObjV):
                c = self.find_method_contract(o.cls, name)
                if c is None and (name in (getattr(self.contract, "inline_methods", ()) or ())
                                  or (name.startswith("_") and not name.startswith("__"))):
                    # (a private method without a contract of its own is a helper of the method under verification: executed in place)
                    # a small helper method of the same object: its real body is executed
                    import sys as _sys
                    for modname in self.MODS:
                        m = _sys.modules.get("curtsies." + modname)
                        real = getattr(m, o.cls, None) if m else None
                        if isinstance(real, type):
                            for base in real.__mro__:
                                if name in base.__dict__:
                                    from .verify import find_function
                                    pmod = _sys.modules[base.__module__]
                                    fn, _ = find_function(pmod, f"{base.__name__}.{name}")
                                    return self.call_closure(FuncV(fn, {}, f"{base.__name__}.{name}", module=pmod), [recv] + list(args), kwargs, st,
                                                             allow_none_return=True)
                if c is None:
                    raise Unsupported(f"method {o.cls}.{name} without a contract")
                return self.call_contract(c, [recv] + list(args), kwargs, st)
            from .values import AbsV, AbsSeq, SymDict
            if isinstance(o, SymDict) and name == "get" and is_int(args[0]) and (len(args) == 1 or args[1] is None):
                k = z3.simplify(int_term(args[0]) + o.shift)
                st.add_index(k)
                return Sym("optline", z3.If(z3.Select(o.present, k), z3.Select(o.val, k), z3.IntVal(-1)))
            if isinstance(o, SymDict) and name == "items" and not args:
                return ("symdict_items", recv)
            if isinstance(o, AbsV) and getattr(self.contract, "abstract", False) and name == "get":
                return OpaqueV("dict value")
            if isinstance(o, AbsV) and getattr(self.contract, "abstract", False) and name in ("items", "keys", "values"):
                n = st.nd_int(f"len@{o.kind}")
                st.assume(n >= 0)
                return AbsSeq(n)
            if isinstance(o, DictV) and getattr(self.contract, "abstract", False) and name == "get" and isinstance(args[0], Sym):
                return OpaqueV("dict value")
            if isinstance(o, AbsV) and name in ("append", "extend", "pop", "clear", "insert", "remove", "update", "sort"):
                o.term = fresh("abs", T.I)      # an opaque object is mutated: its contents are now unknown
                return None
        from .values import SymAtts as _SA
        if isinstance(recv, Ref) and isinstance(st.deref(recv), _SA) and name == "get":
            recv = Sym("atts", st.deref(recv).t)
        if isinstance(recv, Sym) and recv.tag == "atts" and name == "get" and 1 <= len(args) <= 2 and not kwargs:
            return self.atts_getitem(recv, args[0], st, default=(args[1] if len(args) > 1 else None))
        if isinstance(recv, Sym) and recv.tag in CLASS_OF_TAG:
            return self.call_method_contract(recv, name, args, kwargs, st)
        if isinstance(recv, (str, bytes)) or (isinstance(recv, Sym) and recv.tag in ("str", "bytes")):
            return self.str_method(recv, name, args, kwargs, st)
        if isinstance(recv, dict):
            if name == "items":
                return st.alloc(ListV(items=list(recv.items())))
            if name == "keys":
                return st.alloc(ListV(items=list(recv.keys())))
            if name == "values":
                return st.alloc(ListV(items=list(recv.values())))
            if name == "get" and not isinstance(args[0], (Sym, Ref)):
                return recv.get(*args)
            if name == "get" and isinstance(args[0], Sym) and args[0].tag in ("int", "str", "bytes") and 1 <= len(args) <= 2 and not kwargs:
                # TABLE.get(key[, default]) on a constant table with a symbolic key: TABLE[key] if key in TABLE else default
                try:
                    return self.table_lookup(recv, args[0], st)
                except PyRaise as e:
                    if e.cls != "KeyError":
                        raise
                    return args[1] if len(args) > 1 else None
        if isinstance(recv, ClassV):
            c = self.find_method_contract(recv.name, name)
            if c is not None:
                return self.call_contract(c, list(args), kwargs, st)
        raise Unsupported(f"method {name} of {recv!r}")

    def str_method(self, recv, name, args, kwargs, st):
        if isinstance(recv, (str, bytes)) and all(not isinstance(a, (Sym, Ref)) for a in args):
            if name in ("lower", "upper", "startswith", "endswith", "isdigit", "split", "strip", "format", "encode",
                        "decode", "lstrip", "rstrip", "ljust", "rjust", "replace", "find", "count"):
                try:
                    return getattr(recv, name)(*args, **kwargs)
                except UnicodeDecodeError:
                    raise PyRaise("UnicodeDecodeError")
        if name == "join":
            return self.fold_call("join", [args[0], recv], st)
        if name == "decode" and isinstance(recv, Sym) and recv.tag == "bytes" and len(args) == 1 and isinstance(args[0], str):
            c = self.registry.get("ext:bytes.decode")
            if c is None:
                raise Unsupported("bytes.decode without a contract")
            return self.call_contract(c, [recv, args[0]], {}, st)
        if name == "format" and isinstance(recv, str) and not kwargs and recv.count("{}") == len(args) \
                and "{" not in recv.replace("{}", "") and "}" not in recv.replace("{}", ""):
            parts = recv.split("{}")
            acc = parts[0]
            for a, lit in zip(args, parts[1:]):
                if isinstance(a, int) and not isinstance(a, bool):
                    a = str(a)
                if not (isinstance(a, str) or (isinstance(a, Sym) and a.tag == "str")):
                    raise Unsupported("str.format argument is not a string")
                acc = self.binop("Add", self.binop("Add", acc, a, st), lit, st)
            return acc
        if name == "format":
            return OpaqueV("message")
        raise Unsupported(f"str.{name} on {recv!r}")

    def call_method_contract(self, recv, name, args, kwargs, st):
        cls = CLASS_OF_TAG[recv.tag]
        c = self.find_method_contract(cls, name)
        if c is None:
            raise Unsupported(f"{cls}.{name} has no contract")
        return self.call_contract(c, [recv] + list(args), kwargs, st)

    def dunder_binop(self, op, a, b, st):
        if op == "Add":
            if isinstance(a, Sym) and a.tag == "fmtstr":
                return self.call_method_contract(a, "__add__", [b], {}, st)
            if isinstance(b, Sym) and b.tag == "fmtstr":
                return self.call_method_contract(b, "__radd__", [a], {}, st)
        if op == "Mult" and isinstance(a, Sym) and a.tag == "fmtstr":
            return self.call_method_contract(a, "__mul__", [b], {}, st)
        return NotImplemented

    def dunder_eq(self, o, a, b, st):
        r = self.call_method_contract(a, "__eq__", [b], {}, st)
        t = self.truth(r, st)
        if o == "Eq":
            return t
        return (not t) if isinstance(t, bool) else z3.Not(t)

    # ------------------------------------------------------------------ callee contracts
    def bind_args(self, c, args, kwargs):
        params = c.params
        bound = {}
        if params and params[-1].startswith("**"):
            # **name: the remaining keyword arguments as a dict value
            fixed = [q for q in params[:-1]]
            names = {q.lstrip("*") for q in fixed}
            extra = {k: v for k, v in kwargs.items() if k not in names}
            kwargs = {k: v for k, v in kwargs.items() if k in names}
            bound[params[-1][2:]] = extra
            params = fixed
        if params and params[-1].startswith("*"):
            fixed = params[:-1]
            bound[params[-1][1:]] = tuple(args[len(fixed):])
            args = args[:len(fixed)]
            params = fixed
        if len(args) > len(params):
            raise Unsupported(f"too many arguments for {c.key}")
        for p, a in zip(params, args):
            bound[p] = a
        for k, v in kwargs.items():
            if k not in params or k in bound:
                raise Unsupported(f"bad keyword {k} for {c.key}")
            bound[k] = v
        for p in params:
            if p not in bound:
                if p in c.defaults:
                    bound[p] = c.defaults[p]
                else:
                    raise Unsupported(f"missing argument {p} for {c.key}")
        return bound

    def call_contract(self, c, args, kwargs, st):
        """Modular call: assert requires, fork into the raises exits, assume ensures of a fresh result."""
        bound = self.bind_args(c, args, kwargs)
        a = NS({k: specval(v, st, self) for k, v in bound.items()})
        a.__dict__["_raw"] = bound
        a.__dict__["_st"] = st
        a.__dict__["_ex"] = self
        if c.requires is not None:
            pre = c.requires(a)
            if pre is not True:
                self.oblige(st, "pre@callee", pre if pre is not False else z3.BoolVal(False), label=c.qualname)
        for exc, cond in c.raises.items():
            if cond == "may":
                cv = st.nd_bool(f"{c.qualname}.raises.{exc}")
            else:
                cv = cond(a)
            if cv is False:
                continue
            if getattr(self, "_collect_raises", None) is not None:
                # element of a comprehension (loops.materialize_general): the condition is recorded, evaluation continues on the
                # not-raising side
                self._collect_raises.append((exc, cv if not isinstance(cv, bool) else z3.BoolVal(cv)))
                if cv is True:
                    raise Unsupported("comprehension element always raises")
                st.assume(z3.Not(cv))
                continue
            if self.decide(cv, st):
                raise PyRaise(exc, note=f"raised by callee {c.qualname}")
        from . import spec as S
        st.fact(S.drain())
        if c.result is None:
            res = None
        else:
            res = c.result(a, st) if callable(c.result) and not hasattr(c.result, "fresh") else c.result.fresh("r_" + c.qualname.split(".")[-1], st)
        if c.effect is not None:
            c.effect(a, st, res)
        a.__dict__["final"] = NS({k: specval(v, st, self) for k, v in bound.items()})
        if c.ensures is not None:
            post = c.ensures(a, specval(res, st, self))
            for f in (post if isinstance(post, (list, tuple)) else [post]):
                if isinstance(f, tuple):
                    f = f[1]
                if callable(f) and not z3.is_expr(f):
                    st.add_inst(f)
                elif f is not True:
                    st.fact(f if f is not False else z3.BoolVal(False))
            st.fact(S.drain())
        return res

    # ------------------------------------------------------------------ context managers (with)
    def _cm_inline(self, cm, st, meth, args):
        from .verify import load_module, find_function
        cls = st.deref(cm).cls
        modname, clsname = (getattr(self.contract, "inline", {}) or {})[cls].split(":")
        mod = load_module(modname)
        fn, _ = find_function(mod, f"{clsname}.{meth}")
        return self.call_closure(FuncV(fn, {}, f"{clsname}.{meth}", module=mod), [cm] + args, {}, st, allow_none_return=True)

    def cm_enter(self, cm, st):
        if isinstance(cm, Ref) and isinstance(st.deref(cm), ObjV) and st.deref(cm).cls in (getattr(self.contract, "inline", {}) or {}):
            try:
                return [(st, ("normal",), self._cm_inline(cm, st, "__enter__", []))]
            except PyRaise as e:
                return [(st, ("raise", e.cls), None)]
        if isinstance(cm, Ref) and isinstance(st.deref(cm), ObjV):
            cls = st.deref(cm).cls
            c = self.find_method_contract(cls, "__enter__")
            if c is None:
                raise Unsupported(f"{cls}.__enter__ without a contract")
            try:
                r = self.call_contract(c, [cm], {}, st)
                return [(st, ("normal",), r)]
            except PyRaise as e:
                return [(st, ("raise", e.cls), None)]
        raise Unsupported(f"with on {cm!r}")

    def cm_exit(self, cm, st, oc):
        cls = st.deref(cm).cls
        if cls in (getattr(self.contract, "inline", {}) or {}):
            try:
                self._cm_inline(cm, st, "__exit__", [None, None, None])
            except PyRaise as e:
                return [(st, ("raise", e.cls))]
            return [(st, oc)]
        c = self.find_method_contract(cls, "__exit__")
        if c is None:
            raise Unsupported(f"{cls}.__exit__ without a contract")
        try:
            self.call_contract(c, [cm, None, None, None], {}, st)
        except PyRaise as e:
            return [(st, ("raise", e.cls))]
        return [(st, oc)]


class ConcreteFn:
    """a whitelisted pure external function, evaluated by calling it (only ever on concrete arguments)"""
    def __init__(self, fn):
        self.fn = fn


CONCRETE_EXTERNALS = {"codecs.getdecoder"}
_TABLE_CACHE = {}
_INLINE_CACHE = {}
HASHSTR = z3.Function("HASHSTR", T.SI, T.I)
HASHPAIR = z3.Function("HASHPAIR", T.SI, T.Atts, T.I)
