"""SMT sorts, spec-level fold functions and ground-lemma emission for pyvc.

Everything here is code-independent: it fixes how Python values of the verified subset are
represented as SMT terms (DESIGN 2.3) and which *ground instances* of list-homomorphism
lemmas are added to a path (DESIGN 2.5).  No quantified axiom is ever given to a solver.
"""
import z3

I = z3.IntSort()
B = z3.BoolSort()
SI = z3.SeqSort(I)                       # python str / bytes as a sequence of code points / byte values

# attribute dict of a run: 0 = key absent; fg/bg: the SGR number; styles: 1 = False, 2 = True
ATT_KEYS = ("fg", "bg", "bold", "dark", "italic", "underline", "blink", "invert")
_A = z3.Datatype("Atts")
_A.declare("mkatts", *[(k, I) for k in ATT_KEYS])
Atts = _A.create()
NOATTS = Atts.mkatts(*[z3.IntVal(0)] * 8)

ATT_FIELDS = [getattr(Atts, k) for k in ATT_KEYS]
SORTEDKEY = z3.Function("SORTEDKEY", Atts, I, I)    # index (into ATT_KEYS) of the k-th key of sorted(atts)
NKEYS = z3.Function("NKEYS", Atts, I)               # number of keys present


def att_field_at(a, key):
    """value stored under the key with index `key` (0 = absent)"""
    t = z3.IntVal(0)
    for i in reversed(range(len(ATT_KEYS))):
        t = z3.If(key == i, ATT_FIELDS[i](a), t)
    return t


def att_store(a, key, val):
    return Atts.mkatts(*[z3.If(key == i, val, ATT_FIELDS[i](a)) for i in range(len(ATT_KEYS))])


_C = z3.Datatype("Cell")
_C.declare("mkcell", ("ch", I), ("catts", Atts))
Cell = _C.create()
SC = z3.SeqSort(Cell)

_K = z3.Datatype("Chunk")
_K.declare("mkchunk", ("s", SI), ("atts", Atts))
ChunkS = _K.create()
SCh = z3.SeqSort(ChunkS)

_F = z3.Datatype("FmtStr")
_F.declare("mkfmt", ("chunks", SCh))
FmtS = _F.create()
SF = z3.SeqSort(FmtS)

_It = z3.Datatype("Item")               # element of the iterable given to FmtStr.join
_It.declare("item_fmt", ("ifmt", FmtS))
_It.declare("item_str", ("istr", SI))
_It.declare("item_other", ("ikind", I))
ItemS = _It.create()
SItem = z3.SeqSort(ItemS)

# ------------------------------------------------------------------ spec functions (uninterpreted, constrained
# only through ground instances emitted below)
CELLS = z3.Function("CELLS", SI, Atts, SC)          # map (\c. (c, atts)) s
VIEW = z3.Function("VIEW", SCh, SC)                 # flatMap cells
TEXT = z3.Function("TEXT", SCh, SI)                 # concat of run texts
TOTLEN = z3.Function("TOTLEN", SCh, I)              # sum of run lengths
DROPE = z3.Function("DROP_EMPTY", SCh, SCh)         # filter (\c. len(c.s) > 0)
DROPJ = z3.Function("DROPJ", SCh, I, I)             # position in xs of the i-th run kept by the filter
REP = z3.Function("REP", SC, I, SC)                 # cells repeated n times (n <= 0 -> empty)
BLANKS = z3.Function("BLANKS", I, SC)               # n unformatted spaces as cells
SPACES = z3.Function("SPACES", I, SI)               # " " * n as text
WCS = z3.Function("WCS", SI, I)                     # cwcwidth.wcswidth(s) (assumed contract, see contracts/external.py)
TOTW = z3.Function("TOTW", SCh, I)                  # sum of run widths
COLW = z3.Function("COLW", SC, I)                   # columns occupied by a cell sequence


# ------------------------------------------------------------------ terminal columns (C10): spec functions of the column model
WCW = z3.Function("WCW", I, I)                      # cwcwidth.wcwidth of one code point (assumed dependency contract)
PREW = z3.Function("PREW", SI, I, I)                # columns occupied by the first i characters of s (prefix sum of WCW)
BASEF = z3.Function("BASEF", SI, SI)                # the characters of s that occupy columns (width > 0), in order
BCUT = z3.Function("BCUT", SI, I, I, SI)            # base characters that columns a..b-1 of s show (a cut double-width one as a blank)
BVIEW = z3.Function("BVIEW", SCh, SC)               # cells of the column-occupying characters of a run list
RUNCUT = z3.Function("RUNCUT", SCh, I, I, SC)       # cells that columns a..b-1 of a run list show (fold of BCUT over the runs)
FLAT = z3.Function("FLAT", SF, SC)                  # cells of a sequence of FmtStr values, one after the other
EXTRA_VIEWS = [False]                               # emit BVIEW instances with the VIEW ones (switched on per contract)


def clip(x, n):
    return z3.If(x < 0, 0, z3.If(x > n, n, x))


def py_bound(i, n, default):
    """Python's normalisation of one slice bound against length n (i: Int term or None)."""
    if i is None:
        return default
    return z3.If(i < 0, z3.If(i + n < 0, 0, i + n), z3.If(i > n, n, i))


def pyslice_term(X, lo, hi):
    """X[lo:hi] with Python semantics; lo/hi Int terms or None."""
    n = z3.Length(X)
    a = py_bound(lo, n, z3.IntVal(0))
    b = py_bound(hi, n, n)
    return z3.If(b > a, z3.SubSeq(X, a, b - a), z3.Empty(X.sort()))


def seq_of_ints(vals):
    if not vals:
        return z3.Empty(SI)
    units = [z3.Unit(z3.IntVal(v)) for v in vals]
    return units[0] if len(units) == 1 else z3.Concat(*units)


def str_term(s):
    return seq_of_ints([ord(c) for c in s])


def bytes_term(b):
    return seq_of_ints(list(b))


class Lemmas:
    """Ground instances of the fold homomorphisms for the list terms a path builds.
    Each method returns a list of z3 facts (true in the intended model: CELLS = map,
    VIEW = flatMap, TEXT/TOTLEN = folds; the schemas are proved in lean/Lemmas.lean)."""

    @staticmethod
    def chunk(ch):
        s, a = ChunkS.s(ch), ChunkS.atts(ch)
        return [z3.Length(CELLS(s, a)) == z3.Length(s)]

    @staticmethod
    def cells_of(s, a):
        return [z3.Length(CELLS(s, a)) == z3.Length(s)]

    @staticmethod
    def list_basic(xs):
        return [TOTLEN(xs) == z3.Length(VIEW(xs)), z3.Length(TEXT(xs)) == z3.Length(VIEW(xs)),
                z3.Implies(z3.Length(xs) == 0, z3.Length(VIEW(xs)) == 0),
                TOTW(xs) == COLW(VIEW(xs))] + \
               ([z3.Implies(z3.Length(xs) == 0, z3.And(z3.Length(BVIEW(xs)) == 0, TOTW(xs) == 0))] if EXTRA_VIEWS[0] else [])

    @staticmethod
    def list_empty(e):
        return [VIEW(e) == z3.Empty(SC), TEXT(e) == z3.Empty(SI), TOTLEN(e) == 0, DROPE(e) == e, TOTW(e) == 0] + \
               ([BVIEW(e) == z3.Empty(SC)] if EXTRA_VIEWS[0] else [])

    @staticmethod
    def list_unit(u, ch):
        s, a = ChunkS.s(ch), ChunkS.atts(ch)
        return [VIEW(u) == CELLS(s, a), TEXT(u) == s, TOTLEN(u) == z3.Length(s),
                z3.Length(CELLS(s, a)) == z3.Length(s), TOTW(u) == WCS(s)] + \
               ([BVIEW(u) == CELLS(BASEF(s), a)] if EXTRA_VIEWS[0] else [])

    @staticmethod
    def list_concat(res, parts):
        if len(parts) == 1:
            return []
        return [VIEW(res) == z3.Concat(*[VIEW(p) for p in parts]),
                TEXT(res) == z3.Concat(*[TEXT(p) for p in parts]),
                TOTLEN(res) == z3.Sum(*[TOTLEN(p) for p in parts]),
                TOTW(res) == z3.Sum(*[TOTW(p) for p in parts])] + \
               ([BVIEW(res) == z3.Concat(*[BVIEW(p) for p in parts])] if EXTRA_VIEWS[0] else []) + \
               [f for p in parts for f in Lemmas.list_basic(p)]

    @staticmethod
    def drop_empty(xs):
        d = DROPE(xs)
        return [VIEW(d) == VIEW(xs), TEXT(d) == TEXT(xs), TOTLEN(d) == TOTLEN(xs)] + Lemmas.list_basic(d)

    @staticmethod
    def str_slice_cells(res, base, a, b, atts):
        """res == base[a:b] (a, b already normalised, 0 <= a, b <= len) under attributes atts."""
        return [CELLS(res, atts) == z3.If(b > a, z3.SubSeq(CELLS(base, atts), a, b - a), z3.Empty(SC)),
                z3.Length(CELLS(base, atts)) == z3.Length(base), z3.Length(CELLS(res, atts)) == z3.Length(res)]

    @staticmethod
    def str_concat_cells(res, parts, atts):
        return [CELLS(res, atts) == z3.Concat(*[CELLS(p, atts) for p in parts])] + \
               [z3.Length(CELLS(p, atts)) == z3.Length(p) for p in parts]

    @staticmethod
    def flat_append(new, old, f):
        """new == old ++ [f] (sequence of FmtStr): FLAT distributes; FLAT of the empty sequence is empty"""
        return [FLAT(new) == z3.Concat(FLAT(old), VIEW(FmtS.chunks(f))), FLAT(z3.Empty(SF)) == z3.Empty(SC),
                z3.Length(new) == z3.Length(old) + 1]

    # ---- character lists (list of 1-character strings modelled as the string of their concatenation)
    @staticmethod
    def chars_concat(res, x, y):
        """res == x ++ y: the base-character filter distributes, widths add up (wcswidth = sum of wcwidth, all >= 0)"""
        return [BASEF(res) == z3.Concat(BASEF(x), BASEF(y)),
                z3.Implies(z3.And(WCS(x) >= 0, WCS(y) >= 0), WCS(res) == WCS(x) + WCS(y))]

    @staticmethod
    def chars_unit(u, c):
        """u is the one-character string with code point c"""
        return [WCS(u) == WCW(c), BASEF(u) == z3.If(WCW(c) > 0, u, z3.Empty(SI))]

    @staticmethod
    def chars_spaces(sp, n):
        """sp == ' ' * n: blanks are one column wide and occupy columns"""
        return [WCS(sp) == z3.If(n > 0, n, 0), BASEF(sp) == sp]

    @staticmethod
    def rep_step(X, i):
        """REP(X, i+1) == REP(X, i) ++ X for i >= 0; REP(X, 0) == empty."""
        return [z3.Implies(i >= 0, REP(X, i + 1) == z3.Concat(REP(X, i), X)), REP(X, z3.IntVal(0)) == z3.Empty(SC),
                z3.Implies(i <= 0, REP(X, i) == z3.Empty(SC))]


# ------------------------------------------------------------------ rendering lines and the ghost terminal (C02)
LINELEN = z3.Function("LINELEN", I, I)              # number of cells of the line with this identity
CLIPID = z3.Function("CLIPID", I, I, I)             # identity of line[:w]
_R = z3.Datatype("Row")
_R.declare("shows", ("line", I))                    # the row displays exactly this line, blank to the right of it
_R.declare("blank")
_R.declare("junk")
_R.declare("partial", ("pline", I))                 # the line was written from column 0; the rest of the row is old content
Row = _R.create()


def line_facts(l, w=None):
    fs = [LINELEN(l) >= 0]
    if w is not None:
        c = CLIPID(l, w)
        fs += [LINELEN(c) == z3.If(LINELEN(l) <= w, LINELEN(l), z3.If(w >= 0, w, 0)), z3.Implies(LINELEN(l) <= w, c == l)]
    return fs


def displays(row, v, w):
    """the screen row shows the cached/array value v (-1 = None = a blank row), clipped to the width w"""
    c = CLIPID(v, w)
    return z3.If(v == -1, row == Row.blank, z3.Or(row == Row.shows(c), z3.And(row == Row.blank, LINELEN(c) == 0)))


_O = z3.Datatype("OptInt")
_O.declare("none")
_O.declare("some", ("optv", I))
OptInt = _O.create()
