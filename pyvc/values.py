"""Executor value model (DESIGN 2.3).  Concrete Python ints/bools/strs/None/tuples are used as
they are; everything symbolic is one of the wrappers below."""
import itertools
import z3
from . import terms as T

_fresh = itertools.count()


def fresh(prefix, sort):
    return z3.Const(f"{prefix}!{next(_fresh)}", sort)


class Unsupported(Exception):
    """Construct outside the verified subset -> the function's obligations are *undecided*."""


class PyRaise(Exception):
    def __init__(self, cls, note=""):
        super().__init__(cls)
        self.cls, self.note = cls, note


class NeedSplit(Exception):
    def __init__(self, cond):
        super().__init__("split")
        self.cond = cond


class Sym:
    """Symbolic immutable value. tag in int bool str bytes chunk atts fmtstr item cell."""
    __slots__ = ("tag", "t", "origin")

    def __init__(self, tag, t, origin=None):
        self.tag, self.t, self.origin = tag, t, origin

    def __repr__(self):
        return f"Sym<{self.tag}:{self.t}>"


class Poison:
    """Value of a havocked variable whose type is not known; any use is Unsupported."""
    def __repr__(self):
        return "<poison>"


POISON = Poison()


class SliceV:
    __slots__ = ("start", "stop", "step")

    def __init__(self, start, stop, step):
        self.start, self.stop, self.step = start, stop, step

    def __repr__(self):
        return f"SliceV({self.start},{self.stop},{self.step})"


class Ref:
    __slots__ = ("oid",)

    def __init__(self, oid):
        self.oid = oid

    def __repr__(self):
        return f"Ref({self.oid})"


class ListV:
    """Heap list. Either symbolic (`t`: z3 Seq term, `tag`: element tag) or concrete
    (`items`: python list of executor values).  `origin`=(base_term, offset) for a slice of an
    int list, so that element k is read as base[offset+k].  `borrowed`: obtained by reading
    `.chunks` of a pre-existing FmtStr -> any in-place mutation is a frame violation (C13)."""
    __slots__ = ("tag", "t", "items", "origin", "borrowed")

    def __init__(self, tag=None, t=None, items=None, origin=None, borrowed=False):
        self.tag, self.t, self.items, self.origin, self.borrowed = tag, t, items, origin, borrowed

    def clone(self):
        return ListV(self.tag, self.t, None if self.items is None else list(self.items), self.origin, self.borrowed)


class DictV:
    """Heap dict with concrete keys (python dict of executor values)."""
    __slots__ = ("items",)

    def __init__(self, items=None):
        self.items = dict(items or {})

    def clone(self):
        return DictV(self.items)


class ObjV:
    __slots__ = ("cls", "fields")

    def __init__(self, cls, fields=None):
        self.cls, self.fields = cls, dict(fields or {})

    def clone(self):
        return ObjV(self.cls, self.fields)


class AbsV:
    """opaque mutable external object (e.g. the attribute list returned by termios.tcgetattr): only its identity-as-a-value
    `term` (an Int standing for its current contents) is tracked; item reads give children, any item write gives the object
    (and its parents) a fresh contents term"""
    __slots__ = ("term", "parent", "kind")

    def __init__(self, term, parent=None, kind="abs"):
        self.term, self.parent, self.kind = term, parent, kind

    def clone(self):
        return AbsV(self.term, self.parent, self.kind)


class AbsSeq:
    """abstract immutable sequence: its length (an Int term >= 0) and, optionally, an element function k -> value;
    without one the elements are opaque.  `offset`: position of element 0 in the sequence it was sliced from (index-term
    bookkeeping for quantified facts about the elements)"""
    __slots__ = ("n", "elem", "offset")

    def __init__(self, n, elem=None, offset=None):
        self.n, self.elem, self.offset = n, elem, offset


class SymDict:
    """heap dict with symbolic integer keys: presence and value arrays (value -1 encodes None) plus its truthiness.
    `shift`: the entry for key k lives at array index k + shift, so that re-keying `{k - c: v for k, v in d.items()}` is a
    change of `shift` (no array is copied)"""
    __slots__ = ("present", "val", "nonempty", "shift")

    def __init__(self, present, val, nonempty, shift=None):
        import z3 as _z3
        self.present, self.val, self.nonempty = present, val, nonempty
        self.shift = _z3.IntVal(0) if shift is None else shift

    def clone(self):
        return SymDict(self.present, self.val, self.nonempty, self.shift)


class SymAtts:
    """heap dict whose keys are attribute names (possibly symbolic: Sym 'attkey'): its contents as a term of the Atts datatype"""
    __slots__ = ("t",)

    def __init__(self, t):
        self.t = t

    def clone(self):
        return SymAtts(self.t)


class FuncV:
    """Closure over a lambda / nested def of the real source."""
    __slots__ = ("node", "env", "name", "module")

    def __init__(self, node, env, name="<lambda>", module=None):
        self.node, self.env, self.name, self.module = node, env, name, module


class Builtin:
    __slots__ = ("name",)

    def __init__(self, name):
        self.name = name

    def __repr__(self):
        return f"<builtin {self.name}>"


class ClassV:
    __slots__ = ("name",)

    def __init__(self, name):
        self.name = name

    def __repr__(self):
        return f"<class {self.name}>"


class ContractFn:
    __slots__ = ("contract",)

    def __init__(self, contract):
        self.contract = contract


class BoundMethod:
    __slots__ = ("recv", "name")

    def __init__(self, recv, name):
        self.recv, self.name = recv, name


class OpaqueV:
    """A value of a type the function under verification does not know (isinstance -> False)."""
    __slots__ = ("kind",)

    def __init__(self, kind="other"):
        self.kind = kind


SORT_OF_TAG = {"attkey": T.I, "attval": T.I, "optint": T.OptInt, "line": T.I, "optline": T.I, "int": T.I, "bool": T.B, "str": T.SI, "bytes": T.SI, "chunk": T.ChunkS, "atts": T.Atts,
               "fmtstr": T.FmtS, "item": T.ItemS, "cell": T.Cell}
SEQ_OF_TAG = {"byte1": T.SI, "char": T.SI, "int": T.SI, "chunk": T.SCh, "fmtstr": T.SF, "item": T.SItem, "cell": T.SC}


def is_int(v):
    return (isinstance(v, int) and not isinstance(v, bool)) or (isinstance(v, Sym) and v.tag in ("int", "optint"))


def is_boolish(v):
    return isinstance(v, bool) or (isinstance(v, Sym) and v.tag == "bool")


def int_term(v):
    if isinstance(v, Sym) and v.tag == "int":
        return v.t
    if isinstance(v, Sym) and v.tag == "optint":
        return T.OptInt.optv(v.t)       # callers establish that it is not None (exprs.binop / compare decide it)
    if isinstance(v, bool):
        return z3.IntVal(int(v))
    if isinstance(v, int):
        return z3.IntVal(v)
    raise Unsupported(f"int expected, got {v!r}")


def bool_term(v):
    if isinstance(v, Sym) and v.tag == "bool":
        return v.t
    if isinstance(v, bool):
        return z3.BoolVal(v)
    raise Unsupported(f"bool expected, got {v!r}")


def str_term(v):
    if isinstance(v, Sym) and v.tag in ("str", "bytes"):
        return v.t
    if isinstance(v, str):
        return T.str_term(v)
    if isinstance(v, bytes):
        return T.bytes_term(v)
    raise Unsupported(f"str expected, got {v!r}")


def mk_int(t):
    t = z3.simplify(t) if z3.is_expr(t) else z3.IntVal(t)
    if z3.is_int_value(t):
        return t.as_long()
    return Sym("int", t)


def mk_bool(t):
    if isinstance(t, bool):
        return t
    t = z3.simplify(t)
    if z3.is_true(t):
        return True
    if z3.is_false(t):
        return False
    return Sym("bool", t)
