"""Path state of the symbolic executor: environment, heap (mutable lists/dicts/objects with
identity, so aliasing is modelled), path condition, ground facts, decided conditions."""
import itertools
import z3
from .values import ListV, DictV, ObjV, Ref

_oid = itertools.count(1)


class State:
    def __init__(self):
        self.env = {}
        self.heap = {}
        self.pc = []            # assumptions of the path (branch conditions, requires, invariants)
        self.facts = []         # ground lemma instances and callee postconditions
        self.decided = []       # (cond term, bool) decided by an enclosing NeedSplit fork
        self.trace = []         # human-readable branch labels
        self.inst = []          # instantiable universally quantified facts: callables i -> z3 Bool
        self.index_terms = []   # index terms at which `inst` facts have been / must be instantiated
        self.ghost = {}         # ghost state (flat keys, e.g. "os.flags")
        self.nd_count = {}      # occurrences of each nondeterministic choice site on this path
        self.seq_inst = {}      # z3 ast id of a mapped sequence -> its element fact (i -> Bool), re-based when it is concatenated

    def clone(self):
        n = State()
        n.env = dict(self.env)
        n.heap = {k: v.clone() for k, v in self.heap.items()}
        n.pc = list(self.pc)
        n.facts = list(self.facts)
        n.decided = list(self.decided)
        n.trace = list(self.trace)
        n.inst = list(self.inst)
        n.index_terms = list(self.index_terms)
        n.ghost = dict(self.ghost)
        n.nd_count = dict(self.nd_count)
        n.seq_inst = dict(self.seq_inst)
        return n

    def nd_bool(self, site):
        """a nondeterministic boolean whose name depends only on the choice site and how often it was reached on this
        path, so that re-executing a statement after a NeedSplit fork meets the same constant again"""
        import z3
        k = self.nd_count.get(site, 0)
        self.nd_count[site] = k + 1
        return z3.Bool(f"nd!{site}!{k}")

    def nd_int(self, site):
        import z3
        k = self.nd_count.get(site, 0)
        self.nd_count[site] = k + 1
        return z3.Int(f"nd!{site}!{k}")

    # heap ---------------------------------------------------------------
    def alloc(self, obj):
        oid = next(_oid)
        self.heap[oid] = obj
        return Ref(oid)

    def deref(self, ref):
        return self.heap[ref.oid]

    def fact(self, *fs):
        for f in fs:
            if isinstance(f, (list, tuple)):
                self.fact(*f)
            elif f is True or f is None:
                continue
            else:
                self.facts.append(f)

    def assume(self, *cs):
        for c in cs:
            if c is True or c is None:
                continue
            if c is False:
                c = z3.BoolVal(False)
            self.pc.append(c)

    def add_inst(self, fn):
        """Register forall-fact `fn(i)` and instantiate it at every known index term."""
        self.inst.append(fn)
        for it in self.index_terms:
            self.fact(fn(it))

    def add_index(self, it):
        for known in self.index_terms:
            if known.eq(it):
                return
        self.index_terms.append(it)
        for fn in self.inst:
            self.fact(fn(it))

    def hyps(self):
        return list(self.pc) + list(self.facts)
