"""Path state of the symbolic executor: environment, heap (mutable lists/dicts/objects with
identity, so aliasing is modelled), path condition, ground facts, decided conditions."""
import itertools
import z3
from .values import ListV, DictV, ObjV, Ref

_oid = itertools.count(1)


class State:
    def __init__(self):
        self.env = {}
        self.heap = {}
        self.pc = []            # assumptions of the path (branch conditions, requires, invariants)
        self.facts = []         # ground lemma instances and callee postconditions
        self.decided = []       # (cond term, bool) decided by an enclosing NeedSplit fork
        self.trace = []         # human-readable branch labels
        self.inst = []          # instantiable universally quantified facts: callables i -> z3 Bool
        self.index_terms = []   # index terms at which `inst` facts have been / must be instantiated
        self.ghost = {}         # per-loop ghost values

    def clone(self):
        n = State()
        n.env = dict(self.env)
        n.heap = {k: v.clone() for k, v in self.heap.items()}
        n.pc = list(self.pc)
        n.facts = list(self.facts)
        n.decided = list(self.decided)
        n.trace = list(self.trace)
        n.inst = list(self.inst)
        n.index_terms = list(self.index_terms)
        n.ghost = dict(self.ghost)
        return n

    # heap ---------------------------------------------------------------
    def alloc(self, obj):
        oid = next(_oid)
        self.heap[oid] = obj
        return Ref(oid)

    def deref(self, ref):
        return self.heap[ref.oid]

    def fact(self, *fs):
        for f in fs:
            if isinstance(f, (list, tuple)):
                self.fact(*f)
            elif f is True or f is None:
                continue
            else:
                self.facts.append(f)

    def assume(self, *cs):
        for c in cs:
            if c is True or c is None:
                continue
            if c is False:
                c = z3.BoolVal(False)
            self.pc.append(c)

    def add_inst(self, fn):
        """Register forall-fact `fn(i)` and instantiate it at every known index term."""
        self.inst.append(fn)
        for it in self.index_terms:
            self.fact(fn(it))

    def add_index(self, it):
        for known in self.index_terms:
            if known.eq(it):
                return
        self.index_terms.append(it)
        for fn in self.inst:
            self.fact(fn(it))

    def hyps(self):
        return list(self.pc) + list(self.facts)
