"""Expression evaluation for the symbolic executor."""
import ast
import z3
from . import terms as T
from .terms import Lemmas
from .values import (Sym, Ref, ListV, DictV, ObjV, SliceV, FuncV, Builtin, ClassV, ContractFn, BoundMethod, OpaqueV,
                     POISON, Poison, Unsupported, PyRaise, NeedSplit, fresh, mk_int, mk_bool, int_term, bool_term,
                     str_term, is_int, SORT_OF_TAG, SEQ_OF_TAG)

BITOR = z3.Function("BITOR", T.I, T.I, T.I)
BUILTINS = {"super", "len", "min", "max", "sum", "all", "any", "sorted", "int", "ord", "isinstance", "issubclass", "slice", "list", "tuple",
            "dict", "range", "zip", "enumerate", "chain", "str", "repr", "hash", "cast", "bool", "type", "getattr",
            "hasattr", "chr", "abs", "print", "set", "iter", "next"}
EXC_NAMES = {"IndexError", "NotImplementedError", "ValueError", "TypeError", "Exception", "KeyError", "AssertionError",
             "OSError", "BlockingIOError", "InterruptedError", "UnicodeDecodeError", "AttributeError", "StopIteration"}
CMP = {"Lt": lambda a, b: a < b, "Gt": lambda a, b: a > b, "LtE": lambda a, b: a <= b, "GtE": lambda a, b: a >= b,
       "Eq": lambda a, b: a == b, "NotEq": lambda a, b: a != b}


class ExprMixin:
    # ------------------------------------------------------------------ dispatch
    def ev(self, n, st):
        m = getattr(self, "e_" + type(n).__name__, None)
        if m is None:
            raise Unsupported(f"expression {type(n).__name__} at line {getattr(n, 'lineno', '?')}")
        return m(n, st)

    def e_Constant(self, n, st):
        return n.value

    def e_Name(self, n, st):
        if n.id == "NotImplemented":
            return NotImplemented
        if n.id in st.env:
            v = st.env[n.id]
            if isinstance(v, Poison):
                raise Unsupported(f"use of havocked variable {n.id} of unknown type")
            return v
        return self.global_name(n.id)

    def global_name(self, name):
        key = self.contract.callee_key(name) if hasattr(self.contract, "callee_key") else None
        if key and key in self.registry:
            return ContractFn(self.registry[key])
        if name in ("FmtStr", "Chunk", "FrozenAttributes", "FSArray", "ChunkSplitter"):
            return ClassV(name)
        if name in EXC_NAMES:
            return ClassV(name)
        if hasattr(self.module, name):
            v = getattr(self.module, name)
            if isinstance(v, (int, str, bytes, bool, float, tuple, frozenset)) or v is None:
                return v
            if isinstance(v, dict) and all(isinstance(k, (str, int, bytes)) for k in v) and \
                    all(isinstance(x, (str, int, bytes, bool)) for x in v.values()):
                return v            # constant table, by value from the real module
            if isinstance(v, (set, frozenset)):
                return frozenset(v)
            import enum as _enum
            import types as _types
            if isinstance(v, type) and issubclass(v, _enum.Enum):
                return v            # an Enum class: its members are plain constants
            if isinstance(v, _types.ModuleType):
                return v
            if isinstance(v, dict) and v and all(callable(x) for x in v.values()):
                return self.module_lambda_table(name)
            inl = getattr(self.contract, "inline", {}) or {}
            if name in inl:
                if isinstance(v, type):
                    return ClassV(name)         # a class whose __init__/__enter__/__exit__ are inlined (calls.construct)
                return self.inline_function(inl[name])
            if name in BUILTINS:
                return Builtin(name)
            if isinstance(v, type):
                return ClassV(name)
            if isinstance(v, _types.FunctionType) and name.startswith("_") and not name.startswith("__") \
                    and getattr(v, "__module__", None) == getattr(self.module, "__name__", ""):
                # a private helper function of the module under verification without a contract of its own (what "extract a helper"
                # leaves behind): its real body is executed in place - still the code that runs
                return self.inline_function(f"{self.module.__name__.split('.')[-1]}:{name}")
            if callable(v):
                return Builtin(name)
            raise Unsupported(f"module global {name} of type {type(v).__name__}")
        if name in BUILTINS:
            return Builtin(name)
        if name in ("int", "str", "bytes", "bool", "float", "dict", "list", "tuple"):
            return ClassV(name)
        raise Unsupported(f"unknown name {name}")

    def e_Tuple(self, n, st):
        return tuple(self.ev(e, st) for e in n.elts)

    def e_List(self, n, st):
        return st.alloc(ListV(items=[self.ev(e, st) for e in n.elts]))

    def e_Dict(self, n, st):
        d = {}
        for k, v in zip(n.keys, n.values):
            if k is None:
                raise Unsupported("dict unpacking display")
            kk = self.ev(k, st)
            if not isinstance(kk, (str, int, bytes)):
                raise Unsupported("symbolic dict key")
            d[kk] = self.ev(v, st)
        return st.alloc(DictV(d))

    def e_JoinedStr(self, n, st):
        parts = []
        for v in n.values:
            if isinstance(v, ast.Constant):
                parts.append(v.value)
            else:
                x = self.ev(v.value, st)
                if isinstance(x, int) and not isinstance(x, bool) and v.conversion == -1 and v.format_spec is None:
                    parts.append(str(x))
                elif isinstance(x, str) and v.conversion == -1 and v.format_spec is None:
                    parts.append(x)
                else:
                    return OpaqueV("message")       # only used as exception/log text (dropped, DESIGN 2.1)
        return "".join(parts)

    def e_Lambda(self, n, st):
        return FuncV(n, st.env)

    def e_Starred(self, n, st):
        raise Unsupported("starred expression outside a call")

    def e_IfExp(self, n, st):
        c = self.truth(self.ev(n.test, st), st)
        if isinstance(c, bool):
            return self.ev(n.body if c else n.orelse, st)
        return self.ev(n.body if self.decide(c, st) else n.orelse, st)

    def e_BoolOp(self, n, st):
        is_and = isinstance(n.op, ast.And)
        last = None
        for i, vn in enumerate(n.values):
            v = self.ev(vn, st)
            last = v
            if i == len(n.values) - 1:
                break
            t = self.truth(v, st)
            if isinstance(t, bool):
                if t != is_and:
                    return v            # short-circuit
                continue
            # symbolic operand: if every operand is bool-valued build a formula, else fork
            rest = n.values[i + 1:]
            if isinstance(v, Sym) and v.tag == "bool" and self._pure_bool_rest(rest, st):
                ts = [t] + [self.truth(self.ev(r, st), st) for r in rest]
                ts = [z3.BoolVal(x) if isinstance(x, bool) else x for x in ts]
                return mk_bool(z3.And(*ts) if is_and else z3.Or(*ts))
            if self.decide(t, st) != is_and:
                return v
        return last

    def _pure_bool_rest(self, rest, st):
        """The remaining operands may be evaluated eagerly only if they cannot raise or fork and are
        boolean; we accept comparisons / boolean combinations / names / not over such."""
        def ok(e):
            if isinstance(e, ast.Compare):
                return all(self._simple(x) for x in [e.left] + e.comparators)
            if isinstance(e, ast.BoolOp):
                return all(ok(v) for v in e.values)
            if isinstance(e, ast.UnaryOp) and isinstance(e.op, ast.Not):
                return ok(e.operand)
            if isinstance(e, ast.Name):
                v = st.env.get(e.id)
                return isinstance(v, bool) or (isinstance(v, Sym) and v.tag == "bool")
            return False
        return all(ok(r) for r in rest)

    def _simple(self, e):
        if isinstance(e, (ast.Name, ast.Constant)):
            return True
        if isinstance(e, ast.Attribute):
            return self._simple(e.value)
        if isinstance(e, ast.BinOp):
            return self._simple(e.left) and self._simple(e.right) and isinstance(e.op, (ast.Add, ast.Sub, ast.BitAnd))
        if isinstance(e, ast.Call) and isinstance(e.func, ast.Name) and e.func.id in ("len", "min", "max"):
            return all(self._simple(a) for a in e.args)
        return False

    def e_UnaryOp(self, n, st):
        v = self.ev(n.operand, st)
        if isinstance(n.op, ast.Not):
            t = self.truth(v, st)
            return (not t) if isinstance(t, bool) else mk_bool(z3.Not(t))
        if isinstance(n.op, ast.USub):
            if isinstance(v, (int, float)) and not isinstance(v, bool):
                return -v
            return mk_int(-int_term(v))
        if isinstance(n.op, ast.UAdd):
            return v
        raise Unsupported("unary operator")

    def _opaque(self, v, st):
        from .values import AbsV, AbsSeq
        if isinstance(v, (OpaqueV, AbsSeq)):
            return True
        return isinstance(v, Ref) and isinstance(st.deref(v), AbsV)

    # ------------------------------------------------------------------ truthiness
    def truth(self, v, st):
        if v is None:
            return False
        from .values import SymDict
        if isinstance(v, Ref) and isinstance(st.deref(v), SymDict):
            return st.deref(v).nonempty
        if self.abstract() and self._opaque(v, st):
            from .values import AbsSeq
            if isinstance(v, AbsSeq):
                return v.n > 0
            if isinstance(v, Ref):
                return st.nd_bool(f"truth@{st.deref(v).kind}")
            return True
        if isinstance(v, (bool, int, float, str, bytes, tuple, dict, frozenset)):
            return bool(v)
        if isinstance(v, Sym):
            if v.tag == "bool":
                return v.t
            if v.tag == "int":
                return v.t != 0
            if v.tag in ("str", "bytes"):
                return z3.Length(v.t) > 0
            if v.tag == "fmtstr":       # FmtStr defines __len__ -> truthiness is len(f) > 0
                xs = T.FmtS.chunks(v.t)
                st.fact(Lemmas.list_basic(xs))
                return T.TOTLEN(xs) > 0
            if v.tag == "chunk":
                return z3.Length(T.ChunkS.s(v.t)) > 0
            if v.tag == "atts":
                return z3.Not(v.t == T.NOATTS)
        if isinstance(v, Ref):
            o = st.deref(v)
            if isinstance(o, ListV):
                if o.items is not None:
                    return len(o.items) > 0
                return z3.Length(o.t) > 0
            if isinstance(o, DictV):
                return len(o.items) > 0
            if isinstance(o, ObjV):
                return True
        if isinstance(v, (OpaqueV, FuncV, ClassV, Builtin, SliceV)):
            return True
        raise Unsupported(f"truthiness of {v!r}")

    # ------------------------------------------------------------------ comparisons
    def abstract(self):
        return bool(getattr(self.contract, "abstract", False))

    def e_Compare(self, n, st):
        left = self.ev(n.left, st)
        parts = []
        for op, rn in zip(n.ops, n.comparators):
            right = self.ev(rn, st)
            if self.abstract() and self._opaque(left, st) or self.abstract() and self._opaque(right, st):
                # abstraction: a comparison involving an opaque value is an unknown boolean (all outcomes are explored)
                parts.append(st.nd_bool(f"cmp@{n.lineno}:{n.col_offset}"))
                left = right
                continue
            parts.append(self.compare(type(op).__name__, left, right, st))
            left = right
            if parts[-1] is False:
                return False
        if all(isinstance(p, bool) for p in parts):
            return all(parts)
        return mk_bool(z3.And(*[z3.BoolVal(p) if isinstance(p, bool) else p for p in parts]))

    def compare(self, o, a, b, st):
        """-> python bool or z3 Bool term"""
        import enum as _enum
        if isinstance(a, _enum.Enum) or isinstance(b, _enum.Enum):
            if o in ("Eq", "Is"):
                return a is b
            if o in ("NotEq", "IsNot"):
                return a is not b
        if o in ("Is", "IsNot") and callable(a) and callable(b) and not isinstance(a, (Sym, Ref)) and not isinstance(b, (Sym, Ref)):
            return (a is b) if o == "Is" else (a is not b)
        if o in ("Is", "IsNot") and ((isinstance(a, Sym) and a.tag == "optint" and b is None) or (isinstance(b, Sym) and b.tag == "optint" and a is None)):
            t = (a if isinstance(a, Sym) else b).t
            r = T.OptInt.is_none(t)
            return r if o == "Is" else z3.Not(r)
        for x in (a, b):
            if isinstance(x, Sym) and x.tag == "optint" and o not in ("Is", "IsNot"):
                if not self.decide(T.OptInt.is_some(x.t), st):
                    raise PyRaise("TypeError")
        if o in ("Is", "IsNot"):
            if a is None or b is None or isinstance(a, bool) or isinstance(b, bool):
                if isinstance(a, Sym) or isinstance(b, Sym):
                    # `v is False` / `v is None` on a symbolic value
                    other, sym = (a, b) if isinstance(b, Sym) else (b, a)
                    if other is None:
                        r = False
                    elif sym.tag == "bool":
                        r = sym.t == z3.BoolVal(other)
                    else:
                        r = False
                else:
                    r = a is b
                if isinstance(r, bool):
                    return r if o == "Is" else not r
                return r if o == "Is" else z3.Not(r)
            if isinstance(a, Ref) and isinstance(b, Ref):
                r = a.oid == b.oid
                return r if o == "Is" else not r
            if isinstance(a, ClassV) and isinstance(b, ClassV):
                r = a.name == b.name
                return r if o == "Is" else not r
            raise Unsupported("`is` on non-None values")
        if o in ("In", "NotIn"):
            r = self.contains(b, a, st)
            if isinstance(r, bool):
                return r if o == "In" else not r
            return r if o == "In" else z3.Not(r)
        if a is None or b is None:
            if o == "Eq":
                return a is None and b is None and True or (False if (a is None) != (b is None) and not isinstance(a, Sym) and not isinstance(b, Sym) else self._eq_none(a, b))
            if o == "NotEq":
                r = self.compare("Eq", a, b, st)
                return (not r) if isinstance(r, bool) else z3.Not(r)
            raise PyRaise("TypeError")
        conc = (int, float, str, bytes, bool, tuple)
        if isinstance(a, conc) and isinstance(b, conc):
            try:
                return CMP[o](a, b)
            except TypeError:
                raise PyRaise("TypeError")
        if (is_int(a) or isinstance(a, bool)) and (is_int(b) or isinstance(b, bool)):
            return CMP[o](int_term(a), int_term(b))
        if isinstance(a, Sym) and a.tag == "bool" and isinstance(b, (Sym, bool)) and o in ("Eq", "NotEq"):
            r = bool_term(a) == bool_term(b)
            return r if o == "Eq" else z3.Not(r)
        sa = isinstance(a, (str, bytes)) or (isinstance(a, Sym) and a.tag in ("str", "bytes"))
        sb = isinstance(b, (str, bytes)) or (isinstance(b, Sym) and b.tag in ("str", "bytes"))
        if sa and sb and o in ("Eq", "NotEq"):
            r = str_term(a) == str_term(b)
            return r if o == "Eq" else z3.Not(r)
        if isinstance(a, Sym) and isinstance(b, Sym) and a.tag == b.tag == "attval" and o in ("Eq", "NotEq"):
            r = self.attval_eq(a, b)
            return r if o == "Eq" else z3.Not(r)
        if isinstance(a, Sym) and isinstance(b, Sym) and a.tag == b.tag and o in ("Eq", "NotEq"):
            if a.tag in ("fmtstr", "chunk"):
                return self.dunder_eq(o, a, b, st)
            r = a.t == b.t
            return r if o == "Eq" else z3.Not(r)
        if isinstance(a, Sym) and a.tag == "fmtstr" and o in ("Eq", "NotEq"):
            return self.dunder_eq(o, a, b, st)
        if o in ("Eq", "NotEq") and isinstance(a, Sym) and a.tag in ("line", "optline") and isinstance(b, Sym) and b.tag in ("line", "optline"):
            # FmtStr.__eq__ (C19): equal iff same terminal string = same line identity; None (-1) never equals a line
            r = a.t == b.t
            return r if o == "Eq" else z3.Not(r)
        if o in ("Eq", "NotEq") and (isinstance(a, (OpaqueV, ClassV)) or isinstance(b, (OpaqueV, ClassV))):
            r = a is b
            return r if o == "Eq" else not r
        if o in ("Eq", "NotEq") and type(a) != type(b) and not isinstance(a, Sym) and not isinstance(b, Sym):
            return o == "NotEq"
        raise Unsupported(f"comparison {o} of {a!r} and {b!r}")

    def _eq_none(self, a, b):
        return a is None and b is None

    def contains(self, container, item, st):
        if isinstance(container, (dict, frozenset, set, tuple, list)) and not isinstance(item, (Sym, Ref)):
            return item in container
        if isinstance(container, (str, bytes)) and isinstance(item, (str, bytes)):
            return item in container
        if isinstance(container, (dict, frozenset, set, tuple)) and isinstance(item, Sym):
            keys = list(container.keys() if isinstance(container, dict) else container)
            if item.tag == "int":
                ks = [k for k in keys if isinstance(k, int) and not isinstance(k, bool)]
                return z3.Or(*[item.t == k for k in ks]) if ks else False
            if item.tag in ("str", "bytes"):
                want = str if item.tag == "str" else bytes
                ks = [k for k in keys if isinstance(k, want)]
                n = z3.simplify(z3.Length(item.t))
                if z3.is_int_value(n):          # only keys of the same length can be equal
                    ks = [k for k in ks if len(k) == n.as_long()]
                if not ks:
                    return False
                return z3.Or(*[item.t == str_term(k) for k in ks]) if len(ks) > 1 else item.t == str_term(ks[0])
            return False
        if isinstance(container, Sym) and container.tag == "atts" and (isinstance(item, str) or (isinstance(item, Sym) and item.tag == "attkey")):
            k = self.att_key_index(item)        # key in atts: the stored value is not the "absent" encoding
            return False if k is None else T.att_field_at(container.t, k) != 0
        from .values import SymDict
        if isinstance(container, Ref) and isinstance(st.deref(container), SymDict) and is_int(item):
            d = st.deref(container)
            idx = z3.simplify(int_term(item) + d.shift)
            st.add_index(idx)       # quantified facts about the dict are instantiated where it is read
            return z3.Select(d.present, idx)
        if self.abstract() and self._opaque(container, st):
            return st.nd_bool(f"in@{st.deref(container).kind if isinstance(container, Ref) else 'seq'}")
        if isinstance(container, Ref):
            o = st.deref(container)
            if isinstance(o, DictV):
                if isinstance(item, (str, int, bytes)):
                    return item in o.items
                if not o.items:
                    return False
                raise Unsupported("symbolic key in heap dict")
            if isinstance(o, ListV) and o.items is not None and not isinstance(item, (Sym, Ref)):
                if all(not isinstance(x, (Sym, Ref)) for x in o.items):
                    return item in o.items
            if isinstance(o, ListV) and o.items is not None and isinstance(item, Sym) and item.tag in ("int", "attval") \
                    and all(isinstance(x, int) and not isinstance(x, bool) for x in o.items):
                # a symbolic number in a concrete list of numbers (x in list(TABLE.values()))
                return z3.Or(*[item.t == x for x in o.items]) if o.items else False
        if isinstance(container, (str, Sym)) and (isinstance(item, str) or (isinstance(item, Sym) and item.tag == "str")):
            return z3.Contains(str_term(container), str_term(item))
        raise Unsupported(f"`in` on {container!r}")

    # ------------------------------------------------------------------ arithmetic
    def e_BinOp(self, n, st):
        a = self.ev(n.left, st)
        b = self.ev(n.right, st)
        return self.binop(type(n.op).__name__, a, b, st)

    def binop(self, op, a, b, st):
        for x in (a, b):
            if isinstance(x, Sym) and x.tag == "optint":
                if not self.decide(T.OptInt.is_some(x.t), st):
                    raise PyRaise("TypeError")      # arithmetic on None
        num = (int, float)
        if isinstance(a, num) and isinstance(b, num) and not isinstance(a, bool) and not isinstance(b, bool):
            try:
                return {"Add": lambda: a + b, "Sub": lambda: a - b, "Mult": lambda: a * b, "FloorDiv": lambda: a // b,
                        "Mod": lambda: a % b, "BitAnd": lambda: a & b, "BitOr": lambda: a | b, "Div": lambda: a / b,
                        "Pow": lambda: a ** b, "LShift": lambda: a << b, "RShift": lambda: a >> b}[op]()
            except ZeroDivisionError:
                raise PyRaise("ZeroDivisionError")
            except KeyError:
                raise Unsupported(f"operator {op}")
        if (is_int(a) or isinstance(a, bool)) and (is_int(b) or isinstance(b, bool)):
            ta, tb = int_term(a), int_term(b)
            if op == "Add":
                return mk_int(ta + tb)
            if op == "Sub":
                return mk_int(ta - tb)
            if op == "Mult":
                return mk_int(ta * tb)
            if op in ("FloorDiv", "Mod"):
                if isinstance(b, int):
                    if b == 0:
                        raise PyRaise("ZeroDivisionError")
                    if b > 0:       # SMT div/mod are floor-like for a positive divisor (Python semantics)
                        return mk_int(ta / tb if op == "FloorDiv" else ta % tb)
                raise Unsupported("floor division by a symbolic or negative divisor")
            if op == "Div" and isinstance(b, int) and not isinstance(b, bool) and b == 1:
                # true division by 1 yields float(a); int(float(a)) == a exactly while |a| < 2**53 (machine arithmetic treated as
                # mathematical: obligation below)
                self.oblige(st, "safe.float_exact", z3.And(ta < 2 ** 53, ta > -(2 ** 53)), label="int -> float -> int is exact below 2**53")
                return mk_int(ta)
            if op == "BitAnd" and isinstance(b, int) and b >= 0 and isinstance(a, Sym):
                return self.bitand_const(a, b, st)
            if op == "BitOr":
                return mk_int(BITOR(ta, tb))        # uninterpreted: only its being a function of the operands is used
            raise Unsupported(f"int operator {op}")
        # str / bytes
        if isinstance(a, (str, bytes)) and isinstance(b, type(a)) and op == "Add":
            return a + b
        if isinstance(a, str) and isinstance(b, int) and not isinstance(b, bool) and op == "Mult":
            return a * b
        if isinstance(a, str) and op == "Mod":
            return OpaqueV("message")       # %-formatted text: only ever exception/log text in the subset
        sa = isinstance(a, (str, bytes)) or (isinstance(a, Sym) and a.tag in ("str", "bytes"))
        sb = isinstance(b, (str, bytes)) or (isinstance(b, Sym) and b.tag in ("str", "bytes"))
        if sa and sb and op == "Add":
            tag = "bytes" if (isinstance(a, bytes) or (isinstance(a, Sym) and a.tag == "bytes")) else "str"
            ta, tb = str_term(a), str_term(b)
            r = Sym(tag, z3.Concat(ta, tb), origin=("concat", ta, tb))
            from .contract import PLAIN
            if tag == "str":
                st.fact(Lemmas.str_concat_cells(r.t, [ta, tb], T.NOATTS))
            for x, y in ((a, tb), (b, ta)):
                if isinstance(x, Sym) and x.origin and x.origin[0] == "spaces":
                    st.fact(PLAIN(r.t) == PLAIN(y))      # blanks next to a string cannot create or destroy "ESC["
            return r
        if isinstance(a, str) and is_int(b) and op == "Mult":
            if a == " ":
                from . import spec as S
                k = int_term(b)
                r = T.SPACES(k)
                st.fact(z3.Length(r) == z3.If(k > 0, k, 0), T.CELLS(r, T.NOATTS) == S.blanks_term(k))
                st.fact(S.drain())
                return Sym("str", r, origin=("spaces", k))
            raise Unsupported("repetition of a string other than ' ' by a symbolic count")
        # lists
        if isinstance(a, Ref) and isinstance(b, Ref) and op == "Add":
            la, lb = st.deref(a), st.deref(b)
            if isinstance(la, ListV) and isinstance(lb, ListV):
                return self.list_concat(la, lb, st)
        if isinstance(a, tuple) and isinstance(b, tuple) and op == "Add":
            return a + b
        # FmtStr / Chunk operators dispatch to the callee contracts
        r = self.dunder_binop(op, a, b, st)
        if r is not NotImplemented:
            return r
        raise Unsupported(f"operator {op} on {a!r}, {b!r}")

    def note_plain(self, term, st):
        pass

    def bitand_const(self, a, mask, st):
        """o & mask for 0 <= o < 256 (the only use: UTF-8 lead-byte tests).  Encoded through bit-vectors."""
        bv = z3.Int2BV(a.t, 16)
        r = z3.BV2Int(bv & z3.BitVecVal(mask, 16))
        self.oblige(st, "safe.bitand_range", z3.And(a.t >= 0, a.t < 65536), label="operand fits the bit-vector width")
        return mk_int(r)

    # ------------------------------------------------------------------ lists
    def list_term(self, lv, st, want_tag=None):
        """z3 Seq term for a list value (converting a concrete display of symbolic elements)."""
        if lv.items is None:
            return lv.t, lv.tag
        items = lv.items
        if not items:
            tag = want_tag or lv.tag or "chunk"
            e = z3.Empty(SEQ_OF_TAG[tag])
            if tag == "chunk":
                st.fact(Lemmas.list_empty(e))
            return e, tag
        tag = want_tag
        units = []
        for x in items:
            if isinstance(x, Sym) and x.tag in SEQ_OF_TAG:
                tag = tag or x.tag
                if x.tag != tag:
                    raise Unsupported("heterogeneous list")
                u = z3.Unit(x.t)
                if tag == "chunk":
                    st.fact(Lemmas.list_unit(u, x.t))
                units.append(u)
            elif isinstance(x, int) and not isinstance(x, bool) and (tag in (None, "int")):
                tag = "int"
                units.append(z3.Unit(z3.IntVal(x)))
            else:
                raise Unsupported(f"list element {x!r} has no sequence sort")
        t = units[0] if len(units) == 1 else z3.Concat(*units)
        if tag == "chunk" and len(units) > 1:
            st.fact(Lemmas.list_concat(t, units))
        return t, tag

    def list_concat(self, la, lb, st):
        if la.items is not None and lb.items is not None:
            return st.alloc(ListV(items=la.items + lb.items))
        tag = la.tag if la.items is None else lb.tag
        ta, _ = self.list_term(la, st, tag)
        tb, _ = self.list_term(lb, st, tag)
        t = z3.Concat(ta, tb)
        if tag == "chunk":
            st.fact(Lemmas.list_concat(t, [ta, tb]))
        self.rebase_seq_inst(st, [ta, tb])
        self.nth_facts_concat(st, t, [ta, tb], tag)
        return st.alloc(ListV(tag=tag, t=t))

    def nth_facts_concat(self, st, t, parts, tag):
        """element-wise reading of a concatenation of row lists (instantiable; spares the solvers the sequence reasoning)"""
        if tag != "fmtstr":
            return
        st.fact(z3.Length(t) == z3.Sum(*[z3.Length(p) for p in parts]) if len(parts) > 1 else z3.Length(t) == z3.Length(parts[0]))
        prefix = z3.IntVal(0)
        for p in parts:
            st.add_inst(lambda i, p=p, prefix=prefix, t=t: z3.Implies(z3.And(i >= prefix, i < prefix + z3.Length(p)), t[i] == p[z3.simplify(i - prefix)]))
            prefix = z3.simplify(prefix + z3.Length(p))

    def rebase_seq_inst(self, st, parts):
        """element facts of a mapped sequence that becomes part of a concatenation: element i of the whole is element
        i - |prefix| of the part, so the part's facts are also instantiated at (every known index) - |prefix|"""
        prefix = z3.IntVal(0)
        for p in parts:
            f = st.seq_inst.get(p.get_id())
            if f is not None and not z3.is_int_value(z3.simplify(prefix)) or (f is not None and z3.simplify(prefix).as_long() != 0):
                st.add_inst(lambda i, f=f, prefix=prefix: f(z3.simplify(i - prefix)))
            prefix = prefix + z3.Length(p)

    def mutate_check(self, lv, st, what):
        if lv.borrowed:
            # in-place mutation of a run list owned by a pre-existing FmtStr: frame violation (C13-F1)
            self.oblige(st, "frame", z3.BoolVal(False), label=f"in-place {what} on an operand's run list")

    def _list_hint(self, ref, st):
        """element kind the sidecar declares for a local list (Loop.types: name -> tag)"""
        for nm, v in st.env.items():
            if isinstance(v, Ref) and v.oid == ref.oid:
                for spec in (self.contract.loops or {}).values():
                    t = (getattr(spec, "types", None) or {}).get(nm)
                    if isinstance(t, str):
                        return t
        return None

    def _char_list_hint(self, ref, st):
        """a local list that the sidecar declares to be a list of 1-character strings (spec.types name -> 'char')"""
        for nm, v in st.env.items():
            if isinstance(v, Ref) and v.oid == ref.oid:
                for spec in (self.contract.loops or {}).values():
                    if (getattr(spec, "types", None) or {}).get(nm) == "char":
                        return True
        return False

    def _to_char_list(self, lv, st):
        """concrete list of 1-character strings -> the string of their concatenation"""
        acc = z3.Empty(T.SI)
        for x in lv.items:
            if not (isinstance(x, (str, Sym)) and (isinstance(x, str) or x.tag == "str")):
                raise Unsupported("non-string element in a character list")
            xt = str_term(x)
            if not z3.is_true(z3.simplify(z3.Length(xt) == 1)):
                raise Unsupported("element of a character list is not known to be one character")
            new = z3.Concat(acc, xt)
            st.fact(Lemmas.chars_unit(xt, xt[0]), Lemmas.chars_concat(new, acc, xt))
            acc = new
        st.fact(T.BASEF(z3.Empty(T.SI)) == z3.Empty(T.SI), T.WCS(z3.Empty(T.SI)) == 0)
        lv.items, lv.tag, lv.t, lv.origin = None, "char", acc, None

    def list_append(self, ref, x, st):
        lv = st.deref(ref)
        self.mutate_check(lv, st, "append")
        if lv.items is not None and isinstance(x, Sym) and x.tag == "str" and self._char_list_hint(ref, st):
            self._to_char_list(lv, st)
        if lv.items is not None and not lv.items and isinstance(x, Sym) and x.tag == "bytes" and self._list_hint(ref, st) == "byte1":
            lv.items, lv.tag, lv.t, lv.origin = None, "byte1", z3.Empty(T.SI), None
        if lv.items is None and lv.tag == "byte1":
            if not (isinstance(x, (bytes, Sym)) and (isinstance(x, bytes) or x.tag == "bytes")):
                raise Unsupported(f"append of {x!r} to a list of single bytes")
            xt = str_term(x)
            if not self.decide(z3.Length(xt) == 1, st):
                raise Unsupported("append of a bytes value that is not one byte long to a list of single bytes")
            lv.t, lv.origin = z3.Concat(lv.t, xt), None
            return
        if lv.items is None and lv.tag == "char":
            if not (isinstance(x, (str, Sym)) and (isinstance(x, str) or x.tag == "str")):
                raise Unsupported(f"append of {x!r} to a character list")
            xt = str_term(x)
            if not self.decide(z3.Length(xt) == 1, st):
                raise Unsupported("append of a string that is not one character to a character list")
            new = z3.Concat(lv.t, xt)
            st.fact(Lemmas.chars_unit(xt, xt[0]), Lemmas.chars_concat(new, lv.t, xt))
            lv.t, lv.origin = new, None
            return
        if lv.items is not None:
            lv.items.append(x)
            return
        if not (isinstance(x, Sym) and x.tag == lv.tag) and not (lv.tag == "int" and is_int(x)):
            raise Unsupported(f"append of {x!r} to a list of {lv.tag}")
        xt = int_term(x) if lv.tag == "int" else x.t
        u = z3.Unit(xt)
        t = z3.Concat(lv.t, u)
        if lv.tag == "chunk":
            st.fact(Lemmas.list_unit(u, xt), Lemmas.list_concat(t, [lv.t, u]))
        lv.t, lv.origin = t, None

    def list_extend(self, ref, other, st):
        lv = st.deref(ref)
        self.mutate_check(lv, st, "extend")
        if (isinstance(other, str) or (isinstance(other, Sym) and other.tag == "str")):
            # list.extend(string): one element per character
            if lv.items is not None and self._char_list_hint(ref, st):
                self._to_char_list(lv, st)
            if lv.items is None and lv.tag == "char":
                ot = str_term(other)
                new = z3.Concat(lv.t, ot)
                if isinstance(other, Sym) and other.origin and other.origin[0] == "spaces":
                    st.fact(Lemmas.chars_spaces(ot, other.origin[1]))
                st.fact(Lemmas.chars_concat(new, lv.t, ot))
                lv.t, lv.origin = new, None
                return
            raise Unsupported("extend of a list with a string")
        if isinstance(other, Ref):
            ov = st.deref(other)
        elif isinstance(other, tuple):
            ov = ListV(items=list(other))
        else:
            raise Unsupported(f"extend with {other!r}")
        if lv.items is not None and ov.items is not None:
            lv.items.extend(ov.items)
            return
        tag = lv.tag if lv.items is None else ov.tag
        ta, _ = self.list_term(lv, st, tag)
        tb, _ = self.list_term(ov, st, tag)
        t = z3.Concat(ta, tb)
        if tag == "chunk":
            st.fact(Lemmas.list_concat(t, [ta, tb]))
        self.rebase_seq_inst(st, [ta, tb])
        self.nth_facts_concat(st, t, [ta, tb], tag)
        lv.items, lv.tag, lv.t, lv.origin = None, tag, t, None

    def list_len(self, lv, st):
        if lv.items is not None:
            return len(lv.items)
        if lv.tag == "chunk":
            st.fact(Lemmas.list_basic(lv.t))
        return mk_int(z3.Length(lv.t))

    def elem_value(self, tag, term):
        if tag == "int":
            return mk_int(term)
        if tag == "byte1":
            return Sym("bytes", z3.Unit(term))
        if tag == "char":
            return Sym("str", z3.Unit(term))
        return Sym(tag, term)

    def list_index(self, lv, idx, st):
        if lv.items is not None:
            if isinstance(idx, int):
                try:
                    return lv.items[idx]
                except IndexError:
                    raise PyRaise("IndexError")
            raise Unsupported("symbolic index into a concrete list")
        n = z3.Length(lv.t)
        i = int_term(idx)
        if isinstance(idx, int) and idx < 0:
            pos = n + idx
        else:
            pos = i
        ok = z3.And(pos >= 0, pos < n) if not isinstance(idx, int) else (pos >= 0 if idx < 0 else pos < n)
        if "IndexError" in self.contract.raises:
            if not self.decide(ok, st):
                raise PyRaise("IndexError")
        else:
            self.oblige(st, "safe.index", ok, label="list index in range")
            st.assume(ok)
        if lv.origin is not None:
            base, off = lv.origin
            return self.elem_value(lv.tag, base[off + pos])
        return self.elem_value(lv.tag, lv.t[pos])

    def list_slice(self, lv, lo, hi, st):
        if lv.items is not None and all(x is None or isinstance(x, int) for x in (lo, hi)):
            return st.alloc(ListV(items=lv.items[lo:hi]))
        t, tag = self.list_term(lv, st)
        n = z3.Length(t)
        a = T.py_bound(None if lo is None else int_term(lo), n, z3.IntVal(0))
        b = T.py_bound(None if hi is None else int_term(hi), n, n)
        r = z3.If(b > a, z3.SubSeq(t, a, b - a), z3.Empty(t.sort()))
        out = ListV(tag=tag, t=r, origin=(t, a) if lv.origin is None else (lv.origin[0], lv.origin[1] + a))
        st.fact(z3.Length(r) == z3.If(b > a, b - a, 0))
        if tag == "chunk":
            st.fact(Lemmas.list_basic(r))
        if tag == "fmtstr":
            st.add_inst(lambda i, r=r, t=t, a=a: z3.Implies(z3.And(i >= 0, i < z3.Length(r)), r[i] == t[z3.simplify(a + i)]))
        return st.alloc(out)

    # ------------------------------------------------------------------ subscripts
    def e_Subscript(self, n, st):
        v = self.ev(n.value, st)
        if isinstance(n.slice, ast.Slice):
            lo = None if n.slice.lower is None else self.ev(n.slice.lower, st)
            hi = None if n.slice.upper is None else self.ev(n.slice.upper, st)
            if n.slice.step is not None:
                raise Unsupported("extended slice")
            return self.get_slice(v, lo, hi, st)
        idx = self.ev(n.slice, st)
        return self.get_item(v, idx, st)

    def get_slice(self, v, lo, hi, st):
        from .values import AbsSeq
        if isinstance(v, AbsSeq):
            a = T.py_bound(None if lo is None else int_term(lo), v.n, z3.IntVal(0))
            b = T.py_bound(None if hi is None else int_term(hi), v.n, v.n)
            if lo is None:
                return AbsSeq(z3.If(b > 0, b, 0), v.elem)           # a prefix keeps its elements
            off = a if v.offset is None else v.offset + a
            if v.elem is not None:
                return AbsSeq(z3.If(b > a, b - a, 0), lambda k, a=a, e=v.elem: e(a + k), offset=off)
            return AbsSeq(z3.If(b > a, b - a, 0), offset=off)
        if isinstance(v, Sym) and v.tag == "line" and lo is None and hi is not None:
            w = int_term(hi)
            st.fact(T.line_facts(v.t, w))
            return Sym("line", T.CLIPID(v.t, w))
        if isinstance(v, (str, bytes, tuple)) and all(x is None or isinstance(x, int) for x in (lo, hi)):
            return v[lo:hi]
        if isinstance(v, (str, bytes)) or (isinstance(v, Sym) and v.tag in ("str", "bytes")):
            tag = "bytes" if isinstance(v, bytes) or (isinstance(v, Sym) and v.tag == "bytes") else "str"
            base = str_term(v)
            nlen = z3.Length(base)
            a = T.py_bound(None if lo is None else int_term(lo), nlen, z3.IntVal(0))
            b = T.py_bound(None if hi is None else int_term(hi), nlen, nlen)
            r = z3.If(b > a, z3.SubSeq(base, a, b - a), z3.Empty(T.SI))
            return Sym(tag, r, origin=("slice", base, a, b))
        if isinstance(v, Ref) and isinstance(st.deref(v), ListV):
            return self.list_slice(st.deref(v), lo, hi, st)
        if isinstance(v, Sym) and v.tag == "fmtstr":
            return self.call_method_contract(v, "__getitem__", [SliceV(lo, hi, None)], {}, st)
        raise Unsupported(f"slice of {v!r}")

    def get_item(self, v, idx, st):
        if isinstance(v, (str, bytes, tuple, dict)) and not isinstance(idx, (Sym, Ref, SliceV)):
            try:
                r = v[idx]
            except IndexError:
                raise PyRaise("IndexError")
            except KeyError:
                raise PyRaise("KeyError")
            return r
        if isinstance(v, dict) and isinstance(idx, Sym):
            return self.table_lookup(v, idx, st)
        if isinstance(v, Ref):
            o = st.deref(v)
            if isinstance(o, ListV):
                if isinstance(idx, SliceV):
                    return self.list_slice(o, idx.start, idx.stop, st)
                return self.list_index(o, idx, st)
            if isinstance(o, DictV):
                if isinstance(idx, (str, int, bytes)):
                    if idx in o.items:
                        return o.items[idx]
                    raise PyRaise("KeyError")
                raise Unsupported("symbolic key into a heap dict")
            from .values import AbsV
            if isinstance(o, AbsV):
                return st.alloc(AbsV(fresh("absitem", T.I), parent=v, kind=o.kind + "[]"))
        if isinstance(v, Sym) and v.tag in ("str", "bytes") and (is_int(idx)):
            n = z3.Length(v.t)
            i = int_term(idx)
            pos = z3.If(i < 0, i + n, i)
            ok = z3.And(pos >= 0, pos < n)
            if not self.decide(ok, st):
                raise PyRaise("IndexError")
            if v.tag == "bytes":
                return mk_int(v.t[pos])
            return Sym("str", z3.SubSeq(v.t, pos, 1), origin=("slice", v.t, pos, pos + 1))
        if isinstance(v, Sym) and v.tag == "fmtstr":
            return self.call_method_contract(v, "__getitem__", [idx], {}, st)
        if isinstance(v, Sym) and v.tag == "atts":
            return self.atts_getitem(v, idx, st)
        from .values import SymAtts
        if isinstance(v, Ref) and isinstance(st.deref(v), SymAtts):
            return self.atts_getitem(Sym("atts", st.deref(v).t), idx, st)
        raise Unsupported(f"subscript of {v!r} with {idx!r}")

    def att_key_index(self, idx):
        """index term (into ATT_KEYS) of an attribute key: a concrete name or a symbolic key"""
        if isinstance(idx, str):
            if idx not in T.ATT_KEYS:
                return None
            return z3.IntVal(T.ATT_KEYS.index(idx))
        if isinstance(idx, Sym) and idx.tag == "attkey":
            return idx.t
        raise Unsupported(f"attribute key {idx!r}")

    def atts_getitem(self, v, idx, st, default=KeyError):
        """atts[key] / atts.get(key, default): the stored value as Sym 'attval' (an Int of the Atts encoding, 0 = absent)"""
        k = self.att_key_index(idx)
        if k is None:
            if default is KeyError:
                raise PyRaise("KeyError")
            return default
        val = T.att_field_at(v.t, k)
        known_present = isinstance(idx, Sym) and idx.origin is not None and idx.origin[0] == "keyof" and idx.origin[1].eq(v.t)
        if default is KeyError:
            if not known_present and not self.decide(val != 0, st):
                raise PyRaise("KeyError")
            return Sym("attval", val)
        if known_present:
            return Sym("attval", val)
        return Sym("attval", val, origin=("default", default))

    def attval_eq(self, a, b):
        """== of two attribute values; a value read with .get(key, default) is the default when absent (term 0)"""
        def parts(x):
            if isinstance(x, Sym) and x.tag == "attval":
                return x.t, (x.origin[1] if x.origin and x.origin[0] == "default" else None), bool(x.origin and x.origin[0] == "default")
            raise Unsupported(f"comparison of an attribute value with {x!r}")
        ta, da, ha = parts(a)
        tb, db, hb = parts(b)
        for d in (da, db):
            if d is not None and not isinstance(d, str):
                raise Unsupported("attribute default that could equal an attribute value")
        if ha and hb:
            raise Unsupported("comparison of two defaulted attribute reads")
        # a stored value is never 0; a str default never equals a stored value (ints / booleans)
        conj = [ta == tb]
        if ha:
            conj.append(ta != 0)
        if hb:
            conj.append(tb != 0)
        return z3.And(*conj) if len(conj) > 1 else conj[0]

    def table_lookup(self, table, key, st):
        """constant table indexed by a symbolic key: fork per feasible key (finite)."""
        cands = [k for k in table if (isinstance(k, int) and not isinstance(k, bool) and key.tag == "int")
                 or (isinstance(k, str) and key.tag == "str") or (isinstance(k, bytes) and key.tag == "bytes")]
        if key.tag in ("str", "bytes"):
            n = z3.simplify(z3.Length(key.t))
            if z3.is_int_value(n):
                cands = [k for k in cands if len(k) == n.as_long()]
        if len(cands) > 12 and all(isinstance(table[k], str) for k in cands):
            # large constant table with string values: the value as an if-then-else term; KeyError when no key matches
            present = z3.Or(*[key.t == str_term(k) for k in cands])
            if not self.decide(present, st):
                raise PyRaise("KeyError")
            term = str_term(table[cands[-1]])
            for k in reversed(cands[:-1]):
                term = z3.If(key.t == str_term(k), str_term(table[k]), term)
            return Sym("str", term)
        for k in cands:
            c = key.t == (z3.IntVal(k) if key.tag == "int" else str_term(k))
            if self.decide(c, st):
                return table[k]
        raise PyRaise("KeyError")

    def set_item(self, obj, slice_node, v, st):
        from .values import SymAtts
        if isinstance(obj, Ref) and isinstance(st.deref(obj), (DictV, SymAtts)):
            k0 = self.ev(slice_node, st)
            if isinstance(k0, Sym) and k0.tag == "attkey":
                o = st.deref(obj)
                if isinstance(o, DictV):
                    if o.items:
                        raise Unsupported("symbolic attribute key stored into a non-empty concrete dict")
                    o = SymAtts(T.NOATTS)
                    st.heap[obj.oid] = o
                if not (isinstance(v, Sym) and v.tag == "attval" and not (v.origin and v.origin[0] == "default")):
                    raise Unsupported(f"value {v!r} stored under a symbolic attribute key")
                o.t = T.att_store(o.t, k0.t, v.t)
                return
            if isinstance(st.deref(obj), SymAtts):
                raise Unsupported("concrete key stored into a symbolic attribute dict")
        if isinstance(obj, Ref):
            o = st.deref(obj)
            if isinstance(o, DictV):
                k = self.ev(slice_node, st)
                if isinstance(k, (str, int, bytes)):
                    o.items[k] = v
                    return
                if getattr(self.contract, "symdict", False) and isinstance(k, Sym) and k.tag == "int" and not o.items:
                    from .values import SymDict
                    st.heap[obj.oid] = SymDict(z3.K(T.I, z3.BoolVal(False)), z3.K(T.I, z3.IntVal(-1)), z3.BoolVal(False))
                    return self.set_item(obj, slice_node, v, st)
                elif self.abstract():
                    from .values import AbsV
                    st.heap[obj.oid] = AbsV(fresh("absdict", T.I), kind="dict")      # contents are no longer tracked
                    return
                raise Unsupported("symbolic key store")
            from .values import SymDict
            if isinstance(o, SymDict):
                k = z3.simplify(int_term(self.ev(slice_node, st)) + o.shift)
                st.add_index(k)
                if v is None:
                    vt = z3.IntVal(-1)
                elif isinstance(v, Sym) and v.tag in ("line", "optline"):
                    vt = v.t
                else:
                    raise Unsupported("symbolic dict value of an unmodelled type")
                o.present = z3.Store(o.present, k, z3.BoolVal(True))
                o.val = z3.Store(o.val, k, vt)
                o.nonempty = z3.BoolVal(True)
                return
            if isinstance(o, ListV) and o.items is not None and not isinstance(slice_node, ast.Slice):
                k = self.ev(slice_node, st)
                if isinstance(k, int):
                    self.mutate_check(o, st, "item assignment")
                    try:
                        o.items[k] = v
                    except IndexError:
                        raise PyRaise("IndexError")
                    return
            if isinstance(o, ListV) and isinstance(slice_node, ast.Slice) and slice_node.step is None and isinstance(v, Ref) \
                    and isinstance(st.deref(v), ListV) and v.oid != obj.oid:
                # lst[:0] = other (insert in front), lst[:] = other (replace), lst[len(lst):] is not recognised
                lo = None if slice_node.lower is None else self.ev(slice_node.lower, st)
                hi = None if slice_node.upper is None else self.ev(slice_node.upper, st)
                if lo in (None, 0) and isinstance(lo, (int, type(None))) and (hi is None or (isinstance(hi, int) and hi == 0)):
                    self.mutate_check(o, st, "slice assignment")
                    ov = st.deref(v)
                    if hi is None:          # whole contents replaced
                        if ov.items is not None:
                            o.items, o.t, o.origin = list(ov.items), None, None
                        else:
                            o.items, o.tag, o.t, o.origin = None, ov.tag, ov.t, None
                        return
                    if o.items is not None and ov.items is not None:
                        o.items[:0] = ov.items
                        return
                    tag = o.tag if o.items is None else ov.tag
                    ta, _ = self.list_term(o, st, tag)
                    tb, _ = self.list_term(ov, st, tag)
                    o.items, o.tag, o.t, o.origin = None, tag, z3.Concat(tb, ta), None
                    return
        from .values import AbsV
        if isinstance(obj, Ref) and isinstance(st.deref(obj), AbsV):
            self.ev(slice_node, st)
            cur = obj
            while cur is not None:          # the object and everything it was taken from get new contents
                o = st.deref(cur)
                o.term = fresh("abs", T.I)
                cur = o.parent
            return
        if isinstance(obj, Sym) and obj.tag in ("fmtstr", "atts"):
            raise PyRaise("Exception")      # FmtStr.__setitem__ / FrozenAttributes.__setitem__ raise (C13-F3)
        raise Unsupported(f"item store on {obj!r}")

    def del_item(self, obj, slice_node, st):
        if isinstance(obj, Ref):
            o = st.deref(obj)
            if isinstance(o, ListV) and isinstance(slice_node, ast.Slice) and slice_node.lower is None and slice_node.upper is None:
                self.mutate_check(o, st, "del [:]")
                o.items, o.t, o.origin = [], None, None
                return
        raise Unsupported("del of a subscript")

    # ------------------------------------------------------------------ comprehensions (subclasses refine)
    def e_ListComp(self, n, st):
        return self.comprehension(n, st, "list")

    def e_GeneratorExp(self, n, st):
        return self.comprehension(n, st, "gen")

    def e_DictComp(self, n, st):
        return self.comprehension(n, st, "dict")
