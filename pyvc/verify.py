"""Driver: real source -> obligations -> back ends -> replay of counter-models (DESIGN 2.1, 2.7)."""
import ast
import importlib
import inspect
import os
import sys
import time
import traceback

import z3

from . import terms as T
from .contract import NS, specval, REGISTRY, Contract
from .state import State
from .symex import Executor
from .solve import to_smt2, solve_all
from .values import Sym, Ref, ListV, SliceV, OpaqueV, Unsupported, fresh
from . import spec as S

REPO = os.environ.get("CURTSIES_REPO", "/repo")


def load_module(modname):
    if REPO not in sys.path:
        sys.path.insert(0, REPO)
    return importlib.import_module("curtsies." + modname)


_AST_CACHE = {}


def find_function(module, qualname):
    path = inspect.getsourcefile(module)
    if path not in _AST_CACHE:
        _AST_CACHE[path] = ast.parse(open(path).read())
    cur = _AST_CACHE[path].body
    node = None
    for part in qualname.split("."):
        cands = [n for n in cur if isinstance(n, (ast.FunctionDef, ast.ClassDef)) and n.name == part]
        if not cands:
            raise LookupError(f"{qualname} not found in {path}")
        node = cands[-1]        # the last definition wins, as in Python (@overload stubs come first)
        cur = node.body
    return node, path


def real_callable(contract):
    module = load_module(contract.module_name)
    obj = module
    parts = contract.qualname.split(".")
    for p in parts[:-1]:
        obj = getattr(obj, p)
    return module, obj, parts[-1]


class Concretizer:
    """model values (python structures from solve._pyval) -> real curtsies objects"""
    ATT_POOL = None

    def __init__(self, model):
        self.model = model

    def lookup(self, term):
        name = term.decl().name()
        return self.model.get(name)

    def int(self, term, _m=None):
        v = self.lookup(term)
        return v if isinstance(v, int) else 0

    @staticmethod
    def _chr(i):
        # the verified functions are parametric in the characters: any injective-enough renaming will do
        if isinstance(i, int):
            return "abcdefghijklmnopqrstuvwxyz"[i % 26]
        return "?"

    def text(self, term, _m=None):
        v = self.lookup(term)
        return self.text_of(v)

    def text_of(self, v):
        if not isinstance(v, list):
            return ""
        return "".join(self._chr(i) for i in v)

    def atts_of(self, v):
        from .terms import ATT_KEYS
        if not (isinstance(v, tuple) and v[0] == "mkatts"):
            return {}
        out = {}
        for k, x in zip(ATT_KEYS, v[1]):
            if not isinstance(x, int) or x == 0:
                continue
            if k == "fg":
                out[k] = 30 + (x % 8)
            elif k == "bg":
                out[k] = 40 + (x % 8)
            else:
                out[k] = (x % 2 == 0)
        return out

    def chunk_of(self, v):
        from curtsies.formatstring import Chunk
        if not (isinstance(v, tuple) and v[0] == "mkchunk"):
            return Chunk("")
        return Chunk(self.text_of(v[1][0]), self.atts_of(v[1][1]))

    def fmt_of(self, v):
        from curtsies.formatstring import FmtStr
        if not (isinstance(v, tuple) and v[0] == "mkfmt"):
            return FmtStr()
        return FmtStr(*[self.chunk_of(c) for c in (v[1][0] if isinstance(v[1][0], list) else [])])

    def fmtstr(self, term, _m=None):
        return self.fmt_of(self.lookup(term))

    def chunk(self, term, _m=None):
        return self.chunk_of(self.lookup(term))

    def itemlist(self, term, _m=None):
        v = self.lookup(term)
        out = []
        for it in (v if isinstance(v, list) else []):
            if isinstance(it, tuple) and it[0] == "item_fmt":
                out.append(self.fmt_of(it[1][0]))
            elif isinstance(it, tuple) and it[0] == "item_str":
                out.append(self.text_of(it[1][0]))
            else:
                out.append(12345)
        return out


def concretize_args(shape, values, model, st0):
    cx = Concretizer(model)
    out = {}
    for p, spec_t in shape.types.items():
        v = values[p]
        if isinstance(v, Ref):
            o = st0.deref(v)
            if isinstance(o, ListV) and o.tag == "item":
                out[p] = cx.itemlist(o.t)
                continue
        out[p] = spec_t.concretize(v, model, cx)
    return out


def describe(v):
    if isinstance(v, slice):
        return f"slice({v.start!r}, {v.stop!r}, {v.step!r})"
    if hasattr(v, "chunks"):
        runs = v.chunks
        if len(runs) > 40:      # a value that large is described by its ends (and a broken function may have made it astronomically large)
            head = ", ".join(f"Chunk({c.s[:40]!r}, {dict(c.atts)!r})" for c in runs[:6])
            tail = ", ".join(f"Chunk({c.s[:40]!r}, {dict(c.atts)!r})" for c in runs[-2:])
            return f"FmtStr({head}, ... {len(runs) - 8} more runs ..., {tail})"
        return "FmtStr(" + ", ".join(f"Chunk({(c.s if len(c.s) <= 200 else c.s[:60] + '...' + str(len(c.s)) + ' characters')!r}, {dict(c.atts)!r})" for c in runs) + ")"
    if isinstance(v, list):
        if len(v) > 40:
            return "[" + ", ".join(describe(x) for x in v[:4]) + f", ... {len(v) - 4} more items]"
        return "[" + ", ".join(describe(x) for x in v) + "]"
    if isinstance(v, str) and len(v) > 400:
        return repr(v[:80]) + f"...({len(v)} characters)"
    return repr(v)


def run_concrete(contract, args):
    """call the real function; -> ('return', value) | ('raise', ClassName)"""
    module, owner, name = real_callable(contract)
    params = contract.params
    vals, kw = [], {}
    for p in params:
        if p.startswith("**"):
            kw.update(args[p[2:]])
        elif p.startswith("*"):
            vals.extend(args[p[1:]])
        else:
            vals.append(args[p])
    try:
        if contract.kind == "property":
            return ("return", getattr(vals[0], name))
        if contract.kind == "method":
            return ("return", getattr(vals[0], name)(*vals[1:], **kw))
        return ("return", getattr(owner, name)(*vals, **kw))
    except Exception as e:
        return ("raise", type(e).__name__)


def check_concrete(contract, args, observe_unchanged=True):
    """run the real function on concrete args and evaluate the contract at run time.
    -> (ok, clause, detail)"""
    import copy
    a = NS(dict(args))
    before = {k: S.cells(v) for k, v in args.items() if hasattr(v, "chunks")}
    before_runs = {k: len(v.chunks) for k, v in args.items() if hasattr(v, "chunks")}
    before_items = {(k, i): (x, S.cells(x), len(x.chunks)) for k, v in args.items() if isinstance(v, (list, tuple))
                    for i, x in enumerate(v) if hasattr(x, "chunks")}
    oc = run_concrete(contract, args)
    for k, b in before.items():
        if len(args[k].chunks) != before_runs[k]:       # (cheap, and first: the operand may have become too large to walk)
            return False, "frame", f"argument {k} changed: it had {before_runs[k]} runs and has {len(args[k].chunks)} after the call"
        if S.cells(args[k]) != b:
            return False, "frame", f"argument {k} changed: {str(b)[:300]} -> {str(S.cells(args[k]))[:300]}"
    for (k, i), (x, b, nruns) in before_items.items():
        # (run count first: an operand whose run list is being extended in place may have grown too large to compare cell by cell)
        if len(x.chunks) != nruns or S.cells(x) != b:
            return False, "frame", f"item {i} of argument {k} changed: {nruns} runs {str(b)[:300]} -> {len(x.chunks)} runs"
    must = [e for e, c in contract.raises.items() if c(a) is True or (not isinstance(c(a), bool) and False)]
    if oc[0] == "raise":
        if oc[1] in contract.raises:
            c = contract.raises[oc[1]](a)
            if c is True:
                return True, "", ""
            return False, f"raises.{oc[1]}", f"raised {oc[1]} although the contract does not allow it for these arguments"
        # subclasses
        return False, "safe.no_raise", f"raised {oc[1]}, not listed in the contract"
    if must:
        return False, f"raises.{must[0]}", f"returned {describe(oc[1])} but the contract requires {must[0]}"
    inc = coherent(oc[1])
    if inc:
        return False, "memo", f"returned value is incoherent: {inc}"
    if contract.ensures is None:
        return True, "", ""
    post = contract.ensures(a, oc[1])
    items = post if isinstance(post, (list, tuple)) else [post]
    for i, f in enumerate(items):
        label = f"post.{i}"
        if isinstance(f, tuple):
            label, f = f
        if callable(f):
            continue        # quantified clause: evaluated by the bounded suites over all indices
        if f is not True:
            return False, label, f"returned {describe(oc[1])}"
    return True, "", ""


def coherent(r):
    """memoised views of a returned FmtStr agree with freshly computed ones (C13-F2, C06 len clause)"""
    if not hasattr(r, "chunks") or not hasattr(r, "_len"):
        return ""
    from curtsies.formatstring import FmtStr
    cs = S.cells(r)
    txt = "".join(c for c, _ in cs)
    try:
        if len(r) != len(cs):
            return f"len()={len(r)} but {len(cs)} characters"
        if r.s != txt:
            return f".s={r.s!r} but characters {txt!r}"
        fresh_v = FmtStr(*r.chunks)
        if str(r) != str(fresh_v):
            return f"str()={str(r)!r} but fresh {str(fresh_v)!r}"
        try:
            fw = fresh_v.width
        except ValueError:
            fw = None
        if fw is not None and r.width != fw:
            return f".width={r.width} but fresh {fw}"
    except Exception as e:
        return f"observation raised {e!r}"
    return ""


class FunctionReport:
    def __init__(self, key):
        self.key = key
        self.obligations = 0
        self.discharged = 0
        self.paths = 0
        self.status = "ok"
        self.seconds = 0.0


def verify(contract, tier, check, budget=None, prefix=None):
    """Verify one function against its contract for every shape; records obligations in `check`.
    Returns FunctionReport."""
    from vlib.report import Obligation
    budget = budget or (20 if tier == "quick" else 120)
    rep = FunctionReport(contract.key)
    t_start = time.time()
    prop = prefix or contract.prop
    module = load_module(contract.module_name)
    try:
        fn, path = find_function(module, contract.qualname)
    except LookupError as e:
        check.add_obligation(Obligation(f"{prop}.{contract.qualname}.lookup", contract.key, "lookup", "-", "undecided", 0.0, str(e)))
        rep.status = "missing"
        return rep
    # decorators: only the ones whose calling convention is modelled may be dropped (DESIGN 2.1 item 3)
    ALLOWED = {"property", "staticmethod", "classmethod", "no_type_check", "overload", "cached_property"}
    bad = [ast.unparse(d) for d in fn.decorator_list
           if not ((isinstance(d, ast.Name) and d.id in ALLOWED) or (isinstance(d, ast.Attribute) and d.attr in ALLOWED))]
    if bad:
        check.add_obligation(Obligation(f"{prop}.{contract.qualname}.decorator", contract.key, "unsupported", "-", "undecided", 0.0,
                                        f"decorator(s) {bad} are not modelled: the function is not under deductive contract in this run"))
        rep.status = "unsupported"
        check.functions[contract.key] = {"obligations": 1, "discharged": 0, "paths": 0, "status": "unsupported-decorator", "shapes": 0}
        return rep
    # Model-assumption obligations (syntactic, decided on the real AST on every run).  The executor treats an `Iterable` parameter
    # as a list and a dict / list result as a value; both are sound only under the conditions checked here.
    CACHING = {"cached_property", "lru_cache", "cache"}
    caching = [ast.unparse(d) for d in fn.decorator_list
               if any(isinstance(n, (ast.Name, ast.Attribute)) and (getattr(n, "id", None) in CACHING or getattr(n, "attr", None) in CACHING)
                      for n in ast.walk(d))]
    if getattr(contract, "fresh_result", False):
        # the result is a mutable container handed to the caller: the function must not retain it (a caching decorator hands the very
        # same object to every caller, so one caller's edit changes what the next one is told)
        oid = f"{prop}.{contract.qualname}.result_not_retained"
        rep.obligations += 1
        if not caching:
            rep.discharged += 1
            check.add_obligation(Obligation(oid, contract.key, "frame", "syntactic (no caching decorator; the body is executed for every call)", "discharged", 0.0))
        else:
            found = False
            probe = getattr(contract, "probe", None)
            for item in (list(probe()) if probe else [])[:3]:
                clause, inputs, detail = item[:3]
                v = check.violation(oid, dict(function=contract.key, **inputs), f"{clause}: {detail}",
                                    replay=item[3] if len(item) > 3 else {"kind": "probe", "contract": contract.key}, found_input=True,
                                    verifier_output={"decorators": caching, "note": "mutable result retained by a caching decorator; failing case from the contract's probe"})
                found = True
                break
            if not found:
                check.refuted_without_input(oid, dict(function=contract.key), f"the mutable result is retained by {caching}",
                                            {"kind": "obligation", "contract": contract.key}, {"decorators": caching})
            check.add_obligation(Obligation(oid, contract.key, "frame", "syntactic", "refuted", 0.0, f"mutable result retained by {caching}"))
    for pname in getattr(contract, "single_pass_params", ()):
        # an Iterable parameter may be a one-pass iterator: the list model is exact only if the body consumes it at most once
        oid = f"{prop}.{contract.qualname}.{pname}_consumed_once"
        loads = [n for n in ast.walk(fn) if isinstance(n, ast.Name) and n.id == pname and isinstance(n.ctx, ast.Load)]
        rep.obligations += 1
        if len(loads) <= 1:
            rep.discharged += 1
            check.add_obligation(Obligation(oid, contract.key, "model", "syntactic (the parameter is read once)", "discharged", 0.0))
        else:
            check.add_obligation(Obligation(oid, contract.key, "model", "syntactic", "undecided", 0.0,
                                            f"`{pname}` is read {len(loads)} times: the list model of the parameter may not be exact for one-pass "
                                            "iterators; decided by the bounded stand-in (join over iterators)"))
    jobs, metas = [], []
    T.EXTRA_VIEWS[0] = bool(getattr(contract, "extra_views", False))
    for shape in contract.shapes:
        st = State()
        values = {}
        try:
            for p in contract.params:
                p = p.lstrip("*")
                values[p] = shape.types[p].fresh(p, st)
            st.env.update(values)
            if getattr(contract, "setup", None) is not None:
                contract.setup(st, values)          # e.g. the symbolic ghost OS state
            st0 = st.clone()
            a = NS({k: specval(v, st, None) for k, v in values.items()})
            a.__dict__["_raw"] = values
            for req in (contract.requires, shape.requires):
                if req is None:
                    continue
                r = req(a)
                for x in (r if isinstance(r, (list, tuple)) else [r]):
                    if callable(x) and not z3.is_expr(x):
                        st.add_inst(x)
                    else:
                        st.assume(x)
            st.fact(S.drain())
            # vacuity guard: the precondition must be satisfiable
            sv = z3.Solver()
            sv.set("timeout", 3000)
            sv.add(*st.pc)
            if sv.check() == z3.unsat:
                check.engine_error(f"{contract.key}[{shape.name}]: contradictory precondition (vacuous)")
                continue
            ex = Executor(fn, module, contract, REGISTRY)
            ex.entry_ns = a
            outs = ex.run(st)
            for qual2 in getattr(contract, "then", ()) or ():
                # protocol run: the next real method is executed on every state the previous one returned from
                fn2, _ = find_function(module, qual2)
                nxt = []
                for s_, oc_ in outs:
                    if oc_[0] != "return":
                        nxt.append((s_, oc_))
                        continue
                    params2 = [p.arg for p in fn2.args.args]
                    variants = [(s_, [None] * (len(params2) - 1))]
                    if qual2.endswith(".__exit__") and len(params2) == 4:
                        # the body may also be left through an exception - of any class: __exit__(type, value, traceback) with
                        # opaque, non-None arguments whose isinstance / issubclass tests go both ways
                        from .values import OpaqueV
                        variants.append((s_.clone(), [OpaqueV("exc_type"), OpaqueV("exc_value"), OpaqueV("exc_tb")]))
                    for sv_, argv in variants:
                        ex2 = Executor(fn2, module, contract, REGISTRY)
                        ex2.entry_ns = a
                        ex2.obligations = ex.obligations
                        ex2.counters = ex.counters
                        sv_.env = {"self": values["self"]}
                        for p, v_ in zip(params2[1:], argv):
                            sv_.env[p] = v_
                        nxt += ex2.run(sv_)
                outs = nxt
        except Unsupported as u:
            check.add_obligation(Obligation(f"{prop}.{contract.qualname}[{shape.name}].unsupported", contract.key,
                                            "unsupported", "-", "undecided", 0.0, f"outside the verified subset: {u}"))
            rep.status = "unsupported"
            rep.obligations += 1
            continue
        except Exception as e:
            # an internal error of the executor on this source is a tool limit, never a verdict: the shape is undecided
            check.add_obligation(Obligation(f"{prop}.{contract.qualname}[{shape.name}].executor_error", contract.key, "unsupported", "-",
                                            "undecided", 0.0, f"executor internal error (treated as outside the subset): {e!r} {traceback.format_exc()[-700:]}"))
            check.note(f"executor internal error on {contract.key}[{shape.name}]: {e!r}")
            rep.status = "unsupported"
            rep.obligations += 1
            continue
        rep.paths += len(outs)
        n_return = 0
        for s, oc in outs:
            if oc[0] == "return":
                n_return += 1
                for exc, cond in contract.raises.items():
                    if cond == "may":
                        continue
                    c = cond(a)
                    if c is False:
                        continue
                    ex.oblige(s, f"raises.{exc}.required", S.Not(c), label="returns normally only when the exception is not due")
                if contract.ensures is not None:
                    try:
                        a.__dict__["final"] = NS({k: specval(v, s, ex) for k, v in values.items()})
                        a.__dict__["final_state"] = s
                        a.__dict__["outcome"] = oc
                        post = contract.ensures(a, specval(oc[1], s, ex))
                    except Unsupported as u:
                        ex.oblige(s, "post.unsupported", z3.BoolVal(False), label=str(u))
                        continue
                    except Exception as e:
                        ex.oblige(s, "post.shape", z3.BoolVal(False), label=f"result has the wrong type for the contract: {e!r}"[:200])
                        continue
                    s.fact(S.drain())
                    for i, f in enumerate(post if isinstance(post, (list, tuple)) else [post]):
                        label = f"{i}"
                        if isinstance(f, tuple):
                            label, f = f
                        if callable(f) and not z3.is_expr(f):
                            j = fresh("j", T.I)
                            s.add_index(j)
                            goal = f(j)
                        else:
                            goal = f
                        ex.oblige(s, "post", goal, label=label)
            elif oc[0] == "raise":
                if contract.raises.get(oc[1]) == "may":
                    # an exception the environment may cause at any time: the postcondition must hold on this exit as well
                    if contract.ensures is not None:
                        a.__dict__["final"] = NS({k: specval(v, s, ex) for k, v in values.items()})
                        a.__dict__["final_state"] = s
                        a.__dict__["outcome"] = oc
                        post = contract.ensures(a, None)
                        s.fact(S.drain())
                        for i, f in enumerate(post if isinstance(post, (list, tuple)) else [post]):
                            label = f"{i}"
                            if isinstance(f, tuple):
                                label, f = f
                            ex.oblige(s, "post@raise", f, label=f"{label} on {oc[1]}")
                elif oc[1] in contract.raises:
                    ex.oblige(s, f"raises.{oc[1]}", contract.raises[oc[1]](a), label="exception only when the contract says so")
                elif oc[1] in (getattr(contract, "raises_allowed", ()) or ()):
                    pass        # an error the contract allows without saying exactly when (its consequences: ensures_on_raise)
                else:
                    ex.oblige(s, "safe.no_raise", z3.BoolVal(False), label=f"unlisted {oc[1]} " + "/".join(s.trace[-3:]))
                if getattr(contract, "ensures_on_raise", None) is not None and contract.raises.get(oc[1]) != "may":
                    # what must hold on EVERY exceptional exit (error atomicity)
                    a.__dict__["final"] = NS({k: specval(v, s, ex) for k, v in values.items()})
                    a.__dict__["final_state"] = s
                    a.__dict__["outcome"] = oc
                    post = contract.ensures_on_raise(a)
                    s.fact(S.drain())
                    for i, f in enumerate(post if isinstance(post, (list, tuple)) else [post]):
                        label = f"{i}"
                        if isinstance(f, tuple):
                            label, f = f
                        if callable(f) and not z3.is_expr(f):
                            j = fresh("j", T.I)
                            s.add_index(j)
                            f = f(j)
                        ex.oblige(s, "post@raise", f, label=f"{label} on {oc[1]}")
        # vacuity guard (cover check): the assumptions collected on the explored exits must be satisfiable, otherwise
        # every obligation on that path "verifies" for the wrong reason.  `unknown` is tolerated (sequence VCs), `unsat` is not.
        covered = 0
        for s_, oc_ in outs[:6]:
            cv = z3.Solver()
            cv.set("timeout", 1500)
            cv.add(*s_.pc)
            cv.add(*s_.facts)
            r_ = cv.check()
            if r_ == z3.unsat:
                check.engine_error(f"{contract.key}[{shape.name}]: contradictory assumptions on the path {'/'.join(s_.trace[-4:])} (vacuous proof)")
            elif r_ == z3.sat:
                covered += 1
        rep.covered = getattr(rep, "covered", 0) + covered
        for ob in ex.obligations:
            oid = f"{prop}.{contract.qualname}[{shape.name}].{ob.name}"
            g = ob.goal
            if isinstance(g, bool) or z3.is_true(z3.simplify(g)):
                if g is True or z3.is_true(z3.simplify(g)):
                    rep.obligations += 1
                    rep.discharged += 1
                    check.add_obligation(Obligation(oid, contract.key, ob.kind, "partial evaluation (goal reduces to true)", "discharged", 0.0))
                    continue
            jobs.append((oid, to_smt2(ob.hyps, ob.goal), budget, 4, tier == "thorough"))
            metas.append((shape, values, st0, ob))
        if not ex.obligations:
            check.engine_error(f"{contract.key}[{shape.name}]: zero obligations generated")
    dump = os.environ.get("PYVC_DUMP")
    if dump:
        os.makedirs(dump, exist_ok=True)
        for (oid, smt2, *_), (_, _, _, ob) in zip(jobs, metas):
            safe = "".join(c if c.isalnum() or c in "._-" else "_" for c in oid)[:150]
            with open(os.path.join(dump, safe + ".smt2"), "w") as f:
                f.write(smt2)
            with open(os.path.join(dump, safe + ".txt"), "w") as f:
                f.write("TRACE " + " / ".join(ob.trace) + "\nGOAL " + str(ob.goal) + "\n")
    results = solve_all(jobs)
    deferred = {}        # shape name -> refuted obligations none of whose counter-models reproduces on the real code
    for res, (shape, values, st0, ob) in zip(results, metas):
        rep.obligations += 1
        oid = res["name"]
        if res["result"] == "unsat":
            rep.discharged += 1
            check.add_obligation(Obligation(oid, contract.key, ob.kind, res["solver"], "discharged", round(res["seconds"], 3)))
        elif res["result"] == "sat":
            pending = handle_refuted(contract, shape, values, st0, ob, oid, res, check, prop)
            if pending is not None:
                deferred.setdefault(shape.name, []).append((ob, oid, res, pending))
        elif res["result"] == "error":
            check.engine_error(f"{oid}: {res['detail']}")
        else:
            check.add_obligation(Obligation(oid, contract.key, ob.kind, res["solver"], "undecided", round(res["seconds"], 3), res["detail"]))
    # Refuted obligations without a reproducing input (DESIGN 2.7).  If a LOOP INVARIANT of the function is among them, the
    # sidecar invariant is simply not inductive for the current body (a counter-example to induction is not a reachable state;
    # every later obligation of that shape was derived under the broken invariant): a failed proof, i.e. *undecided* - the
    # function is not under deductive contract in this run and the bounded stand-in decides.  Otherwise (postcondition, safety,
    # exception or callee-precondition obligations of a function whose invariants all hold) the refutation is reported as a
    # violation with the verifier's output and `no-failing-input-found`.
    for shape_name, items in deferred.items():
        broken_inv = [oid for ob, oid, res, pending in items if ob.kind.startswith(("inv0", "invS"))]
        for ob, oid, res, pending in items:
            if broken_inv:
                check.add_obligation(Obligation(oid, contract.key, ob.kind, res["solver"], "undecided", round(res["seconds"], 3),
                                                "refuted, but no counter-model reproduces on the real code and a loop invariant of this function "
                                                f"({broken_inv[0]}) is not inductive for the current body: failed proof, decided by the bounded stand-in"))
                rep.status = "invariant-not-inductive"
            else:
                check.refuted_without_input(*pending)
                check.add_obligation(Obligation(oid, contract.key, ob.kind, res["solver"], "refuted", round(res["seconds"], 3), "no-failing-input-found"))
    rep.seconds = time.time() - t_start
    check.functions[contract.key] = {"obligations": rep.obligations, "discharged": rep.discharged, "paths": rep.paths,
                                     "status": rep.status, "shapes": len(contract.shapes),
                                     "paths_with_satisfiable_assumptions": getattr(rep, "covered", 0)}
    return rep


def handle_refuted(contract, shape, values, st0, ob, oid, res, check, prop):
    """replay the counter-models against the real function (DESIGN 2.7)"""
    from vlib.report import Obligation
    tried = []
    verdicts = []
    for model in res["models"]:
        try:
            args = concretize_args(shape, values, model, st0)
        except Exception as e:
            tried.append(f"concretisation failed: {e!r}")
            continue
        desc = {k: describe(v) for k, v in args.items()}
        try:
            ok, clause, detail = check_concrete(contract, args)
        except Exception as e:
            tried.append(f"replay crashed on {desc}: {e!r}")
            continue
        tried.append(desc)
        if not ok:
            v = check.violation(oid, dict(function=contract.key, shape=shape.name, **desc),
                                f"{clause}: {detail}", replay={"kind": "contract", "contract": contract.key, "args": desc},
                                found_input=True, verifier_output={"solver": res["solver"], "obligation_trace": ob.trace[-6:]})
            verdicts.append(v)
            if v == "violation":
                break
    if "violation" in verdicts:
        check.add_obligation(Obligation(oid, contract.key, ob.kind, res["solver"], "refuted", round(res["seconds"], 3), "counter-model replayed on the real code"))
        return
    if verdicts and all(v == "known" for v in verdicts):
        check.add_obligation(Obligation(oid, contract.key, ob.kind, res["solver"], "known-finding", round(res["seconds"], 3),
                                        "every replayed counter-model lies inside a listed known finding"))
        return
    # contracts over heap objects cannot be replayed from a model: a hand-written probe of the real code (concrete cases with the
    # expected observation, from the contract's own clauses) stands in for the replay
    probe = getattr(contract, "probe", None)
    if probe is not None:
        if getattr(contract, "_probe_cache", None) is None:
            try:
                contract._probe_cache = list(probe())
            except Exception as e:      # noqa: BLE001  (a crashing probe finds nothing; never a verdict)
                contract._probe_cache = []
                check.note(f"concrete probe of {contract.key} raised {e!r}")
        for item in contract._probe_cache[:3]:
            clause, inputs, detail = item[:3]
            rp = item[3] if len(item) > 3 else {"kind": "probe", "contract": contract.key}
            v = check.violation(oid, dict(function=contract.key, **inputs), f"{clause}: {detail}",
                                replay=rp, found_input=True,
                                verifier_output={"solver": res["solver"], "note": "failing case found by the contract's concrete probe seeded by the refutation"})
            if v == "violation":
                check.add_obligation(Obligation(oid, contract.key, ob.kind, res["solver"], "refuted", round(res["seconds"], 3), "failing input found by the concrete probe"))
                return
    # refuted but no model reproduces: search the function's bounded enumerator if the contract has one
    enum = getattr(contract, "enumerate_small", None)
    if enum is not None:
        n = 0
        for args in enum():
            n += 1
            try:
                ok, clause, detail = check_concrete(contract, args)
            except Exception as e:
                continue
            if not ok:
                desc = {k: describe(v) for k, v in args.items()}
                v = check.violation(oid, dict(function=contract.key, **desc), f"{clause}: {detail}",
                                    replay={"kind": "contract", "contract": contract.key, "args": desc}, found_input=True,
                                    verifier_output={"solver": res["solver"], "note": "found by the bounded enumerator seeded by the refutation"})
                if v == "violation":
                    check.add_obligation(Obligation(oid, contract.key, ob.kind, res["solver"], "refuted", round(res["seconds"], 3), "failing input found by bounded search"))
                    return
                verdicts.append(v)
        if verdicts and all(v == "known" for v in verdicts):
            check.add_obligation(Obligation(oid, contract.key, ob.kind, res["solver"], "known-finding", round(res["seconds"], 3), ""))
            return
    return (oid, dict(function=contract.key, shape=shape.name), "obligation refuted by the solver; no replayed model reproduces",
            {"kind": "obligation", "contract": contract.key},
            {"solver": res["solver"], "detail": res["detail"], "models_tried": tried[:6], "trace": ob.trace[-8:]})
