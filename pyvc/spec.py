"""Spec library with a dual interpretation (DESIGN 2.4): given SMT terms the functions build
terms, given real Python objects they compute.  Contract texts use only these functions, so the
same text is the proof obligation, the replay oracle and the bounded stand-in's oracle."""
import z3
from . import terms as T
from .values import SliceV

PENDING = []        # ground lemma instances requested by spec functions; drained into the path by the executor


def drain():
    out = list(PENDING)
    del PENDING[:]
    return out


STYLE_NAMES = ("bold", "dark", "italic", "underline", "blink", "invert")


def is_sym(x):
    return z3.is_expr(x)


def _b(x):
    return z3.BoolVal(x) if isinstance(x, bool) else x


def And(*xs):
    xs = [x for x in xs if x is not True]
    if any(x is False for x in xs):
        return False
    if not xs:
        return True
    if all(isinstance(x, bool) for x in xs):
        return all(xs)
    return z3.And(*[_b(x) for x in xs])


def Or(*xs):
    xs = [x for x in xs if x is not False]
    if any(x is True for x in xs):
        return True
    if not xs:
        return False
    if all(isinstance(x, bool) for x in xs):
        return any(xs)
    return z3.Or(*[_b(x) for x in xs])


def Not(x):
    if isinstance(x, bool):
        return not x
    return z3.Not(x)


def Implies(a, b):
    if isinstance(a, bool):
        return b if a else True
    if isinstance(b, bool):
        return True if b else z3.Not(a)
    return z3.Implies(a, b)


def If(c, a, b):
    if isinstance(c, bool):
        return a if c else b
    return z3.If(c, a, b)


def Max(a, b):
    if is_sym(a) or is_sym(b):
        return z3.If(a >= b, a, b)
    return max(a, b)


def Min(a, b):
    if is_sym(a) or is_sym(b):
        return z3.If(a <= b, a, b)
    return min(a, b)


# ---------------------------------------------------------------------- formatting of a run (concrete side)
def norm_atts(atts):
    """what "formatting" means in the statements: attributes that are switched on"""
    return tuple(sorted((k, v) for k, v in dict(atts).items() if v is not False and v is not None))


def cells(x):
    """per-character view: SMT Seq Cell, or python list of (char, normalised attributes)"""
    if is_sym(x):
        srt = x.sort()
        if srt == T.FmtS:
            return T.VIEW(T.FmtS.chunks(x))
        if srt == T.SCh:
            return T.VIEW(x)
        if srt == T.ChunkS:
            return T.CELLS(T.ChunkS.s(x), T.ChunkS.atts(x))
        if srt == T.SI:
            return T.CELLS(x, T.NOATTS)
        if srt == T.SC:
            return x
        raise TypeError(f"cells of sort {srt}")
    if isinstance(x, str):
        return [(c, ()) for c in x]
    if hasattr(x, "chunks"):
        out = []
        for ch in x.chunks:
            a = norm_atts(ch.atts)
            out.extend((c, a) for c in ch.s)
        return out
    if hasattr(x, "atts") and hasattr(x, "s"):
        a = norm_atts(x.atts)
        return [(c, a) for c in x.s]
    if isinstance(x, (list, tuple)):
        if x and isinstance(x[0], tuple) and len(x[0]) == 2 and isinstance(x[0][0], str):
            return list(x)
        out = []
        for ch in x:
            out.extend(cells(ch))
        return out
    raise TypeError(f"cells of {type(x).__name__}")


def text(x):
    if is_sym(x):
        if x.sort() == T.FmtS:
            return T.TEXT(T.FmtS.chunks(x))
        if x.sort() == T.SCh:
            return T.TEXT(x)
        return x
    if isinstance(x, str):
        return x
    return "".join(ch.s for ch in x.chunks)


def length(x):
    if is_sym(x):
        return z3.Length(x)
    return len(x)


def concat(*xs):
    if any(is_sym(x) for x in xs):
        xs = [x for x in xs]
        return xs[0] if len(xs) == 1 else z3.Concat(*xs)
    out = []
    for x in xs:
        out.extend(x)
    return out


def empty_cells(sym):
    return z3.Empty(T.SC) if sym else []


def pyslice(X, lo, hi):
    """X[lo:hi] with Python's semantics for None / negative / out-of-range bounds"""
    if is_sym(X):
        return T.pyslice_term(X, lo, hi)
    return X[lo:hi]


def item(X, i):
    """[X[i]] (as a one-element sequence)"""
    if is_sym(X):
        n = z3.Length(X)
        p = z3.If(i < 0, i + n, i)
        return z3.SubSeq(X, p, 1)
    return [X[i]]


def rep(X, n):
    if is_sym(X) or is_sym(n):
        n = n if is_sym(n) else z3.IntVal(n)
        PENDING.extend(T.Lemmas.rep_step(X, n))
        PENDING.extend(T.Lemmas.rep_step(X, n - 1))
        return T.REP(X, n)
    return list(X) * max(n, 0)


def eq(a, b):
    r = a == b
    return r


def blanks(n):
    if is_sym(n):
        return blanks_term(n)
    return [(" ", ())] * max(n, 0)


def sl_parts(index):
    """(start, stop, step) of a SliceV / python slice"""
    return index.start, index.stop, index.step


def is_slice(index):
    return isinstance(index, (SliceV, slice))


def clip(x, n):
    if is_sym(x) or is_sym(n):
        return T.clip(x, n)
    return 0 if x < 0 else (n if x > n else x)


def py_bound(i, n, default):
    """Python's own normalisation of one slice bound against a sequence of length n"""
    if i is None:
        return default
    if is_sym(i) or is_sym(n):
        return T.py_bound(i, n, default)
    if i < 0:
        return max(0, i + n)
    return min(i, n)


_BLANK_TERMS = []


def blanks_term(n):
    """BLANKS(n) with its ground lemmas: length, and splitting against every other BLANKS term of the path"""
    n = n if is_sym(n) else z3.IntVal(n)
    b = T.BLANKS(n)
    PENDING.append(z3.Length(b) == z3.If(n > 0, n, 0))
    for m in list(_BLANK_TERMS):
        if m.eq(n):
            continue
        for (x, y) in ((m, n), (n, m)):
            d = T.BLANKS(y - x)
            PENDING.append(z3.Implies(z3.And(x >= 0, x <= y), z3.And(T.BLANKS(y) == z3.Concat(T.BLANKS(x), d),
                                                                      z3.Length(d) == y - x)))
    if not any(m.eq(n) for m in _BLANK_TERMS):
        _BLANK_TERMS.append(n)
        if len(_BLANK_TERMS) > 12:
            del _BLANK_TERMS[0]
    return b


def reset_blanks():
    del _BLANK_TERMS[:]


def padto(X, n):
    """X padded on the right with unformatted blanks to length n (X itself if already longer)"""
    if is_sym(X) or is_sym(n):
        return z3.Concat(X, blanks_term(n - z3.Length(X)))
    return list(X) + [(" ", ())] * max(0, n - len(X))


def wcs_of(s, a, n):
    """WCS of s[a:a+n] (SMT) with the additivity / unit lemmas needed to extend it by one character"""
    t = T.WCS(z3.SubSeq(s, a, n))
    one = T.WCS(z3.SubSeq(s, a + n, 1))
    PENDING.append(z3.Implies(z3.And(a >= 0, n >= 0, a + n < z3.Length(s)),
                              T.WCS(z3.SubSeq(s, a, n + 1)) == t + one))
    PENDING.append(z3.Implies(n <= 0, t == 0))
    PENDING.append(z3.Implies(z3.And(a + n >= 0, a + n < z3.Length(s)), z3.And(one >= 0, one <= 2)))   # wcwidth of one character (C11 quantifier)
    return t


def as_int_seq(x):
    """a list of ints as an SMT Seq Int (python lists of ints / int terms are converted)"""
    if is_sym(x):
        return x
    units = [z3.Unit(v if is_sym(v) else z3.IntVal(v)) for v in x]
    if not units:
        return z3.Empty(T.SI)
    return units[0] if len(units) == 1 else z3.Concat(*units)
