/-
  Column model of C10 (contracts/columns.py), lemma schemas used as ground instances by the run walk of
  FmtStr.width_aware_slice.  SMT side                     Lean side
    WCW(c), s : Seq Int                                    a string as List (Ch × Nat): characters with their widths
    PREW(s, i)                                             c0 threaded through bcutFrom
    BASEF(s)                                               base
    BCUT(s, a, b)                                          bcutFrom blank s 0 a b        (piece = contracts.columns._piece)
    RUNCUT(xs, a, b): fold of BCUT(s_k, a - W_k, b - W_k)  bcutFrom over the concatenation: bcut_append + bcut_shift
    L1 b <= 0 -> empty                                     bcut_nil_of_le      L2 a >= width -> empty     bcut_nil_of_ge
    L3 a <= 0, b >= width -> BASEF                         bcut_eq_base        L4 clamp a at 0            bcut_clamp
    split of RUNCUT at a run boundary / at a break         bcut_append, bcut_shift, bcut_nil_of_le
-/
import Mathlib.Data.List.Basic

namespace PyvcColumns

variable {Ch : Type}

/-- columns occupied by a list of (character, width) pairs -/
def width : List (Ch × Nat) → Int
  | [] => 0
  | (_, w) :: rest => (w : Int) + width rest

def ov (c0 c1 a b : Int) : Int := max 0 (min c1 b - max c0 a)

/-- what one character (width w, starting at column c0) contributes to the base view of columns a..b-1 -/
def piece (blank : Ch) (c : Ch) (w : Nat) (c0 a b : Int) : List Ch :=
  if w = 0 then [] else
    if a ≤ c0 ∧ c0 + (w : Int) ≤ b then [c] else List.replicate (ov c0 (c0 + (w : Int)) a b).toNat blank

def bcutFrom (blank : Ch) : List (Ch × Nat) → Int → Int → Int → List Ch
  | [], _, _, _ => []
  | (c, w) :: rest, c0, a, b => piece blank c w c0 a b ++ bcutFrom blank rest (c0 + (w : Int)) a b

def base : List (Ch × Nat) → List Ch
  | [] => []
  | (c, w) :: rest => (if w = 0 then [] else [c]) ++ base rest

theorem width_nonneg (xs : List (Ch × Nat)) : 0 ≤ width xs := by
  induction xs with
  | nil => simp [width]
  | cons p rest ih => obtain ⟨c, w⟩ := p; simp only [width]; omega

theorem piece_nil_of_le (blank c : Ch) (w : Nat) (c0 a b : Int) (h : b ≤ c0) : piece blank c w c0 a b = [] := by
  unfold piece
  by_cases hw : w = 0
  · simp [hw]
  · have hwpos : (0 : Int) < (w : Int) := by omega
    have h1 : ¬ (a ≤ c0 ∧ c0 + (w : Int) ≤ b) := by omega
    have h2 : ov c0 (c0 + (w : Int)) a b = 0 := by unfold ov; omega
    simp [hw, h1, h2]

-- L1: no requested column at or after c0
theorem bcut_nil_of_le (blank : Ch) (xs : List (Ch × Nat)) (c0 a b : Int) (h : b ≤ c0) :
    bcutFrom blank xs c0 a b = [] := by
  induction xs generalizing c0 with
  | nil => simp [bcutFrom]
  | cons p rest ih =>
    obtain ⟨c, w⟩ := p
    simp only [bcutFrom]
    rw [piece_nil_of_le blank c w c0 a b h, ih (c0 + (w : Int)) (by omega)]
    simp

-- L2: the request starts at or after the end of the characters
theorem bcut_nil_of_ge (blank : Ch) (xs : List (Ch × Nat)) (c0 a b : Int) (h : c0 + width xs ≤ a) :
    bcutFrom blank xs c0 a b = [] := by
  induction xs generalizing c0 with
  | nil => simp [bcutFrom]
  | cons p rest ih =>
    obtain ⟨c, w⟩ := p
    simp only [bcutFrom, width] at *
    have hr := width_nonneg rest
    have hp : piece blank c w c0 a b = [] := by
      unfold piece
      by_cases hw : w = 0
      · simp [hw]
      · have h1 : ¬ (a ≤ c0 ∧ c0 + (w : Int) ≤ b) := by omega
        have h2 : ov c0 (c0 + (w : Int)) a b = 0 := by unfold ov; omega
        simp [hw, h1, h2]
    rw [hp, ih (c0 + (w : Int)) (by omega)]
    simp

-- L3: all characters lie wholly inside the request
theorem bcut_eq_base (blank : Ch) (xs : List (Ch × Nat)) (c0 a b : Int) (ha : a ≤ c0) (hb : c0 + width xs ≤ b) :
    bcutFrom blank xs c0 a b = base xs := by
  induction xs generalizing c0 with
  | nil => simp [bcutFrom, base]
  | cons p rest ih =>
    obtain ⟨c, w⟩ := p
    simp only [bcutFrom, width, base] at *
    have hr := width_nonneg rest
    have hp : piece blank c w c0 a b = (if w = 0 then [] else [c]) := by
      unfold piece
      by_cases hw : w = 0
      · simp [hw]
      · have h1 : (a ≤ c0 ∧ c0 + (w : Int) ≤ b) := by omega
        simp [hw, h1]
    rw [hp, ih (c0 + (w : Int)) (by omega) (by omega)]

-- L4: there are no columns before c0
theorem bcut_clamp (blank : Ch) (xs : List (Ch × Nat)) (c0 a b : Int) :
    bcutFrom blank xs c0 a b = bcutFrom blank xs c0 (max c0 a) b := by
  induction xs generalizing c0 a with
  | nil => simp [bcutFrom]
  | cons p rest ih =>
    obtain ⟨c, w⟩ := p
    simp only [bcutFrom]
    have hp : piece blank c w c0 a b = piece blank c w c0 (max c0 a) b := by
      unfold piece
      by_cases hw : w = 0
      · simp [hw]
      · have e1 : (a ≤ c0 ∧ c0 + (w : Int) ≤ b) ↔ (max c0 a ≤ c0 ∧ c0 + (w : Int) ≤ b) := by
          constructor <;> intro h <;> constructor <;> omega
        have e2 : ov c0 (c0 + (w : Int)) a b = ov c0 (c0 + (w : Int)) (max c0 a) b := by unfold ov; omega
        simp only [hw, if_false, e2]
        by_cases hin : (a ≤ c0 ∧ c0 + (w : Int) ≤ b)
        · have hin2 := e1.mp hin
          simp [hin, hin2]
        · have hin2 : ¬ (max c0 a ≤ c0 ∧ c0 + (w : Int) ≤ b) := fun h => hin (e1.mpr h)
          simp [hin, hin2]
    rw [hp, ih (c0 + (w : Int)) a, ih (c0 + (w : Int)) (max c0 a)]
    have : max (c0 + (w : Int)) (max c0 a) = max (c0 + (w : Int)) a := by omega
    rw [this]

-- the fold splits at any boundary (run boundary in RUNCUT): the second part starts where the first ends
theorem bcut_append (blank : Ch) (xs ys : List (Ch × Nat)) (c0 a b : Int) :
    bcutFrom blank (xs ++ ys) c0 a b = bcutFrom blank xs c0 a b ++ bcutFrom blank ys (c0 + width xs) a b := by
  induction xs generalizing c0 with
  | nil => simp [bcutFrom, width]
  | cons p rest ih =>
    obtain ⟨c, w⟩ := p
    simp only [List.cons_append, bcutFrom, width]
    rw [ih (c0 + (w : Int))]
    have : c0 + (w : Int) + width rest = c0 + ((w : Int) + width rest) := by omega
    rw [this]
    simp

-- a request shifted together with the start column gives the same cut (the SMT side cuts run k with a - W_k, b - W_k from column 0)
theorem bcut_shift (blank : Ch) (xs : List (Ch × Nat)) (c0 a b d : Int) :
    bcutFrom blank xs (c0 + d) (a + d) (b + d) = bcutFrom blank xs c0 a b := by
  induction xs generalizing c0 with
  | nil => simp [bcutFrom]
  | cons p rest ih =>
    obtain ⟨c, w⟩ := p
    simp only [bcutFrom]
    have hp : piece blank c w (c0 + d) (a + d) (b + d) = piece blank c w c0 a b := by
      unfold piece
      by_cases hw : w = 0
      · simp [hw]
      · have e1 : (a + d ≤ c0 + d ∧ c0 + d + (w : Int) ≤ b + d) ↔ (a ≤ c0 ∧ c0 + (w : Int) ≤ b) := by
          constructor <;> intro h <;> constructor <;> omega
        have e2 : ov (c0 + d) (c0 + d + (w : Int)) (a + d) (b + d) = ov c0 (c0 + (w : Int)) a b := by unfold ov; omega
        simp only [hw, if_false, e2]
        by_cases hin : (a ≤ c0 ∧ c0 + (w : Int) ≤ b)
        · have hin2 := e1.mpr hin
          rw [if_pos hin, if_pos hin2]
        · have hin2 : ¬ (a + d ≤ c0 + d ∧ c0 + d + (w : Int) ≤ b + d) := fun h => hin (e1.mp h)
          rw [if_neg hin, if_neg hin2]
    have : c0 + d + (w : Int) = c0 + (w : Int) + d := by omega
    rw [hp, this, ih (c0 + (w : Int))]

-- Lemmas.chars_concat: the base-character filter and the width distribute over concatenation
theorem base_append (xs ys : List (Ch × Nat)) : base (xs ++ ys) = base xs ++ base ys := by
  induction xs with
  | nil => simp [base]
  | cons p rest ih => obtain ⟨c, w⟩ := p; simp [base, ih]

theorem width_append (xs ys : List (Ch × Nat)) : width (xs ++ ys) = width xs + width ys := by
  induction xs with
  | nil => simp [width]
  | cons p rest ih => obtain ⟨c, w⟩ := p; simp only [List.cons_append, width, ih]; omega

end PyvcColumns
