/-
  Code-independent lemma schemas used as GROUND INSTANCES by pyvc (DESIGN 2.5).
  SMT side                      Lean side
  CELLS(s, a)    : Seq Cell  =  s.map (fun c => (c, a))
  VIEW(xs)       : Seq Cell  =  xs.flatMap cells          (cells c = c.1.map (fun ch => (ch, c.2)))
  TEXT(xs)       : Seq Int   =  xs.flatMap (fun c => c.1)
  TOTLEN(xs)     : Int       =  (xs.map (fun c => c.1.length)).sum
  DROP_EMPTY(xs)             =  xs.filter (fun c => c.1 ≠ [])
  REP(X, n)                  =  (List.replicate n X).flatten
  extract(X, i, n)           =  (X.drop i).take n
-/
import Mathlib.Data.List.Basic

namespace PyvcLemmas

variable {Ch A : Type}

abbrev Chunk (Ch A : Type) := List Ch × A

def cells (c : Chunk Ch A) : List (Ch × A) := c.1.map (fun ch => (ch, c.2))
def view (xs : List (Chunk Ch A)) : List (Ch × A) := xs.flatMap cells
def text (xs : List (Chunk Ch A)) : List Ch := xs.flatMap (fun c => c.1)
def totlen (xs : List (Chunk Ch A)) : Nat := (xs.map (fun c => c.1.length)).sum

-- Lemmas.cells_of / chunk : |CELLS(s,a)| = |s|
theorem cells_length (c : Chunk Ch A) : (cells c).length = c.1.length := by
  simp [cells]

-- Lemmas.str_slice_cells : CELLS(extract(s,i,n), a) = extract(CELLS(s,a), i, n)
theorem cells_slice (s : List Ch) (a : A) (i n : Nat) :
    cells (((s.drop i).take n), a) = ((cells (s, a)).drop i).take n := by
  simp [cells, List.map_take, List.map_drop]

-- Lemmas.str_concat_cells : CELLS(s ++ t, a) = CELLS(s,a) ++ CELLS(t,a)
theorem cells_append (s t : List Ch) (a : A) :
    cells (s ++ t, a) = cells (s, a) ++ cells (t, a) := by
  simp [cells]

-- Lemmas.list_empty / list_unit / list_concat for VIEW
theorem view_nil : view ([] : List (Chunk Ch A)) = [] := by simp [view]
theorem view_unit (c : Chunk Ch A) : view [c] = cells c := by simp [view]
theorem view_append (xs ys : List (Chunk Ch A)) : view (xs ++ ys) = view xs ++ view ys := by
  simp [view]

-- ... and for TEXT
theorem text_nil : text ([] : List (Chunk Ch A)) = [] := by simp [text]
theorem text_unit (c : Chunk Ch A) : text [c] = c.1 := by simp [text]
theorem text_append (xs ys : List (Chunk Ch A)) : text (xs ++ ys) = text xs ++ text ys := by
  simp [text]

-- ... and for TOTLEN
theorem totlen_append (xs ys : List (Chunk Ch A)) : totlen (xs ++ ys) = totlen xs + totlen ys := by
  simp [totlen]

-- Lemmas.list_basic : TOTLEN(xs) = |VIEW(xs)| and |TEXT(xs)| = |VIEW(xs)|
theorem totlen_eq_view_length (xs : List (Chunk Ch A)) : totlen xs = (view xs).length := by
  induction xs with
  | nil => simp [totlen, view]
  | cons c cs ih =>
    have : totlen (c :: cs) = c.1.length + totlen cs := by simp [totlen]
    rw [this, ih]
    simp [view, cells]

theorem text_length_eq_view_length (xs : List (Chunk Ch A)) : (text xs).length = (view xs).length := by
  induction xs with
  | nil => simp [text, view]
  | cons c cs ih =>
    simp only [text, view, List.flatMap_cons, List.length_append] at *
    rw [ih]
    simp [cells]

-- Lemmas.drop_empty : dropping runs with empty text changes neither VIEW nor TEXT
theorem view_drop_empty (xs : List (Chunk Ch A)) :
    view (xs.filter (fun c => !c.1.isEmpty)) = view xs := by
  induction xs with
  | nil => simp [view]
  | cons c cs ih =>
    cases h : c.1 with
    | nil =>
      have hc : cells c = [] := by simp [cells, h]
      simp only [view] at ih ⊢
      simp [List.filter_cons, h, hc, ih]
    | cons y ys =>
      simp only [view] at ih ⊢
      simp [List.filter_cons, h, ih]


-- filter facts used with DROP_EMPTY (loops.materialize): every kept run is a run of xs and has characters (the SMT side
-- names its position DROPJ(xs, i)); a run with characters makes the result non-empty; the result is no longer than xs
theorem drop_empty_mem (xs : List (Chunk Ch A)) (c : Chunk Ch A)
    (h : c ∈ xs.filter (fun c => !c.1.isEmpty)) : c ∈ xs ∧ c.1 ≠ [] := by
  rw [List.mem_filter] at h
  refine ⟨h.1, ?_⟩
  intro hnil
  simp [hnil] at h

theorem drop_empty_ne_nil (xs : List (Chunk Ch A)) (c : Chunk Ch A) (hc : c ∈ xs) (hn : c.1 ≠ []) :
    xs.filter (fun c => !c.1.isEmpty) ≠ [] := by
  intro h
  have : c ∈ xs.filter (fun c => !c.1.isEmpty) := by
    rw [List.mem_filter]
    refine ⟨hc, ?_⟩
    cases hcs : c.1 with
    | nil => exact absurd hcs hn
    | cons y ys => simp
  rw [h] at this
  simp at this

theorem drop_empty_length_le (xs : List (Chunk Ch A)) :
    (xs.filter (fun c => !c.1.isEmpty)).length ≤ xs.length :=
  List.length_filter_le _ _

-- Lemmas.rep_step : REP(X, n+1) = REP(X, n) ++ X
theorem rep_succ {α : Type} (X : List α) (n : Nat) :
    (List.replicate (n + 1) X).flatten = (List.replicate n X).flatten ++ X := by
  rw [List.replicate_succ']
  simp

-- loop exit / break : a fold over the whole list splits at any index
theorem view_split (xs : List (Chunk Ch A)) (k : Nat) :
    view xs = view (xs.take k) ++ view (xs.drop k) := by
  rw [← view_append, List.take_append_drop]

-- composition of the reference SGR interpreter over concatenation (C01): the interpreter is a left fold over
-- tokens; if A takes state s0 back to s0 and so does B, then so does A ++ B, and the displayed cells concatenate.
theorem fold_append {σ τ : Type} (step : σ → τ → σ) (s : σ) (A B : List τ) :
    (A ++ B).foldl step s = B.foldl step (A.foldl step s) := by
  simp [List.foldl_append]

-- contracts/justify.py cells_nth_facts : CELLS(s, a)[j] = (s[j], a)
theorem cells_getElem? (s : List Ch) (a : A) (j : Nat) :
    (cells (s, a))[j]? = (s[j]?).map (fun ch => (ch, a)) := by
  simp [cells]

-- contracts/justify.py NOBG (f = "remove bg"): mapping the attributes of every run commutes with the cell view and keeps
-- the text, the number of runs and the total length
def mapAtts (f : A → A) (xs : List (Chunk Ch A)) : List (Chunk Ch A) := xs.map (fun c => (c.1, f c.2))

theorem view_map_atts (f : A → A) (xs : List (Chunk Ch A)) :
    view (mapAtts f xs) = (view xs).map (fun p => (p.1, f p.2)) := by
  induction xs with
  | nil => simp [view, mapAtts]
  | cons c cs ih =>
    simp only [view, mapAtts] at ih ⊢
    simp [List.flatMap_cons, cells, ih, List.map_append, List.map_map, Function.comp_def]

theorem text_map_atts (f : A → A) (xs : List (Chunk Ch A)) : text (mapAtts f xs) = text xs := by
  simp [text, mapAtts, List.flatMap_map]

theorem length_map_atts (f : A → A) (xs : List (Chunk Ch A)) : (mapAtts f xs).length = xs.length := by
  simp [mapAtts]

theorem totlen_map_atts (f : A → A) (xs : List (Chunk Ch A)) : totlen (mapAtts f xs) = totlen xs := by
  simp [totlen, mapAtts, List.map_map, Function.comp_def]

-- SPACES(k)[j] = ' '
theorem replicate_getElem? {α : Type} (n j : Nat) (x : α) (h : j < n) : (List.replicate n x)[j]? = some x := by
  simp [h]

end PyvcLemmas
