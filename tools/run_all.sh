#!/bin/bash
# tools/run_all.sh [quick|thorough] : run every claimed check against /repo, summary lines only
cd "$(dirname "$0")/.." || exit 3
tier=${1:-quick}
for p in $(python3 -c "import json;print(' '.join(c['property_id'] for c in json.load(open('MANIFEST.json'))['checks']))"); do
  out=$(bin/check $p $tier 2>&1); rc=$?
  echo "rc=$rc $(echo "$out" | grep -c '^VIOLATION') viol | $(echo "$out" | grep -c '^KNOWN-FINDING') known | $(echo "$out" | tail -1)"
done
