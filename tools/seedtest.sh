#!/bin/bash
# tools/seedtest.sh <patch.diff> <prop> [prop...]  : apply a seeded change to a scratch worktree of /repo's HEAD,
# confirm the test suite still passes, run the given checks against it, undo.
WT=${SEED_WT:-/tmp/wt/fix}
patch="$1"; shift
if [ -d "$patch" ]; then if [ -f "$patch/patch_rebased.diff" ]; then patch="$patch/patch_rebased.diff"; else patch="$patch/patch.diff"; fi; fi
case "$patch" in /*) ;; *) patch="$(pwd)/$patch";; esac
[ -d "$WT" ] || git -C /repo worktree add -q --detach "$WT" HEAD
git -C "$WT" reset -q --hard; git -C "$WT" checkout -q --detach main 2>/dev/null
if ! git -C "$WT" apply -3 "$patch" 2>/tmp/wt/apply.err; then echo "PATCH DOES NOT APPLY: $(head -3 /tmp/wt/apply.err)"; git -C "$WT" reset -q --hard main; exit 2; fi
git -C "$WT" reset -q
( cd "$WT" && /venv/bin/python -m pytest -q -p no:cacheprovider 2>&1 | tail -1 )
for p in "$@"; do
  out=$(cd /verif && CURTSIES_REPO="$WT" bin/check "$p" ${TIER:-quick} 2>&1); rc=$?
  echo "== $p rc=$rc: $(echo "$out" | grep -c '^VIOLATION') VIOLATION lines; $(echo "$out" | tail -1)"
  echo "$out" | grep "violated:" | head -${SHOW:-2} | cut -c1-330
done
git -C "$WT" checkout -q -- .
