#!/bin/bash
# tools/process_round.sh <outdir> <offset> [props...] : confirm each seed of a round on main, copy to seeded/, run its property's check
out="$1"; off="$2"; shift 2
cd /verif
for p in ${@:-$(ls $out)}; do
  for n in 1 2; do
    d="$out/$p/$n"; [ -f "$d/patch.diff" ] || continue
    id="$p-$((n+off))"
    WT=/tmp/wt/pr_$$
    git -C /repo worktree add -q --detach $WT main || continue
    ( cd $WT && timeout 900 /venv/bin/python "$d/demo.py" >/dev/null 2>&1 ); clean=$?
    if git -C $WT apply "$d/patch.diff" 2>/dev/null; then
      tests=$(cd $WT && /venv/bin/python -m pytest -q -p no:cacheprovider 2>&1 | tail -1 | grep -o "[0-9]* passed")
      ( cd $WT && timeout 900 /venv/bin/python "$d/demo.py" >/dev/null 2>&1 ); changed=$?
      status="clean_demo_rc=$clean tests='$tests' changed_demo_rc=$changed"
    else status="PATCH-DOES-NOT-APPLY"; fi
    git -C /repo worktree remove --force $WT
    mkdir -p seeded/$id; cp $d/patch.diff $d/demo.py $d/notes.md seeded/$id/ 2>/dev/null
    res=$(tools/seedtest.sh seeded/$id $p 2>&1 | grep "^== $p" | head -1 | cut -c1-200)
    echo "$id | $status | $res"
  done
done
