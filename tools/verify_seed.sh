#!/bin/bash
# tools/verify_seed.sh <dir with patch.diff demo.py> : confirm a seeded change on the PINNED tree and on main:
# clean: demo exits 0; changed: test suite passes and demo exits non-zero.  Prints one summary line.
d="$1"; WT=/tmp/wt/vs_$$
for base in 22119fa main; do
  git -C /repo worktree add -q --detach $WT $base || exit 3
  patch="$d/patch.diff"; [ "$base" = main ] && [ -f "$d/patch_rebased.diff" ] && patch="$d/patch_rebased.diff"
  ( cd $WT && timeout 600 /venv/bin/python "$d/demo.py" >/dev/null 2>&1 ); clean=$?
  if git -C $WT apply "$patch" 2>/dev/null; then
    tests=$(cd $WT && /venv/bin/python -m pytest -q -p no:cacheprovider 2>&1 | tail -1 | grep -o "[0-9]* passed")
    ( cd $WT && timeout 600 /venv/bin/python "$d/demo.py" >/dev/null 2>&1 ); changed=$?
    echo "$(basename $(dirname $d))/$(basename $d) base=$base clean_demo_rc=$clean tests='$tests' changed_demo_rc=$changed"
  else
    echo "$(basename $(dirname $d))/$(basename $d) base=$base clean_demo_rc=$clean PATCH-DOES-NOT-APPLY"
  fi
  git -C /repo worktree remove --force $WT
done
