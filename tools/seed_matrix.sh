#!/bin/bash
# tools/seed_matrix.sh : every seeded regression against its own property's quick check (and the extra ones given in seeded/<id>/also)
cd "$(dirname "$0")/.." || exit 3
# SHARD=i NSHARDS=n SEED_WT=<own scratch worktree> run the i-th of n slices (several shards may run side by side)
k=0
for d in seeded/*/; do
  k=$((k+1)); [ $((k % ${NSHARDS:-1})) -eq ${SHARD:-0} ] || continue
  id=$(basename "$d"); prop=${id%%-*}
  extra=""; [ -f "$d/also" ] && extra=$(cat "$d/also")
  for p in $prop $extra; do
    [ -f "props/$p.py" ] || continue
    out=$(tools/seedtest.sh "$d" "$p" 2>&1)
    line=$(echo "$out" | grep "^== $p" | head -1)
    dline=$(echo "$line" | grep -o "obligations=[0-9]* discharged=[0-9]* undecided=[0-9]*")
    echo "$id $p $(echo "$line" | grep -o 'rc=[0-9]*') viol=$(echo "$line" | grep -o '[0-9]* VIOLATION' | cut -d' ' -f1) $dline | $(echo "$out" | grep -m1 'violated:' | cut -c1-150)"
  done
done
