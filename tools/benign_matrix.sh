#!/bin/bash
# tools/benign_matrix.sh : every behaviour-preserving refactoring kept under seeded/benign-*.diff against the checks of the properties whose
# files it touches; a line with rc!=0 or viol>0 is a FALSE ALARM.  SHARD / NSHARDS / SEED_WT as in seed_matrix.sh.
cd "$(dirname "$0")/.." || exit 3
k=0
for d in seeded/benign-*.diff; do
  k=$((k+1)); [ $((k % ${NSHARDS:-1})) -eq ${SHARD:-0} ] || continue
  props=""
  grep -q "^+++ b/curtsies/formatstring.py" "$d" && props="$props C01 C05 C06 C09 C10 C11 C13 C14 C15 C16 C17 C19"
  grep -q "^+++ b/curtsies/window.py" "$d" && props="$props C02 C07 C12 C18"
  grep -q "^+++ b/curtsies/input.py\|^+++ b/curtsies/termhelpers.py" "$d" && props="$props C03 C08 C12 C18"
  grep -q "^+++ b/curtsies/events.py\|^+++ b/curtsies/curtsieskeys.py\|^+++ b/curtsies/configfile_keynames.py" "$d" && props="$props C03 C08 C20"
  grep -q "^+++ b/curtsies/escseqparse.py\|^+++ b/curtsies/termformatconstants.py" "$d" && props="$props C01 C05 C17 C19"
  grep -q "^+++ b/curtsies/formatstringarray.py" "$d" && props="$props C04 C02 C07"
  props=$(echo $props | tr ' ' '\n' | sort -u | tr '\n' ' ')
  out=$(tools/seedtest.sh "$d" $props 2>&1)
  if echo "$out" | grep -q "PATCH DOES NOT APPLY"; then echo "$(basename $d): does not apply to main any more"; continue; fi
  echo "$out" | grep "^== " | while read -r line; do
    p=$(echo "$line" | awk '{print $2}')
    echo "$(basename $d) $p $(echo "$line" | grep -o 'rc=[0-9]*') viol=$(echo "$line" | grep -o '[0-9]* VIOLATION' | cut -d' ' -f1) $(echo "$line" | grep -o 'obligations=[0-9]* discharged=[0-9]* undecided=[0-9]*')"
  done
done
