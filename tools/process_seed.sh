#!/bin/bash
# tools/process_seed.sh <dir with patch.diff demo.py notes.md> <seed-id e.g. C06-3> : confirm a seeded change on main in a scratch
# worktree (clean: demo exits 0; changed: test suite passes and demo exits non-zero), copy it to seeded/<id>, run its property's check
d="$1"; id="$2"; p=${id%%-*}
cd /verif || exit 3
WT=/tmp/wt/ps_$$; mkdir -p /tmp/wt
git -C /repo worktree add -q --detach $WT main || exit 3
( cd $WT && PYTHONPATH=$WT timeout 900 /venv/bin/python "$d/demo.py" >/dev/null 2>&1 ); clean=$?
if git -C $WT apply "$d/patch.diff" 2>/dev/null; then
  tests=$(cd $WT && PYTHONPATH=$WT /venv/bin/python -m pytest -q -p no:cacheprovider 2>&1 | tail -1 | grep -o "[0-9]* passed")
  ( cd $WT && PYTHONPATH=$WT timeout 900 /venv/bin/python "$d/demo.py" >/dev/null 2>&1 ); changed=$?
  status="clean_demo_rc=$clean tests='$tests' changed_demo_rc=$changed"
else status="PATCH-DOES-NOT-APPLY"; fi
git -C /repo worktree remove --force $WT
mkdir -p seeded/$id; cp $d/patch.diff $d/demo.py $d/notes.md seeded/$id/ 2>/dev/null
res=$(tools/seedtest.sh seeded/$id $p 2>&1 | grep -A2 "^== $p" | cut -c1-260)
echo "$id | $status | $res"
