"""Evidence, verdict and known-findings bookkeeping shared by every check.

Exit codes of a check (bin/check):
  0  every obligation discharged / every bounded case passed (or only listed known findings hit)
  1  a VIOLATION line was printed (refuted obligation or failed bounded contract not covered
     by a listed known finding)
  3  harness / engine malfunction (never mapped to a violation)
Undecided obligations (solver unknown/timeout, unsupported construct) never produce exit 1:
the evidence level is downgraded from `proof` and the bounded stand-in decides the run.
"""
import hashlib
import json
import os
import sys
import time

VERIF = os.path.dirname(os.path.dirname(os.path.abspath(__file__)))
# runs against a scratch tree (CURTSIES_REPO=...) must never overwrite the evidence of /repo itself
_SCRATCH = os.environ.get("CURTSIES_REPO", "/repo").rstrip("/") != "/repo"
EVIDENCE_DIR = os.path.join(VERIF, "evidence", "scratch") if _SCRATCH else os.path.join(VERIF, "evidence")
REPLAY_DIR = os.path.join(EVIDENCE_DIR, "replays")
KNOWN_FINDINGS = os.path.join(VERIF, "known_findings.json")


def _jsonable(x):
    if isinstance(x, (str, int, float, bool)) or x is None:
        return x
    if isinstance(x, bytes):
        return {"bytes": x.hex()}
    if isinstance(x, dict):
        return {str(k): _jsonable(v) for k, v in x.items()}
    if isinstance(x, (list, tuple, set, frozenset)):
        return [_jsonable(v) for v in x]
    return repr(x)


def _eval_description(text):
    """evaluate an input description produced by pyvc.verify.describe (for known-finding selectors)"""
    from curtsies.formatstring import FmtStr, Chunk
    return eval(text, {"FmtStr": FmtStr, "Chunk": Chunk, "slice": slice})


def _lean_status():
    try:
        st = open(os.path.join(VERIF, ".venv", "lean_status")).read().strip()
    except OSError:
        st = "not checked in this setup"
    return {"checked": "type-checked by Lean 4 + Mathlib during setup"}.get(st, st + " (then they are assumptions validated by the bounded suites)")


class Obligation:
    __slots__ = ("id", "function", "kind", "solver", "result", "seconds", "detail")

    def __init__(self, id, function, kind, solver, result, seconds, detail=""):
        assert result in ("discharged", "refuted", "undecided", "known-finding"), result
        self.id, self.function, self.kind = id, function, kind
        self.solver, self.result, self.seconds, self.detail = solver, result, seconds, detail

    def as_dict(self):
        return {k: getattr(self, k) for k in self.__slots__}


class Check:
    """Collects what one run of one property's check covered and decides the exit status."""

    def __init__(self, prop_id, tier, seed, claimed_level):
        self.prop_id, self.tier, self.seed = prop_id, tier, seed
        self.claimed_level = claimed_level
        self.t0 = time.time()
        self.obligations = []          # Obligation
        self.functions = {}            # qualified name -> {"obligations": n, "paths": n, "status": str}
        self.suites = []               # bounded suites: dict
        self.assumptions = []
        self.violation_lines = []
        self.known_hit = {}            # finding id -> text
        self.notes = []
        self.engine_errors = []
        self.pending_refuted = []      # obligations refuted by a solver whose models did not replay (decided in finish)
        self.found_inputs = 0
        self.solver_seconds = 0.0
        try:
            self.findings = json.load(open(KNOWN_FINDINGS))
        except FileNotFoundError:
            self.findings = []
        self.findings = [f for f in self.findings if f.get("property") == prop_id]

    # ------------------------------------------------------------------ known findings
    def match_known(self, clause, inputs):
        """Return the listed *finding* (never a `fixed` entry) whose selector holds for this
        failing input, else None.  A selector is a Python expression over the names in
        `inputs` plus `clause`; it identifies the specific failing inputs, so a different
        violation of the same property is still reported."""
        for f in self.findings:
            if f.get("status") != "finding":
                continue
            if f.get("clause") and f["clause"] != clause:
                continue
            sel = f.get("selector", "False")
            try:
                env = dict(inputs)
                env["clause"] = clause
                env["E"] = _eval_description
                if eval(sel, {"__builtins__": __builtins__}, env):
                    return f
            except Exception:
                continue
        return None

    # ------------------------------------------------------------------ recording
    def assume(self, text):
        if text not in self.assumptions:
            self.assumptions.append(text)

    def note(self, text):
        self.notes.append(text)

    def add_obligation(self, ob):
        self.obligations.append(ob)
        self.solver_seconds += ob.seconds or 0.0

    def add_suite(self, name, evaluations, distinct_nontrivial, rule, samples, exhaustive=False, bound=""):
        self.suites.append(dict(name=name, evaluations=int(evaluations), distinct_nontrivial=int(distinct_nontrivial),
                                rule=rule, samples=_jsonable(samples)[:6], exhaustive=bool(exhaustive), bound=bound))

    def engine_error(self, text):
        self.engine_errors.append(text)

    def violation(self, clause, inputs, detail, replay=None, found_input=True, verifier_output=None):
        """Report a failing input (or a refuted obligation without one). `inputs` is a JSON-able
        dict identifying the failing case; `replay` a dict understood by props.<ID>.replay()."""
        inputs_j = _jsonable(inputs)
        if found_input:
            self.found_inputs += 1
        known = self.match_known(clause, inputs) if found_input else None
        if known is not None:
            self.known_hit.setdefault(known["id"], known["text"])
            return "known"
        os.makedirs(REPLAY_DIR, exist_ok=True)
        blob = json.dumps([clause, inputs_j], sort_keys=True)
        h = hashlib.sha1(blob.encode()).hexdigest()[:10]
        safe = "".join(c if c.isalnum() or c in "._-" else "_" for c in clause)[:80]
        path = os.path.join(REPLAY_DIR, f"{self.prop_id}-{safe}-{h}.json")
        with open(path, "w") as f:
            json.dump({"property": self.prop_id, "obligation": clause, "inputs": inputs_j, "detail": _jsonable(detail),
                       "replay": _jsonable(replay), "found_failing_input": bool(found_input),
                       "verifier_output": _jsonable(verifier_output),
                       "how_to_replay": f"bin/replay {os.path.relpath(path, VERIF)}"}, f, indent=1)
        rel = os.path.relpath(path, VERIF)
        line = f"VIOLATION property={self.prop_id} replay={rel}"
        if not found_input:
            line += " no-failing-input-found"
        if len(self.violation_lines) < 25:
            print(f"  violated: {clause}: {str(detail)[:300]} | inputs: {json.dumps(inputs_j)[:400]}")
            print(line)
            sys.stdout.flush()
        self.violation_lines.append(line)
        return "violation"

    # ------------------------------------------------------------------ finishing
    def refuted_without_input(self, clause, inputs, detail, replay, verifier_output):
        self.pending_refuted.append((clause, inputs, detail, replay, verifier_output))

    def finish(self):
        # An obligation refuted by the solver whose counter-models did not replay is still a violation
        # (brief), reported with the verifier's output and `no-failing-input-found` -- unless the bounded
        # layer of this very run produced a failing input, which is then the reported witness.  (A listed known finding hit
        # elsewhere in the run is unrelated and must not swallow it.)
        if self.pending_refuted and not self.violation_lines:
            for (clause, inputs, detail, replay, vo) in self.pending_refuted[:10]:
                self.violation(clause, inputs, detail, replay=replay, found_input=False, verifier_output=vo)
        elif self.pending_refuted:
            self.note(f"{len(self.pending_refuted)} refuted obligations without a replaying model; "
                      "failing inputs were found by the bounded layer in the same run")
        n_ob = len(self.obligations)
        n_dis = sum(1 for o in self.obligations if o.result == "discharged")
        n_und = sum(1 for o in self.obligations if o.result == "undecided")
        evaluations = sum(s["evaluations"] for s in self.suites)
        distinct = sum(s["distinct_nontrivial"] for s in self.suites)
        samples = []
        for s in self.suites:
            samples.extend({"suite": s["name"], "case": c} for c in s["samples"][:2])
        for o in self.obligations[:3]:
            samples.append({"obligation": o.id, "result": o.result, "solver": o.solver})
        level = self.claimed_level
        if level == "proof" and (not (n_ob > 0 and n_dis == n_ob) or self.violation_lines):
            level = "exploration" if evaluations > 0 and distinct >= 2 else "other"
        for fid, text in self.known_hit.items():
            print(f"KNOWN-FINDING: property={self.prop_id} {text}")
        coverage = {
            "obligations": n_ob,
            "discharged": n_dis,
            "undecided": n_und,
            "refuted": sum(1 for o in self.obligations if o.result in ("refuted", "known-finding")),
            "checker_cmd": f"bin/check {self.prop_id} {self.tier}",
            "trusted_base": [
                "pyvc symbolic executor + value model (DESIGN 2.3), re-reading /repo source on every run",
                "lemma schemas behind the ground instances (lean/Lemmas.lean, lean/Columns.lean): " + _lean_status(),
                "spec library / reference models under /verif/spec (validated against CPython each run)",
                "cvc5 1.0.3 (--strings-exp) and z3 5.1.0 'unsat' answers",
                "CPython 3.12 semantics of the supported constructs",
            ],
            "functions_under_contract": self.functions,
            "solver_seconds": round(self.solver_seconds, 3),
            "obligation_list": [o.as_dict() for o in self.obligations][:400],
            "evaluations": evaluations,
            "distinct_nontrivial": distinct,
            "rule": " || ".join(f"[{s['name']}] {s['rule']}" + (f" (bound: {s['bound']})" if s["bound"] else "") for s in self.suites)
                    or "no bounded suite in this run",
            "samples": samples or [{"note": "no cases"}],
            "exhaustive": bool(self.suites) and all(s["exhaustive"] for s in self.suites),
            "bounded_suites": [{k: v for k, v in s.items() if k != "samples"} for s in self.suites],
            "explanation": "; ".join(self.notes) or "see DESIGN.md",
            "known_findings_hit": sorted(self.known_hit),
            "engine_errors": self.engine_errors[:20],
        }
        ev = {
            "property_id": self.prop_id,
            "tier": self.tier,
            "seed": self.seed,
            "level": level,
            "coverage": coverage,
            "assumptions": self.assumptions,
            "wall_s": round(time.time() - self.t0, 2),
            "violations": len(self.violation_lines),
        }
        os.makedirs(EVIDENCE_DIR, exist_ok=True)
        path = os.path.join(EVIDENCE_DIR, f"{self.prop_id}.json")
        with open(path, "w") as f:
            json.dump(ev, f, indent=1)
        # validate against the schema; an invalid evidence file is a harness failure
        try:
            import jsonschema
            schema = json.load(open("/root/.vp/EVIDENCE.schema.json"))
            jsonschema.validate(ev, schema)
        except FileNotFoundError:
            pass
        except Exception as e:  # pragma: no cover
            print(f"HARNESS-ERROR: evidence file does not validate: {str(e)[:300]}")
            return 3
        print(f"{self.prop_id} {self.tier}: level={level} obligations={n_ob} discharged={n_dis} undecided={n_und} "
              f"bounded_evaluations={evaluations} distinct_nontrivial={distinct} violations={len(self.violation_lines)} "
              f"known_findings_hit={len(self.known_hit)} wall={ev['wall_s']}s")
        if self.violation_lines:
            return 1
        if self.engine_errors:
            for e in self.engine_errors[:10]:
                print("HARNESS-ERROR:", e)
            return 3
        return 0
