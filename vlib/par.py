"""Process-pool helper for the bounded suites (16 cores)."""
import os
from concurrent.futures import ProcessPoolExecutor


def pmap(fn, jobs, workers=None):
    jobs = list(jobs)
    if len(jobs) <= 1 or os.environ.get("VERIF_SERIAL"):
        return [fn(j) for j in jobs]
    try:
        from pyvc import solve
        solve.shutdown()        # never fork while another executor's helper threads are alive
    except Exception:
        pass
    with ProcessPoolExecutor(max_workers=workers or min(14, len(jobs))) as ex:
        return list(ex.map(fn, jobs))
