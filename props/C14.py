"""C14 - applying or removing formatting touches exactly the named attributes."""
import itertools
import random
import contracts.atts as A
from pyvc.verify import verify
from bounded.common import Suite, FmtStr, Chunk, fmtstr, cells, ATT_POOL, mk, layouts
from spec import sgr

LEVEL = "exploration"
ASSUMPTIONS = [
    "attribute dicts have keys among the 8 attribute names (parse_args enforces it for everything built through the public API); "
    "values are non-zero/non-None (colour numbers, booleans)",
    "shared_atts is under deductive contract (every reported key/value is held by every run with characters: loop invariant over a symbolic "
    "attribute key, all() over the filtered generator as a quantified fact); parse_args (string tests, dict mutation), copy_with_new_str "
    "(nested dict comprehension) and the fmtfuncs partials are decided by exhaustive-finite / bounded evaluation, not deductively",
    "fmtstr(str) on text free of ESC[ is FmtStr(Chunk(text)) (C17)",
]
COLORS = ("black", "red", "green", "yellow", "blue", "magenta", "cyan", "gray")
STYLES = ("bold", "dark", "italic", "underline", "blink", "invert")
FG = dict(zip(COLORS, range(30, 38)))
BG = dict(zip(COLORS, range(40, 48)))


def deductive(check, tier):
    import contracts.justify  # noqa: F401  (registers the callee form fmtstr#attributes)
    keys = A.ATT_KEYS if tier == "thorough" else ("fg", "bg", "bold", "dark")
    verify(A.extend_split(keys), tier, check)
    verify(A.remove_split(keys if tier != "thorough" else A.ATT_KEYS[:5]), tier, check)
    verify(A.copy_with_new_atts, tier, check)
    verify(A.new_with_atts_removed, tier, check)
    verify(A.shared_atts, tier, check)
    verify(A.copy_with_new_str, tier, check)
    # fmtstr(text free of ESC[, **attributes): the real fmtstr with the real parse_args inlined, complete finite split over the 256
    # sets of attribute keys with symbolic values: one run with the text and exactly those attributes; ValueError iff fg / bg is not
    # a colour code of the tables ("sets exactly the named attributes ... mis-typed specifications raise ValueError", number form)
    import contracts.justify as J
    for c in J.fmtstr_kw_bodies(tier):
        verify(c, tier, check)


# ------------------------------------------------------------------------------ spec of parse_args (from the statement)
class Invalid(Exception):
    pass


def spec_parse(args, kwargs):
    """-> (dict, mistyped_style) or raises Invalid"""
    kw = dict(kwargs)
    args = tuple(args)
    if "style" in kw:
        args += (kw.pop("style"),)
    out = {}
    for k, v in kw.items():
        if k not in ("fg", "bg") and k not in STYLES:
            raise Invalid(f"unknown attribute {k}")
    for a in args:
        if not isinstance(a, str):
            raise Invalid("non-str positional")
        low = a.lower()
        if low in FG:
            if "fg" in kw or "fg" in out:
                raise Invalid("fg twice")
            out["fg"] = FG[low]
        elif low.startswith("on_") and low[3:] in BG:
            if "bg" in kw or "bg" in out:
                raise Invalid("bg twice")
            out["bg"] = BG[low[3:]]
        elif low in STYLES:
            out[low] = True
        else:
            raise Invalid(f"unknown name {a}")
    mistyped = False
    for k, v in kw.items():
        if k == "fg":
            if isinstance(v, str) and v in FG:
                v = FG[v]
            if isinstance(v, bool) or not isinstance(v, int) or v not in FG.values():
                raise Invalid("bad fg")
            out["fg"] = v
        elif k == "bg":
            if isinstance(v, str) and v in BG:
                v = BG[v]
            if isinstance(v, bool) or not isinstance(v, int) or v not in BG.values():
                raise Invalid("bad bg")
            out["bg"] = v
        else:
            if not isinstance(v, bool):
                mistyped = True
            if k in out and out[k] != v:
                # positional name and keyword for the same style: the keyword dict is what the code keeps; the
                # statement calls contradictory specifications invalid only for colours (twice); styles: last wins
                pass
            out[k] = v
    return out, mistyped


def parse_case(args, kwargs):
    from curtsies.formatstring import parse_args
    try:
        exp, mistyped = spec_parse(args, kwargs)
        inv = None
    except Invalid as e:
        exp, mistyped, inv = None, False, str(e)
    try:
        got = dict(parse_args(tuple(args), dict(kwargs)))
        err = None
    except Exception as e:
        got, err = None, e
    if inv is not None:
        if isinstance(err, ValueError):
            return ""
        return f"invalid specification ({inv}): expected ValueError, got {('returned ' + repr(got)) if err is None else repr(err)}"
    if mistyped:
        if isinstance(err, ValueError):
            return ""
        return f"MISTYPED-STYLE a non-boolean style value was accepted: returned {got!r}" if err is None else f"raised {err!r}"
    if err is not None:
        return f"valid specification raised {err!r}"
    # positional style + same keyword: accept either value
    for k in list(exp):
        if k in STYLES and k in kwargs and k in [str(a).lower() for a in args] and got.get(k) in (True, kwargs[k]):
            exp[k] = got[k]
    if got != exp:
        return f"returned {got!r}, the named attributes are {exp!r}"
    return ""


def text_case(case):
    from curtsies.formatstring import fmtstr as _fmtstr
    from curtsies import fmtfuncs
    t = case["text"]
    base = cells(_fmtstr(t))
    if "helper" in case:
        named, _ = spec_parse((case["helper"],), {})
        call = lambda: getattr(fmtfuncs, case["helper"])(t)
    else:
        named, _ = spec_parse(tuple(case["args"]), dict(case["kwargs"]))
        call = lambda: _fmtstr(t, *case["args"], **case["kwargs"])
    exp = [(c, tuple(sorted((k, v) for k, v in dict(dict(a), **named).items() if v is not False))) for c, a in base]
    try:
        got = cells(call())
    except Exception as e:      # noqa: BLE001
        got = f"raised {type(e).__name__}: {e}"
    return "" if got == exp else f"shows {got}, expected {exp}"


def replay(case):
    if case.get("kind") == "parse":
        d = parse_case(case["args"], case["kwargs"])
    elif case.get("kind") == "text":
        d = text_case(case)
    elif case.get("kind") == "helper":
        d = helper_case(case)
    else:
        d = apply_case(case)
    return d == "", d


WORDS = list(COLORS) + ["on_" + c for c in COLORS] + list(STYLES)
BADWORDS = ["notastyle", "on_nope", "RED", "on_BLUE", "Bold", 3, None, "", "on_", "fg"]
# a valid name with something stuck to it is an unknown name (a line feed behind it in particular: `$` in a pattern would let it pass)
DECORATED = [pre + w + post for w in ("red", "on_blue", "bold", "on_gray", "gray", "invert")
             for pre, post in (("", "\n"), ("\n", ""), ("", " "), (" ", ""), ("", "\r"), ("", "\t"), ("", "\x00"), ("", "\n\n"), ("on_", ""), ("", "_"))
             if (pre + w + post) not in WORDS]
KWPOOL = [{}, {"fg": "red"}, {"fg": 31}, {"bg": "blue"}, {"bg": 44}, {"bold": True}, {"bold": False}, {"fg": "green", "bg": "red", "dark": True},
          {"style": "blue"}, {"style": "on_red"}, {"style": "underline"}, {"style": "nope"},
          {"fg": "notacolor"}, {"bg": "notacolor"}, {"fg": 99}, {"bg": 31}, {"fg": 41}, {"unknown": True}, {"fg": None}, {"fg": True},
          {"bold": "yes"}, {"bold": 1}, {"bold": None}, {"fg": "RED"}, {"invert": True, "blink": False}]


def bounded(check, tier, seed):
    s = Suite(check, "C14.parse_args", "parse_args on every positional tuple of length <=2 (<=3 in thorough) over the 22 valid names and 10 "
              "malformed ones x a 25-entry keyword pool (names, numbers, booleans, style=, malformed values); oracle = independent "
              "reading of the statement (exactly the named attributes, colours as numbers, ValueError for unknown/contradictory/mis-typed)",
              bound="positional<=2 (3), keyword pool 25")
    maxpos = 3 if tier == "thorough" else 2
    words = WORDS + BADWORDS
    for n in range(0, maxpos + 1):
        for args in itertools.product(words if n < 3 else WORDS[::3] + BADWORDS[:4], repeat=n):
            for kw in KWPOOL:
                s.case((tuple(map(repr, args)), repr(kw)))
                d = parse_case(args, kw)
                if d:
                    case = dict(kind="parse", args=list(args), kwargs=kw, mistyped_style=d.startswith("MISTYPED-STYLE"))
                    s.fail("C14.parse_args", case, d, replay={"kind": "suite", "module": "props.C14", "case": dict(kind="parse", args=list(args), kwargs=kw)})
    for w in DECORATED:
        for args, kw in (((w,), {}), (("bold", w), {}), ((w, "red"), {}), ((), {"style": w}), ((), {"fg": w}), ((), {"bg": w})):
            s.case(("decorated", repr(args), repr(kw)))
            d = parse_case(args, kw)
            if d:
                case = dict(kind="parse", args=list(args), kwargs=kw, mistyped_style=False)
                s.fail("C14.parse_args", case, d, replay={"kind": "suite", "module": "props.C14", "case": dict(kind="parse", args=list(args), kwargs=kw)})
    s.samples = [dict(args=["red", "bold"], kwargs={"bg": 44})]
    s.done()
    # application in every spelling, order and nesting
    from curtsies import fmtfuncs
    rng = random.Random(seed + 9)
    n = 20000 if tier == "thorough" else 2500
    s = Suite(check, "C14.apply", f"{n} random (FmtStr, attribute set) pairs: keyword names, keyword numbers, copy_with_new_atts, positional in "
              "random order, nested fmtfuncs helpers, style=; all must give the same per-character result = old attributes overridden by "
              "exactly the named ones, text unchanged; removal of random attribute subsets; shared_atts only reports values every non-empty "
              "run has; copy_with_new_str keeps a uniformly formatted string's formatting (incl. leading/inner empty runs)",
              bound="runs<=4, run length<=2", exhaustive=False)
    for it in range(n):
        runs = [Chunk("".join(rng.choice("ab \n") for _ in range(rng.randint(0, 2))), _rand_atts(rng)) for _ in range(rng.randint(0, 4))]
        want = {}
        if rng.random() < .6:
            want["fg"] = rng.choice(COLORS)
        if rng.random() < .6:
            want["bg"] = rng.choice(COLORS)
        for k in STYLES:
            if rng.random() < .3:
                want[k] = rng.choice([True, False])
        rem = [k for k in ("fg", "bg") + STYLES if rng.random() < .4]
        case = dict(kind="apply", runs=[(c.s, dict(c.atts)) for c in runs], want=want, rem=rem, order=rng.random())
        s.case(it, sample=case if it < 2 else None)
        d = apply_case(case)
        if d:
            s.fail("C14.apply", case, d, replay={"kind": "suite", "module": "props.C14", "case": case})
    s.done()
    # shared_atts / copy_with_new_str on every arrangement of up to 4 runs over attribute dicts that share their KEY SETS but not their
    # values (A-B-A patterns, a differing run in the middle, empty runs): the sidecar contracts evaluated at run time
    pool4 = [{"fg": 31}, {"fg": 34}, {"fg": 31, "bold": True}, {"fg": 31, "bold": False}, {"bg": 44, "fg": 31}, {"bg": 41, "fg": 31}]
    s = Suite(check, "C14.shared", "shared_atts and copy_with_new_str on every sequence of 1..4 runs (texts 'x' / '') over 6 attribute dicts with equal "
              "key sets and different values: every reported key/value is held by every run with characters; a uniformly formatted value keeps "
              "its formatting under copy_with_new_str", bound="<= 4 runs")
    for n_ in range(1, 5):
        for combo in itertools.product(range(len(pool4)), repeat=n_):
            for empties in ((), (1,)) if n_ > 1 else ((),):
                f = FmtStr(*[Chunk("" if i in empties else "xy"[: 1 + i % 2], dict(pool4[c])) for i, c in enumerate(combo)])
                s.contract_case(A.shared_atts, dict(self=f), key=("shared", combo, empties))
                # a caller that edits the dict it was handed (atts = f.shared_atts; atts['bold'] = True; fmtstr(x, **atts)) must not
                # change what the value reports next time
                if A.edit_reported(f):
                    s.contract_case(A.shared_atts, dict(self=f), key=("shared", combo, empties, "after the caller edited the reported dict"))
                s.contract_case(A.copy_with_new_str, dict(self=f, new_str="zz"), key=("cwns", combo, empties))
                if n_ <= 2:
                    s.contract_case(A.copy_with_new_str, dict(self=f, new_str="ok \x1b[31mFAILED\x1b[0m"), key=("cwns_esc", combo, empties))
    s.done()
    from bounded.derived import derived_values
    nd = 4000 if tier == "thorough" else 500
    s = Suite(check, "C14.derived", f"{nd} values at the end of chains of <= 4 public operations: shared_atts / copy_with_new_str contracts at run time, "
              "and re-formatting (keyword, positional, helper) against the per-character expectation", bound="chains <= 4 operations", exhaustive=False)
    for k, v in enumerate(derived_values(seed + 6, nd)):
        s.contract_case(A.shared_atts, dict(self=v), key=("d", k, "shared"))
        s.contract_case(A.copy_with_new_str, dict(self=v, new_str="zz"), key=("d", k, "cwns"))
        case = dict(kind="apply", runs=[(c.s, dict(c.atts)) for c in v.chunks], want={"fg": "red", "bold": (k % 2 == 0)}, rem=["bg"], order=(k % 3) / 3)
        s.case(("d", k, "apply"))
        d = apply_case(case, value=v)
        if d:
            s.fail("C14.apply", dict(case, value=repr(v), kind2="derived"), d, replay=None)
    s.done()
    # formatting applied to TEXT (not to an existing FmtStr): plain text, text carrying escape sequences that parse, and text whose
    # escape sequences do not parse (from_str then falls back to stripping them) - every spelling must format every character
    texts = ["", "ab", "a\nb", "\x1b[31mred\x1b[39m plain", "\x1b[1mB\x1b[0m\x1b[44mx", "\x1b[90mbright\x1b[0m", "x\x1b[22my", "\x1b[100mq\x1b[49m r",
             "\x1b[2Jcls", "\x1b[38;5;100mp", "tab\there"]
    specs = [((), {"fg": "red"}), (("red",), {}), ((), {"fg": 31}), (("on_blue",), {}), ((), {"bg": 44}), (("bold",), {}), ((), {"bold": True}),
             ((), {"style": "underline"}), (("green", "on_red", "invert"), {}), ((), {"fg": "cyan", "bg": "black", "dark": True}), ((), {"bold": False})]
    s = Suite(check, "C14.text", "fmtstr(text, spec) for 11 texts (plain, with escape sequences that parse, with sequences that do not parse: "
              "bright colours, ESC[22m, 256-colour) x 11 specifications (positional / keyword / number / style=) and the fmtfuncs helpers: "
              "every character of the result carries exactly the named attributes over what fmtstr(text) alone gives it", bound="11 texts x 11 specs + 23 helpers")
    from curtsies.formatstring import fmtstr as _fmtstr
    for t in texts:
        try:
            base = cells(_fmtstr(t))
        except Exception as e:      # noqa: BLE001  (C17 decides that fmtstr accepts any text)
            continue
        for args, kw in specs:
            s.case((t, args, tuple(sorted(kw.items()))), sample=dict(text=t, args=list(args), kwargs=kw))
            named, _ = spec_parse(args, kw)
            exp = [(c, tuple(sorted((k, v) for k, v in dict(dict(a), **named).items() if v is not False))) for c, a in base]
            try:
                got = cells(_fmtstr(t, *args, **kw))
            except Exception as e:      # noqa: BLE001
                got = f"raised {type(e).__name__}: {e}"
            if got != exp:
                case = dict(kind="text", text=t, args=list(args), kwargs=kw)
                s.fail("C14.text", case, f"fmtstr({t!r}, *{args}, **{kw}) shows {got}, the named attributes on every character give {exp}",
                       replay={"kind": "suite", "module": "props.C14", "case": case})
        for name in fmtfuncs.__dict__:
            fn = getattr(fmtfuncs, name)
            if name.startswith("_") or not callable(fn) or name in ("fmtstr", "partial"):
                continue
            s.case((t, name))
            try:
                named, _ = spec_parse((name,), {})
            except Invalid:
                continue
            exp = [(c, tuple(sorted((k, v) for k, v in dict(dict(a), **named).items() if v is not False))) for c, a in base]
            try:
                got = cells(fn(t))
            except Exception as e:      # noqa: BLE001
                got = f"raised {type(e).__name__}: {e}"
            if got != exp:
                case = dict(kind="text", text=t, helper=name)
                s.fail("C14.text", case, f"{name}({t!r}) shows {got}, expected {exp}", replay={"kind": "suite", "module": "props.C14", "case": case})
    s.done()


def helper_case(case):
    """a fmtfuncs helper called like fmtstr - helper(value, *names, **keywords) - names the helper's own attribute AND the rest: the
    outcome must be that of the specification (helper's name, *names, **keywords): ValueError when that is invalid (red(s, fg='blue')
    names the foreground twice), otherwise exactly those attributes on every character"""
    from curtsies import fmtfuncs
    from curtsies.formatstring import fmtstr as _fmtstr
    name, args, kw = case["helper"], tuple(case["args"]), dict(case["kwargs"])
    own = {"on_dark": "on_black", "plain": None}.get(name, name)
    value = case["text"] if case.get("runs") is None else FmtStr(*[Chunk(t, dict(a)) for t, a in case["runs"]])
    base = cells(_fmtstr(value)) if isinstance(value, str) else cells(value)
    full = ((own,) if own else ()) + args
    try:
        named, mistyped = spec_parse(full, kw)
        inv = None
    except Invalid as e:
        named, mistyped, inv = None, False, str(e)
    try:
        got = cells(getattr(fmtfuncs, name)(value, *args, **kw))
        err = None
    except Exception as e:      # noqa: BLE001
        got, err = None, e
    if inv is not None:
        if isinstance(err, ValueError):
            return ""
        return (f"{name}(value, *{args}, **{kw}) is the invalid specification {full} {kw} ({inv}): expected ValueError, "
                + (f"it returned {got}" if err is None else f"it raised {err!r}"))
    if mistyped:
        return ""       # (C14.parse_args decides these: the recorded finding)
    if err is not None:
        return f"{name}(value, *{args}, **{kw}) raised {err!r}: the specification {full} {kw} is valid"
    lows = [str(a).lower() for a in full]
    exps = [named]
    for k in named:     # a style named both ways (bold(s, bold=False)): either value, as in C14.parse_args
        if k in STYLES and k in kw and k in lows:
            exps.append(dict(named, **{k: True}))
    for n_ in exps:
        exp = [(c, tuple(sorted((k, v) for k, v in dict(dict(a), **n_).items() if v is not False))) for c, a in base]
        if got == exp:
            return ""
    return f"{name}(value, *{args}, **{kw}) shows {got}; the attributes named ({full} {kw}) on every character give {exp}"


def helpers(check, tier):
    from curtsies import fmtfuncs
    names = [n for n in fmtfuncs.__dict__ if not n.startswith("_") and callable(getattr(fmtfuncs, n)) and n not in ("fmtstr", "partial")]
    argpool = [(), ("bold",), ("on_blue",), ("red",), ("underline", "on_red"), ("nope",)]
    s = Suite(check, "C14.helpers_with_arguments", f"each of the {len(names)} fmtfuncs helpers called like fmtstr - helper(value, *names, **keywords) - with 6 "
              "positional tuples x the 25-entry keyword pool, on text and on a formatted two-run value: ValueError exactly when (helper's name, "
              "*names, **keywords) is an invalid specification (the same attribute named twice: red(s, fg='blue'), on_red(s, 'on_blue')), else "
              "exactly the named attributes on every character", bound=f"{len(names)} helpers x 6 x 25 x 2 values")
    for name in names:
        for args in argpool:
            for kw in KWPOOL:
                for runs in (None, [["a", {"fg": 32, "bold": True}], ["b", {"bg": 41}]]):
                    case = dict(kind="helper", helper=name, args=list(args), kwargs=kw, text="ab", runs=runs)
                    s.case((name, args, repr(kw), runs is None), sample=case)
                    d = helper_case(case)
                    if d:
                        s.fail("C14.helper_arguments", dict(case, helper_style_keyword=("style" in kw and name != "plain")), d,
                               replay={"kind": "suite", "module": "props.C14", "case": case})
    s.done()


def _rand_atts(rng):
    d = {}
    if rng.random() < .5:
        d["fg"] = rng.choice(list(FG.values()))
    if rng.random() < .4:
        d["bg"] = rng.choice(list(BG.values()))
    for k in STYLES:
        r = rng.random()
        if r < .2:
            d[k] = True
        elif r < .3:
            d[k] = False
    return d


def apply_case(case, value=None):
    from curtsies import fmtfuncs
    f = value if value is not None else FmtStr(*[Chunk(t, dict(a)) for t, a in case["runs"]])
    want, rem = case["want"], case["rem"]
    base = cells(f)
    if case.get("order", 0) < 0.5:
        from bounded.common import fill_caches
        fill_caches(f)          # half of the cases: formatting is applied to a value that was already displayed
    nums = {k: (FG[v] if k == "fg" else BG[v] if k == "bg" else v) for k, v in want.items()}

    def expect():
        out = []
        for c, a in base:
            d = dict(a)
            d.update(nums)
            out.append((c, tuple(sorted((k, v) for k, v in d.items() if v is not False))))
        return out
    exp = expect()
    results = {}
    try:
        results["keyword names"] = fmtstr(f, **want)
        results["keyword numbers"] = fmtstr(f, **nums)
        results["copy_with_new_atts"] = f.copy_with_new_atts(**nums)
        if all(v is not False for v in want.values()):
            pos = [v if k == "fg" else "on_" + v if k == "bg" else k for k, v in want.items()]
            random.Random(case["order"]).shuffle(pos)
            results["positional"] = fmtstr(f, *pos)
            g = f
            for p in pos:
                g = getattr(fmtfuncs, p)(g)
            results["fmtfuncs nested"] = g
            if pos:
                results["style="] = fmtstr(f, *pos[:-1], style=pos[-1])
        for k, r in results.items():
            shown, final, only = sgr.run(str(r))
            if [x for x in shown] != exp:
                return f"{k}: str() of the result displays {shown}, expected {exp}"
            if cells(r) != exp:
                return f"{k}: result runs {r.chunks}, expected every character to get {nums} on top of its own attributes"
            if r.s != f.s:
                return f"{k}: text changed to {r.s!r}"
        r = f.new_with_atts_removed(*rem)
        exp2 = [(c, tuple(x for x in a if x[0] not in rem)) for c, a in base]
        if cells(r) != exp2 or r.s != f.s:
            return f"new_with_atts_removed{tuple(rem)}: result runs {r.chunks}"
        if f.chunks:
            sh = f.shared_atts
            for k, v in sh.items():
                for ch in f.chunks:
                    if len(ch) > 0 and ch.atts.get(k, "??") != v:
                        return f"shared_atts reports {k}={v!r} but run {ch!r} does not have it"
            fmts = set(a for _, a in base)
            if len(fmts) == 1 and base:
                r = f.copy_with_new_str("zz")
                if cells(r) != [("z", base[0][1])] * 2:
                    return f"copy_with_new_str('zz') of a uniformly formatted value gives {r.chunks}"
    except Exception as e:
        return f"raised {type(e).__name__}: {e}"
    return ""


def run(check, tier, seed):
    from pyvc.verify import verify
    import contracts.valuemodel as VM
    for c in VM.ALL:            # this property's contracts are stated over the executor's value model of Chunk / FmtStr: the real constructors and
        verify(c, tier, check, prefix="C14")      # accessors must behave as that model says (same obligations as in C13, decided here too)
    deductive(check, tier)
    bounded(check, tier, seed)
    helpers(check, tier)
