"""C03 - key decoding splits any byte stream losslessly into correctly named keys."""
import itertools
import json
import os
import contracts.events as E
from pyvc.verify import verify
from vlib.report import Obligation
from vlib.par import pmap
from bounded.common import Suite
from spec import utf8

LEVEL = "exploration"
ASSUMPTIONS = [
    "bytes.decode(enc) raises UnicodeDecodeError exactly on ill-formed input: spec/utf8.py (validated against CPython on 411 392 "
    "byte strings on every run); the decoded text is an uninterpreted function of the bytes",
    "per-call contract proved for every byte string of every length 1..MAX+1 (symbolic bytes); the stream-level clauses (nothing "
    "lost/duplicated/reordered across calls, whole sequences not broken up) follow from the per-call contract for the driver loop of "
    "Input.find_key and are additionally checked by the exhaustive decision-tree walk (complete for ascii and latin-1)",
    "module tables are read by value from the real module on every run; table obligations are evaluated (finite, complete)",
    "under utf-8 single-byte 8-bit Meta keys count as recognised only when they end a read (property quantifier)",
    "CURSES naming of an undecodable single byte ('x%02X' formatting) is not modelled symbolically (checked in the tree walk)",
]
EV = E.EV


def table_obligations(check):
    tabs = {"CURTSIES_NAMES": EV.CURTSIES_NAMES, "CURSES_NAMES": EV.CURSES_NAMES}
    allkeys = set(EV.CURTSIES_NAMES) | set(EV.CURSES_NAMES)
    want_prefixes = {k[:i] for k in allkeys if k.startswith(b"\x1b") for i in range(1, len(k))}
    facts = {
        "table.prefixes_are_exactly_the_proper_prefixes_of_ESC_keys": set(EV.KEYMAP_PREFIXES) == want_prefixes,
        "table.no_key_is_a_proper_prefix_unless_it_starts_with_ESC": all(not (k2.startswith(k) and k2 != k) or k.startswith(b"\x1b")
                                                                         for k in allkeys for k2 in allkeys if len(k2) > len(k)),
        "table.multibyte_keys_are_ascii": all(len(k) == 1 or all(b < 128 for b in k) for k in allkeys),
        "table.max_keypress_size": EV.MAX_KEYPRESS_SIZE == max(len(k) for k in allkeys),
        "table.no_empty_key": all(len(k) > 0 for k in allkeys) and all(isinstance(k, bytes) for k in allkeys),
        "table.names_are_str": all(isinstance(v, str) and v for t in tabs.values() for v in t.values()),
        "table.every_single_byte_is_key_or_ascii": all(bytes([b]) in allkeys or b < 128 for b in range(256)),
    }
    for name, ok in facts.items():
        oid = "C03." + name
        if ok:
            check.add_obligation(Obligation(oid, "events:<module tables>", "table", "evaluation (finite, complete)", "discharged", 0.0))
        else:
            check.add_obligation(Obligation(oid, "events:<module tables>", "table", "evaluation (finite, complete)", "refuted", 0.0))
            check.violation(oid, dict(table_fact=name), "a fact about the key tables that the decoding proofs rely on does not hold", found_input=True)


def deductive(check, tier):
    n, bad = utf8.selftest()
    if bad:
        check.engine_error(f"spec/utf8.py disagrees with CPython on {bad} of {n} byte strings")
    table_obligations(check)
    ns = list(range(1, E.MAXN + 2)) if tier == "thorough" else [1, 2, 3, 4, E.MAXN, E.MAXN + 1]
    for c in (E.decodable, E.unfinished_utf8, E.unfinished_char):
        verify(c, tier, check, prefix="C03")
    jobs = [("kn", tier, [n]) for n in range(1, (E.MAXN if tier == "thorough" else 4) + 1)] + [("gk", tier, [n]) for n in ns]
    for obs, funcs, errs, pend, viols in pmap(_verify_batch, jobs):
        for o in obs:
            check.add_obligation(o)
        for k, v in funcs.items():
            cur = check.functions.setdefault(k, {"obligations": 0, "discharged": 0, "paths": 0, "status": "ok", "shapes": 0})
            for f in ("obligations", "discharged", "paths", "shapes"):
                cur[f] += v[f]
            if v["status"] != "ok":
                cur["status"] = v["status"]
        for e in errs:
            check.engine_error(e)
        for p in pend:
            check.refuted_without_input(*p)


def _verify_batch(args):
    import os
    from vlib.report import Check
    os.environ["PYVC_SERIAL"] = "1"     # already inside a worker process: no nested solver pool
    kind, tier, ns = args
    ck = Check("C03", tier, 0, "proof")
    knc = E.key_name_contract(E.MAXN if kind == "gk" else ns[0])      # (registers the callee contract of get_key)
    c = knc if kind == "kn" else E.get_key_contract(ns)
    if kind == "kn":
        c.shapes = [sh for sh in c.shapes if sh.name.startswith(f"n{ns[0]}_")]
    verify(c, tier, ck, prefix="C03")
    return ck.obligations, ck.functions, ck.engine_errors, ck.pending_refuted, len(ck.violation_lines)


# ------------------------------------------------------------------------------------------ bounded: streams
def drive(stream, enc, mode):
    """Input.find_key's loop: pop one byte at a time, full= when the buffer is exhausted -> list of results, or error text"""
    buf = [stream[i:i + 1] for i in range(len(stream))]
    out = []
    while buf:
        cur = []
        e = None
        while buf:
            cur.append(buf.pop(0))
            try:
                e = EV.get_key(cur, enc, keynames=mode, full=len(buf) == 0)
            except Exception as ex:
                return out, f"{type(ex).__name__} on {b''.join(cur)!r}"
            if e is not None:
                break
        if e is None:
            return out, f"incomplete key {b''.join(cur)!r}"
        out.append((b"".join(cur), e))
    return out, None


def can_grow(seq, enc, allkeys):
    if any(k.startswith(seq) and k != seq for k in allkeys):
        return True
    return enc == "utf-8" and bool(utf8.proper_prefix_of_char(list(seq)))


def name_of(item, enc, mode):
    if mode is EV.Keynames.BYTES:
        return item
    t = EV.CURTSIES_NAMES if mode is EV.Keynames.CURTSIES else EV.CURSES_NAMES
    if item in t:
        return t[item]
    try:
        return item.decode(enc)
    except UnicodeDecodeError:
        return "x%02X" % item[0] if len(item) == 1 else None


def stream_case(items, enc, mode, allkeys):
    """items: table sequences / encoded characters.  -> '' or description"""
    stream = b"".join(items)
    if enc == "utf-8" and any(len(it) == 1 and it[0] >= 0x80 for it in items[:-1]):
        return ""       # an 8-bit Meta key followed by more input in the same read is not valid input under utf-8 (by design)
    got, err = drive(stream, enc, mode)
    if err:
        return f"decoding failed: {err} (stream {stream!r})"
    if b"".join(s for s, _ in got) != stream:
        return f"bytes lost/duplicated/reordered: cuts {[s for s, _ in got]} for stream {stream!r}"
    # unambiguous streams must be cut exactly at the item boundaries
    ambiguous = False
    pos = 0
    for it in items[:-1]:
        pos += len(it)
        rest = stream[pos - len(it):]
        if any(len(k) > len(it) and k.startswith(it) for k in allkeys):
            ambiguous = True        # "unless it is also the beginning of a longer recognised sequence"
        if enc == "utf-8" and len(it) == 1 and it[0] >= 0x80:
            ambiguous = True        # 8-bit Meta key followed by more input: collides with UTF-8 lead bytes by design
    if not ambiguous:
        if [s for s, _ in got] != list(items):
            return f"cut at {[s for s, _ in got]}, the items are {list(items)}"
        for (s, name), it in zip(got, items):
            exp = name_of(it, enc, mode)
            if exp is not None and name != exp:
                return f"{it!r} reported as {name!r}, expected {exp!r}"
    return ""


def replay(case):
    allkeys = set(EV.CURTSIES_NAMES) | set(EV.CURSES_NAMES)
    items = [bytes.fromhex(x) for x in case["items"]]
    d = stream_case(items, case["enc"], EV.Keynames[case["mode"]], allkeys)
    return d == "", d


def _tree_batch(args):
    enc, first_bytes = args
    allkeys = set(EV.CURTSIES_NAMES) | set(EV.CURSES_NAMES)
    fails, nodes = [], 0
    stack = [bytes([b]) for b in first_bytes]
    while stack:
        seq = stack.pop()
        nodes += 1
        lst = [seq[j:j + 1] for j in range(len(seq))]
        res = {}
        for full in (False, True):
            for kn in EV.Keynames:
                try:
                    res[full, kn] = ("ok", EV.get_key(lst, enc, kn, full))
                except UnicodeDecodeError:
                    res[full, kn] = ("UnicodeDecodeError", None)
                except Exception as e:
                    res[full, kn] = (type(e).__name__, None)
        for full in (False, True):
            kinds = set((res[full, kn][0], res[full, kn][1] is None) for kn in EV.Keynames)
            if len(kinds) != 1:
                fails.append((seq, enc, f"naming modes cut differently (full={full}): {[res[full, kn] for kn in EV.Keynames]}"))
            st, v = res[full, EV.Keynames.BYTES]
            if st == "ok" and v not in (None, seq):
                fails.append((seq, enc, f"bytes naming returned {v!r}"))
        st, val = res[False, EV.Keynames.CURTSIES]
        if st == "ok" and val is None:
            # (for input that is not made of recognised sequences / valid characters the clause does not apply)
            if not can_grow(seq, enc, allkeys) and (seq in allkeys or _valid(seq, enc)) \
                    and not (enc == "utf-8" and len(seq) == 1 and seq[0] >= 0x80):
                if len(fails) < 400:
                    fails.append((seq, enc, "asks for more input although the bytes can grow into neither a recognised sequence nor a character"))
                continue        # (reported; what the decoder would do with still more bytes behind it is not explored: the tree would have no end)
            if len(seq) <= EV.MAX_KEYPRESS_SIZE:
                stack.extend(seq + bytes([b]) for b in (range(256) if (enc != "utf-8" or seq[0] == 0x1b) else
                                                       [0x00, 0x28, 0x7f, 0x80, 0x8f, 0x90, 0x9f, 0xa0, 0xbf, 0xc0, 0xff]))
        elif st == "ok":
            exp = name_of(seq, enc, EV.Keynames.CURTSIES)
            if exp is None or val != exp:
                fails.append((seq, enc, f"reported as {val!r}, expected {exp!r}"))
            elif seq not in allkeys and len(val) != 1 and seq[0] != 0x1b:
                # (an unrecognised ESC sequence is deliberately returned whole as its text - tests/test_events.py)
                fails.append((seq, enc, f"several characters merged into one keypress {val!r}"))
        else:
            valid_input = seq in allkeys or _valid(seq, enc)
            if valid_input:
                fails.append((seq, enc, f"{st} on valid input"))
        for kn, tab in ((EV.Keynames.CURTSIES, EV.CURTSIES_NAMES), (EV.Keynames.CURSES, EV.CURSES_NAMES)):
            st2, v2 = res[True, kn]
            if seq in tab and (st2 != "ok" or v2 != tab[seq]):
                fails.append((seq, enc, f"whole sequence at end of input reported as {st2} {v2!r} under {kn.name}"))
    return nodes, fails[:40]


def _valid(seq, enc):
    try:
        seq.decode(enc)
        return True
    except UnicodeDecodeError:
        return False


def bounded(check, tier):
    allkeys = set(EV.CURTSIES_NAMES) | set(EV.CURSES_NAMES)
    s = Suite(check, "C03.tree", "the decoder's own decision tree: every node where get_key asks for more is expanded by every next byte (ascii, "
              "latin-1: all 256; utf-8: all 256 after ESC, 11 boundary bytes after a lead byte), up to the maximum keypress length; at every "
              "node: 3 naming modes x full/not-full; cut decisions equal across modes, bytes naming is the identity, more input only "
              "when the bytes can grow, names from the tables, no failure on valid input", bound="complete for ascii and latin-1")
    jobs = [(enc, list(range(lo, lo + 16))) for enc in E.ENCODINGS for lo in range(0, 256, 16)]
    for nodes, fails in pmap(_tree_batch, jobs):
        s.evaluations += nodes
        for seq, enc, d in fails:
            s.fail("C03.tree", dict(seq=seq.hex(), enc=enc), d)
    s.nontrivial = set(range(s.evaluations))
    s.samples = [dict(seq="1b5b41", enc="utf-8")]
    s.exhaustive = True
    s.done()
    # streams of two items
    keys = sorted(allkeys)
    chars = ["a", "~", "\x7f", "é", "ÿ", "€", "Ｅ", "\U0001F600", "\U0010FFFF", "\x00"]
    modes = list(EV.Keynames) if tier == "thorough" else [EV.Keynames.CURTSIES]
    s = Suite(check, "C03.streams", "every table sequence followed by every other table sequence and by every single byte (as a valid "
              "character where it is one) and characters from a 10-entry pool around the encoding boundaries, buffered together and driven "
              "like Input.find_key; plus every Unicode scalar value (thorough) / every 251st and all boundary values (quick); lossless cut, "
              "unambiguous streams cut at the item boundaries with the table names", bound="2 items per stream", exhaustive=False)
    for enc in E.ENCODINGS:
        encchars = []
        for c in chars:
            try:
                encchars.append(c.encode(enc))
            except UnicodeEncodeError:
                pass
        seconds = keys + encchars + [bytes([b]) for b in range(128)]
        firsts = keys if tier == "thorough" else keys[::3] + [b"\x1b", b"\x1b[", b"\x1bO", b"\x1b\x1b"]
        for mode in modes:
            for k1 in firsts + encchars:
                for k2 in seconds:
                    s.evaluations += 1
                    d = stream_case([k1, k2], enc, mode, allkeys)
                    if d:
                        known15 = k1 in EV.KEYMAP_PREFIXES and k2[0] >= 0x80
                        s.fail("C03.stream", dict(items=[k1.hex(), k2.hex()], enc=enc, mode=mode.name, esc_prefix_then_non_ascii=known15), d,
                               replay={"kind": "suite", "module": "props.C03", "case": dict(items=[k1.hex(), k2.hex()], enc=enc, mode=mode.name)})
    import sys
    step = 1 if tier == "thorough" else 251
    cps = set(range(0, sys.maxunicode + 1, step)) | {0x7f, 0x80, 0x7ff, 0x800, 0xffff, 0x10000, 0xfffff, 0x100000, 0x10ffff, 0xd7ff, 0xe000}
    for cp in sorted(cps):
        if 0xd800 <= cp <= 0xdfff:
            continue
        ch = chr(cp)
        b = ch.encode("utf-8")
        if b in EV.KEYMAP_PREFIXES:
            continue        # ESC + 'z' is itself a named key: an ambiguous stream, outside the statement's quantifier
        s.evaluations += 1
        got, err = drive(b + b"z", "utf-8", EV.Keynames.CURTSIES)
        exp_first = EV.CURTSIES_NAMES.get(b, ch)
        if err or not got or got[0] != (b, exp_first):
            s.fail("C03.scalar", dict(codepoint=cp), f"U+{cp:04X} followed by 'z' decodes as {got} {err or ''}")
    s.nontrivial = set(range(s.evaluations))
    s.samples = [dict(items=["1b5b41", "61"], enc="utf-8", mode="CURTSIES")]
    s.done()


def find_key_probe():
    """the REAL Input._send.find_key (buffer filled directly, no I/O) against the reference cut `drive` on two-item streams: the
    failing input for a refuted obligation of contracts/findkey.py, if there is one"""
    from locale import getpreferredencoding
    from curtsies.input import Input
    enc = getpreferredencoding()
    allkeys = sorted(set(EV.CURTSIES_NAMES) | set(EV.CURSES_NAMES))
    followers = [b"a", b"\x1b[A", b"\x1bOP", b"~", b"\x1b", "\u00e9".encode("utf-8"), b"\x1b[15~x"]
    out = []
    for k1 in allkeys[::4] + [b"a", b"ab", "\u20ac".encode("utf-8")]:
        for k2 in followers:
            stream = k1 + k2
            want, werr = drive(stream, enc, EV.Keynames.BYTES)
            inp = Input.__new__(Input)
            inp.__dict__.update(sigints=[], queued_events=[], queued_interrupting_events=[], queued_scheduled_events=[],
                                keynames=EV.Keynames.BYTES, paste_threshold=None)
            inp.unprocessed_bytes = [stream[i:i + 1] for i in range(len(stream))]
            got, gerr = [], None
            while inp.unprocessed_bytes:
                before = b"".join(inp.unprocessed_bytes)
                try:
                    e = inp._send(0)
                except Exception as ex:     # noqa: BLE001
                    gerr = type(ex).__name__
                    break
                after = b"".join(inp.unprocessed_bytes)
                got.append((before[:len(before) - len(after)], e))
                if not before.endswith(after):
                    gerr = f"buffer {before!r} -> {after!r} is not a suffix"
                    break
            if (werr is None) != (gerr is None) or (werr is None and got != want):
                out.append(("C03.find_key", dict(stream=stream.hex(), encoding=enc), f"find_key cuts {stream!r} into {got} ({gerr}); the decoder driven byte by byte gives {want} ({werr})"))
                if len(out) >= 3:
                    return out
    return out


def writers_probe():
    """the REAL Input.unget_bytes / Input._nonblocking_read on small buffers and small reads (a pipe as the stream): the failing input for a
    refuted obligation of the buffer-writer contracts (contracts/findkey.py), if there is one"""
    import os
    from curtsies.input import Input

    class S:
        def __init__(self, fd):
            self.fd = fd

        def fileno(self):
            return self.fd
    out = []
    for buf in (b"", b"x", b"ab", b"\x1b[", b"abcdefg"):
        for data in (b"q", b"\x1b[A", b"", b"12345678", "\u20ac".encode("utf-8")):
            want = [bytes([b]) for b in buf + data]
            inp = Input.__new__(Input)
            inp.unprocessed_bytes = [bytes([b]) for b in buf]
            try:
                inp.unget_bytes(data)
                got = list(inp.unprocessed_bytes)
            except Exception as e:      # noqa: BLE001
                got = f"raised {type(e).__name__}: {e}"
            if got != want:
                out.append(("C03.unget_bytes", dict(buffer=buf.hex(), data=data.hex()), f"buffer {buf!r} + unget_bytes({data!r}) -> {got}, expected {want}"))
            if not data:
                continue
            r, w = os.pipe()
            try:
                os.write(w, data)
                inp = Input.__new__(Input)
                inp.in_stream = S(r)
                inp.unprocessed_bytes = [bytes([b]) for b in buf]
                try:
                    n = inp._nonblocking_read()
                    got = (n, list(inp.unprocessed_bytes))
                except Exception as e:      # noqa: BLE001
                    got = f"raised {type(e).__name__}: {e}"
                if got != (len(data), want):
                    out.append(("C03.nonblocking_read", dict(buffer=buf.hex(), data=data.hex()),
                                f"buffer {buf!r}, {data!r} readable: _nonblocking_read() -> {got}, expected {(len(data), want)}"))
            finally:
                os.close(r)
                os.close(w)
            if len(out) >= 3:
                return out
    return out


def input_bursts(check, tier):
    """the decoder as Input drives it on a pasted burst: a multi-byte character or an escape sequence straddling the 1024- / 2048-byte
    read boundary inside a paste (paste_threshold set, so the paste loop fetches the rest) must come out as itself - the rig and the
    reference of C08 (props/C08.py), restricted to the paste path where the pinned tree has no listed finding"""
    import props.C08 as C8
    cases = [c for c in C8.burst_cases(tier) if c.get("pt") is not None and c.get("split") == "read_boundary" and c["transport"] == "pipe"
             and c["ops"][0][0] == "burst"]
    s = Suite(check, "C03.input_bursts", "bursts of 2*READ_SIZE+k bytes through the real Input over a pipe with paste_threshold 0/8/100: every "
              "2-, 3-, 4-byte character and 3-6-byte escape sequence straddling the 1024- or 2048-byte read boundary at every inner offset, "
              "BYTES and CURTSIES names: every keypress of the burst decoded as itself, nothing lost or raised", bound="<= 2058 bytes", exhaustive=False)
    per = max(1, len(cases) // 28)
    for n, n_req, out in pmap(C8._batch_list, [cases[i:i + per] for i in range(0, len(cases), per)]):
        s.evaluations += n
        for kind, case, clause, detail, extra in out:
            if kind == "harness":
                check.engine_error(f"C03.input_bursts rig: {detail[:300]}")
                continue
            s.fail("C03.input." + clause.split(".", 1)[-1], dict(case, **{k: v for k, v in extra.items() if isinstance(v, (str, int, bool, type(None)))}), detail,
                   replay={"kind": "suite", "module": "props.C08", "case": case})
    s.nontrivial = set(range(s.evaluations))
    s.samples = cases[:2]
    s.done()
    # bytes handed back with unget_bytes (e.g. by a cursor query) join the stream where they belong: behind what is already buffered
    import itertools as _it
    ucases = [c for c in C8.small_cases(tier) if any(op[0] == "unget" for op in c["ops"]) and c.get("transport") == "pipe"]
    ucases = ucases[:: max(1, len(ucases) // 1500)]
    s = Suite(check, "C03.input_unget", "short histories of the real Input over a pipe that contain unget_bytes (bytes handed back while others "
              "are still buffered): every byte comes back exactly once and in stream order (rig and reference of C08; the listed C08 findings "
              "- a read ending inside a character, key prefix + non-ASCII byte - are not judged here)", bound="<= 3 operations", exhaustive=False)
    per = max(1, len(ucases) // 28)
    for n, n_req, out in pmap(C8._batch_list, [ucases[i:i + per] for i in range(0, len(ucases), per)]):
        s.evaluations += n
        for kind, case, clause, detail, extra in out:
            if kind == "harness" or extra.get("read_ended_mid_char") or extra.get("esc_then_nonascii") or not clause.startswith("C08.bytes"):
                continue
            s.fail("C03.input." + clause.split(".", 1)[-1], dict(case, **{k: v for k, v in extra.items() if isinstance(v, (str, int, bool, type(None)))}), detail,
                   replay={"kind": "suite", "module": "props.C08", "case": case})
    s.nontrivial = set(range(s.evaluations))
    s.samples = ucases[:2]
    s.done()


def input_interrupted_pastes(check, tier):
    """a paste that is interrupted while the request is putting it together (a SIGINT, a thread-safe callback, more bytes arriving right after
    its 1st / 2nd / 3rd read of the stream): every byte of the burst still comes out exactly once, in order - the rig and reference of C08"""
    import props.C08 as C8
    cases = [c for c in C8.wakeup_cases() if any(h[0].startswith("read") for op in c["ops"] if op[0] == "req" for h in op[2])]
    s = Suite(check, "C03.input_interrupted_pastes", "a 1500-byte and a 40-byte burst through the real Input on a pty with sigint_event, something arriving right "
              "after the 1st / 2nd / 3rd read of the request (SIGINT, thread-safe callback, one more byte): no byte lost, duplicated or reordered",
              bound=f"{len(cases)} histories", exhaustive=False)
    for n, n_req, out in pmap(C8._batch_list, [cases[i::6] for i in range(6)]):
        s.evaluations += n
        for kind, case, clause, detail, extra in out:
            if kind == "harness":
                check.engine_error(f"C03.input_interrupted_pastes rig: {detail[:300]}")
                continue
            if extra.get("read_ended_mid_char") or extra.get("esc_then_nonascii"):
                continue
            s.fail("C03.input." + clause.split(".", 1)[-1], dict(case, **{k: v for k, v in extra.items() if isinstance(v, (str, int, bool, type(None)))}), detail,
                   replay={"kind": "suite", "module": "props.C08", "case": case})
    s.nontrivial = set(range(s.evaluations))
    s.samples = cases[:2]
    s.done()


def whole_sequences(check, tier):
    """"a recognised sequence that arrives whole is reported as one keypress under its table name - never broken up": one burst (a single
    write) in which a table sequence / multi-byte character lies across the 1024-byte read boundary at every inner offset; the keys
    the real Input hands out (paste or single keypresses) must be exactly: the filler letters, THE sequence, the filler letters"""
    import os
    import curtsies.input as ci
    toks = sorted(set(EV.CURTSIES_NAMES) | {"é".encode(), "€".encode(), "😀".encode(), "∂".encode()}, key=lambda b: (len(b), b))
    allkeys = set(EV.CURTSIES_NAMES) | set(EV.CURSES_NAMES)
    # (a sequence that is also the beginning of a longer recognised one is ambiguous next to more input - the statement's "unless")
    toks = [t for t in toks if len(t) >= 2 and not any(k != t and k.startswith(t) for k in allkeys)
            and not any(len(k) > len(t) and (t + b"xyz").startswith(k) for k in allkeys)]
    if tier != "thorough":
        toks = [t for k, t in enumerate(toks) if k % 7 == 0 or t in (b"\x1b[A", b"\x1bOP", b"\x1b[15~", b"\x1b[1;5A", "é".encode(), "€".encode())]
    s = Suite(check, "C03.input_whole_sequences", f"{len(toks)} table sequences / multi-byte characters x every inner cut position at the 1024-byte "
              "read boundary of one 1100-byte burst of letters, paste_threshold 8 and None (then key by key), BYTES and CURTSIES names, through "
              "the real Input over a pipe: the keypresses are exactly letters, the sequence under its name, letters", bound="1100 bytes", exhaustive=False)

    class _S:
        def __init__(self, fd):
            self.fd = fd

        def fileno(self):
            return self.fd
    saved = ci.getpreferredencoding
    ci.getpreferredencoding = lambda: "utf-8"
    try:
        for tok in toks:
            for j in range(1, len(tok)):
                for pt, mode in ((8, EV.Keynames.BYTES), (8, EV.Keynames.CURTSIES), (None, EV.Keynames.BYTES)):
                    pre, post = b"a" * (1024 - j), b"xyz" + b"b" * (1100 - 1024 - len(tok) + j - 3)
                    payload = pre + tok + post
                    s.case((tok, j, pt, mode.name), sample=dict(token=tok.hex(), cut_after=j, paste_threshold=pt, names=mode.name) if len(s.samples) < 2 else None)
                    r, w = os.pipe()
                    keys, err = [], ""
                    try:
                        os.write(w, payload)
                        inp = ci.Input(in_stream=_S(r), keynames=mode, paste_threshold=pt)
                        for _ in range(len(payload) + 5):
                            e = inp.send(0)
                            if e is None:
                                break
                            keys += list(e.events) if isinstance(e, EV.PasteEvent) else [e]
                    except Exception as ex:     # noqa: BLE001
                        err = f"raised {type(ex).__name__}: {ex}"
                    finally:
                        os.close(r)
                        os.close(w)
                    if pt is None and not err and False:
                        pass
                    name = name_of(tok, "utf-8", mode)
                    one = (lambda b: b) if mode is EV.Keynames.BYTES else (lambda b: b.decode())
                    want = [one(bytes([c])) for c in pre] + [name] + [one(bytes([c])) for c in post]
                    if pt is None:
                        # (without a paste threshold a read that ends inside the sequence is the listed finding C08-read-ends-mid-character;
                        #  only the paste path is judged for that cut)
                        continue
                    if err or keys != want:
                        k = next((i for i, (a, b) in enumerate(zip(keys, want)) if a != b), min(len(keys), len(want)))
                        s.fail("C03.input.sequence_broken_up", dict(token=tok.hex(), cut_after=j, paste_threshold=pt, names=mode.name),
                               err or f"{tok!r} cut after {j} byte(s) by the read boundary came out as {keys[k:k + 4]} instead of {want[k:k + 2]} "
                                      f"({len(keys)} keypresses, {len(want)} expected)")
    finally:
        ci.getpreferredencoding = saved
    s.done()


def encoding_aliases(check, tier):
    """the encoding is a NAME handed in by the locale: every spelling / alias of an encoding must decode like its canonical name
    (the C locale reports ascii as 'ANSI_X3.4-1968'; utf-8 comes as UTF-8, utf8, UTF8, utf_8, U8 ...)"""
    ALIASES = {"ascii": ["ASCII", "us-ascii", "US-ASCII", "ANSI_X3.4-1968", "646", "iso646_us", "ansi_x3.4_1968", "cp367"],
               "utf-8": ["UTF-8", "utf8", "UTF8", "utf_8", "U8", "cp65001", "Utf-8"],
               "latin-1": ["latin1", "iso-8859-1", "ISO-8859-1", "iso8859-1", "L1", "cp819", "latin_1", "8859"]}
    alpha = [0x00, 0x1b, 0x5b, 0x41, 0x4f, 0x61, 0x7f, 0x80, 0xa0, 0xc3, 0xa9, 0xe2, 0x82, 0xac, 0xf0, 0x9f, 0xff]
    s = Suite(check, "C03.encoding_aliases", "every byte string of length <= 3 over 17 boundary bytes, driven like Input.find_key under 8 / 7 / 8 "
              "aliases of ascii / utf-8 / latin-1 and the 3 naming modes: the same cuts, names and errors as under the canonical name",
              bound="length <= 3")
    import itertools as _it
    streams = [bytes(p) for n in (1, 2, 3) for p in _it.product(alpha, repeat=n)]
    if tier != "thorough":
        streams = streams[::3] + [b"\xe9ab", b"\xa0\x1b[A", b"\xc3\xa9z"]
    for canon, names in ALIASES.items():
        for mode in EV.Keynames:
            ref = {}
            for st in streams:
                ref[st] = drive(st, canon, mode)
            for name in names:
                for st in streams:
                    s.evaluations += 1
                    try:
                        got = drive(st, name, mode)
                    except Exception as e:      # noqa: BLE001
                        got = ("crash", f"{type(e).__name__}: {e}")
                    if got != ref[st]:
                        s.fail("C03.encoding_alias", dict(stream=st.hex(), encoding=name, canonical=canon, mode=mode.name),
                               f"under {name!r}: {got}; under {canon!r}: {ref[st]}")
    s.nontrivial = set(range(s.evaluations))
    s.samples = [dict(stream="e96162", encoding="ANSI_X3.4-1968", canonical="ascii", mode="CURTSIES")]
    s.done()


_LOCALE_CHILD = r"""
import json, locale, os, sys
import curtsies.input as ci
from curtsies import events
payload = "é€😀".encode("utf-8") + b"\x1b[A" + b"a"
out = {"preferred": locale.getpreferredencoding(False), "utf8_mode": sys.flags.utf8_mode}
class S:
    def __init__(self, fd): self.fd = fd
    def fileno(self): return self.fd
for mode in ("CURTSIES", "BYTES"):
    for pt in (None, 2):
        r, w = os.pipe()
        os.write(w, payload)
        keys = []
        try:
            inp = ci.Input(in_stream=S(r), keynames=events.Keynames[mode], paste_threshold=pt)
            for _ in range(40):
                e = inp.send(0)
                if e is None:
                    break
                keys += list(e.events) if isinstance(e, events.PasteEvent) else [e]
            keys = [k.decode("latin-1") if isinstance(k, bytes) else k for k in keys]
        except Exception as ex:
            keys = "raised %s: %s" % (type(ex).__name__, ex)
        os.close(r); os.close(w)
        out[mode + ("/paste" if pt else "")] = keys
print(json.dumps(out))
"""


def locale_modes(check, tier):
    """the encoding of the keys is the one Python itself reads the terminal with: the real Input, its own way of finding the encoding
    NOT replaced, in child processes under locales / UTF-8 Mode settings in which that encoding is UTF-8 - non-ASCII characters typed
    there must be reported as themselves"""
    import subprocess
    import sys as _sys
    repo = os.environ.get("CURTSIES_REPO", "/repo")
    envs = [dict(LC_ALL="C", PYTHONUTF8="1"), dict(LC_ALL="POSIX", PYTHONUTF8="1"), dict(LC_ALL="C.UTF-8"), dict(LC_ALL="C"),
            dict(LANG="en_US.ISO-8859-1", LC_ALL="", PYTHONUTF8="1")]
    s = Suite(check, "C03.locale_modes", "the real Input (encoding lookup not replaced) in child processes under LC_ALL=C / POSIX with UTF-8 Mode, "
              "C.UTF-8, plain C (coerced) and a legacy locale with UTF-8 Mode: wherever Python's own preferred encoding is UTF-8, the typed "
              "characters é € 😀, an arrow key and a letter come out as themselves (key by key and as a paste, both naming modes)",
              bound=f"{len(envs)} environments", exhaustive=False)
    want_c = ["é", "€", "😀", "<UP>", "a"]
    want_b = ["é".encode().decode("latin-1"), "€".encode().decode("latin-1"), "😀".encode().decode("latin-1"), "\x1b[A", "a"]
    for extra in envs:
        env = {k: v for k, v in os.environ.items() if not k.startswith(("LC_", "LANG", "PYTHONUTF8", "PYTHONCOERCECLOCALE"))}
        env.update(extra)
        env["PYTHONPATH"] = repo + os.pathsep + env.get("PYTHONPATH", "")
        s.case(tuple(sorted(extra.items())), sample=dict(extra))
        try:
            r = subprocess.run([_sys.executable, "-c", _LOCALE_CHILD], env=env, capture_output=True, text=True, timeout=60, encoding="utf-8")
            got = json.loads(r.stdout.strip().splitlines()[-1])
        except Exception as e:      # noqa: BLE001  (a child that cannot run is a harness matter, never a verdict)
            check.note(f"C03.locale_modes: child under {extra} did not run: {e!r}")
            continue
        if str(got.get("preferred", "")).lower().replace("-", "").replace("_", "") != "utf8":
            continue        # a genuinely non-UTF-8 terminal encoding: other expectations apply (covered by C03.encoding_aliases)
        for key, want in (("CURTSIES", want_c), ("CURTSIES/paste", want_c), ("BYTES", want_b), ("BYTES/paste", want_b)):
            if got.get(key) != want:
                s.fail("C03.input.locale", dict(environment=extra, python_preferred_encoding=got.get("preferred"), utf8_mode=got.get("utf8_mode"), names=key),
                       f"typed é € 😀 <UP> a under {extra}: Input reports {got.get(key)!r}, expected {want!r}")
    s.done()


def attach_probes():
    import contracts.findkey as FK
    FK.find_key.probe = find_key_probe
    for c in FK.WRITERS:
        c.probe = writers_probe


def run(check, tier, seed):
    deductive(check, tier)
    import contracts.findkey as FK
    attach_probes()
    verify(FK.find_key, tier, check, prefix="C03")
    for c in FK.WRITERS:        # how bytes get into the buffer: appended behind what is waiting, one element per byte, in order
        verify(c, tier, check, prefix="C03")
    whole_sequences(check, tier)
    input_interrupted_pastes(check, tier)
    encoding_aliases(check, tier)
    locale_modes(check, tier)
    check.assume("stream level (deductive): Input._send.find_key consumes a non-empty prefix of the buffered bytes, never loses, duplicates "
                 "or reorders a byte, returns the decoder's answer for exactly the consumed bytes, cuts at the first recognised prefix, "
                 "returns None only for an empty buffer and raises only when no prefix is recognised (contracts/findkey.py); the decoder "
                 "itself through its per-call contract")
    bounded(check, tier)
    input_bursts(check, tier)
