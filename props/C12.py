"""C12 - leaving any curtsies context restores terminal, tty and signal state.

Bounded check (exploration level).  Every scenario runs in its own forked child process (clean signal / descriptor
state, a hang can be killed) on a real pty.  The observable OS state

    tty_attrs (termios.tcgetattr) . status_flags (fcntl F_GETFL) . sigint_handler (signal.getsignal) .
    wakeup_fd (signal.set_wakeup_fd) . fds (/proc/self/fd with link targets) .
    cursor / alt_screen / main_screen (reference terminal model spec/terminal.py fed with everything written
    to the out_stream; it also answers the cursor position query like a terminal would)

is recorded before entering and after leaving and compared component by component.  Clauses:
  C12.restore           state after leaving the (outermost) context  == state before entering
  C12.restore.inner     nested use: state after leaving the inner context == state as the outer context left it
  C12.between_requests  after every Input.send() (returned or raised) the status flags and the SIGINT handler are
                        what they were before the request
Every failure carries inputs['component'] naming the component that was not restored.
"""
import array
import errno
import fcntl
import io
import json
import os
import random
import select
import signal
import struct
import sys
import termios
import threading
import time
import traceback
import tty
import warnings

from vlib.par import pmap
from bounded.common import Suite

LEVEL = "exploration"
ASSUMPTIONS = [
    "C12 is decided at the exits of a `with` body and of the calls made inside it: an exception is raised after every prefix of a "
    "scripted body, by os.read inside a request, or by a real SIGINT while a request is blocked in select.  A signal (or any "
    "asynchronous exception) delivered between two bytecodes INSIDE __enter__/__exit__ themselves, and pre-emptive interleavings "
    "of arbitrary bytecodes of two threads, are NOT covered (DESIGN 10)",
    "Python runs __exit__ on every exit of a `with` body (language guarantee)",
    "the terminal is the reference model spec/terminal.py (xterm semantics of ?25, ?1049, DSR) fed with what is written to the "
    "out_stream; the kernel pty implements termios / fcntl as documented; linux branch only (the darwin VDSUSP code is not run)",
    "a FullscreenWindow object is single-use (its blessed fullscreen() manager is created in __init__), so repeated use is checked with "
    "a fresh object per cycle for it, with fresh and re-used objects for every other context",
    "a CursorAwareWindow draws on the main screen by design: for it the components cursor / alt_screen / tty / signal / descriptors are "
    "judged, 'main screen content untouched' only for FullscreenWindow",
    "nesting is checked for distinct manager objects in combinations that occur in practice (window + Input, Input + Input, "
    "termhelpers pairs); re-entering one and the same object inside itself is not required to work",
    "scenario 'enter_raises' (CursorAwareWindow.__enter__ itself raises after it switched to cbreak) and scenario "
    "'main_then_worker' with a request are reported with their own scenario label; whether they fall under the statement is "
    "left to the reader of the finding",
]

H, W = 24, 80
MAIN_TEXT = "$ ls\r\nalpha  beta  gamma\r\n$ python demo.py\r\n"


class Boom(Exception):
    pass


EXC = {"Boom": Boom, "KeyboardInterrupt": KeyboardInterrupt, "SystemExit": SystemExit,
       # the statement says "through an exception" - of ANY class: what the application's own code raises inside the block
       "FileNotFoundError": FileNotFoundError, "TimeoutError": TimeoutError, "BrokenPipeError": BrokenPipeError, "OSError": OSError,
       "InterruptedError": InterruptedError, "ValueError": ValueError, "StopIteration": StopIteration, "GeneratorExit": GeneratorExit,
       "EOFError": EOFError, "termios.error": __import__("termios").error, "RecursionError": RecursionError, "MemoryError": MemoryError}
EXTRA_EXCS = [k for k in EXC if k not in ("Boom", "KeyboardInterrupt", "SystemExit")]


# ----------------------------------------------------------------------------------- pty environment (child process)
def _terminal():
    try:
        from spec.terminal import Terminal
        return Terminal(H, W)
    except Exception:      # pragma: no cover - fall-back: only what C12 needs
        return _MiniTerm()


class _MiniTerm:
    """fall-back interpreter: DECTCEM, ?1049, DSR (used only if spec/terminal.py cannot be imported)"""

    def __init__(self):
        self.cursor_visible, self.alt, self.unknown, self._r, self.main, self.row = True, False, [], [], [], 0

    def feed(self, s):
        import re
        for m in re.finditer(r"\x1b\[\?(\d+)([hl])|\x1b\[6n|\n|[^\x1b\n]+|\x1b", s):
            if m.group(1) == "25":
                self.cursor_visible = m.group(2) == "h"
            elif m.group(1) == "1049":
                self.alt = m.group(2) == "h"
            elif m.group(0) == "\x1b[6n":
                self._r.append("\x1b[%d;1R" % (self.row + 1))
            elif m.group(0) == "\n":
                self.row = min(self.row + 1, H - 1)
            elif not self.alt and not m.group(0).startswith("\x1b"):
                self.main.append(m.group(0))

    def take_responses(self):
        r, self._r = "".join(self._r), []
        return r

    def all_rows(self):
        return list(self.main)

    @property
    def _other(self):
        return list(self.main)

    scrollback = ()


class TermOut(io.TextIOWrapper):
    """text stream over the slave fd; everything written is also interpreted by the terminal model, which answers DSR"""

    def __init__(self, env):
        super().__init__(io.FileIO(env.slave, "w", closefd=False), encoding="utf-8", write_through=True)
        self.env = env

    def write(self, s):
        n = super().write(s)
        env = self.env
        env.written.append(s)
        env.term.feed(s)
        resp = env.term.take_responses()
        if resp:
            os.write(env.master, resp.encode())
        env.drain_master()
        return n


class BufferedTermOut(TermOut):
    """a block-buffered stream (what sys.stdout is when it is not a tty, or any stream opened with buffering): the terminal sees what was
    written only when the stream is flushed - a sequence that is written and never flushed has not happened when the context is left"""

    def __init__(self, env):
        super().__init__(env)
        self.pending = []

    def write(self, s):
        self.pending.append(s)
        return len(s)

    def flush(self):
        data, self.pending = "".join(self.pending), []
        if data:
            TermOut.write(self, data)
        try:
            super().flush()
        except Exception:      # noqa: BLE001
            pass


class Env:
    def __init__(self):
        self.master, self.slave = os.openpty()
        fcntl.ioctl(self.master, termios.TIOCSWINSZ, struct.pack("HHHH", H, W, 0, 0))
        self.term = _terminal()
        self.term.feed(MAIN_TEXT)
        self.written = []
        self.in_stream = os.fdopen(self.slave, "r", closefd=False, encoding="utf-8")
        self.out = TermOut(self)
        self.keep = []          # objects that must stay alive (pre-set wake-up pipe, handlers)

    def drain_master(self):
        fl = fcntl.fcntl(self.master, fcntl.F_GETFL)
        fcntl.fcntl(self.master, fcntl.F_SETFL, fl | os.O_NONBLOCK)
        try:
            while True:
                try:
                    if not os.read(self.master, 65536):
                        break
                except (BlockingIOError, OSError):
                    break
        finally:
            fcntl.fcntl(self.master, fcntl.F_SETFL, fl)

    def readable(self):
        b = array.array("i", [0])
        fcntl.ioctl(self.slave, termios.FIONREAD, b)
        return b[0]

    def type_keys(self, data):
        """the user types: returns once the bytes are readable on the slave (non-canonical mode)"""
        want = self.readable() + len(data)
        os.write(self.master, data)
        t_end = time.time() + 3
        while self.readable() < want and time.time() < t_end:
            time.sleep(0.0005)

    def main_screen(self):
        t = self.term
        rows = t._other if t.alt else (t.screen if hasattr(t, "screen") else t.all_rows())
        return [list(r) for r in getattr(t, "scrollback", [])] + [list(r) for r in rows]


def _recording_handler(signum, frame):
    _recording_handler.calls += 1


_recording_handler.calls = 0


def _raising_handler(signum, frame):
    raise Boom("raised by the application's own SIGINT handler")


def apply_initial(env, tweaks, rnd=None):
    """arbitrary initial state: tty attributes, file status flags, SIGINT handler, wake-up descriptor"""
    fd = env.slave
    for tw in tweaks:
        if tw in ("nonblock", "append"):
            fl = fcntl.fcntl(fd, fcntl.F_GETFL)
            fcntl.fcntl(fd, fcntl.F_SETFL, fl | (os.O_NONBLOCK if tw == "nonblock" else os.O_APPEND))
            continue
        if tw == "wakeup":
            r, w = os.pipe()
            os.set_blocking(w, False)
            os.set_blocking(r, False)
            signal.set_wakeup_fd(w, warn_on_full_buffer=False)
            env.keep.append((r, w))
            continue
        if tw.startswith("size"):
            # the size the terminal reports (TIOCGWINSZ): 0x0 is what a pty nobody has sized yet answers
            rows_, cols_ = map(int, tw[4:].split("x"))
            fcntl.ioctl(fd, termios.TIOCSWINSZ, struct.pack("HHHH", rows_, cols_, 0, 0))
            continue
        if tw.startswith("handler_"):
            signal.signal(signal.SIGINT, {"handler_record": _recording_handler, "handler_raise": _raising_handler,
                                          "handler_ign": signal.SIG_IGN, "handler_dfl": signal.SIG_DFL}[tw])
            continue
        a = termios.tcgetattr(fd)
        if tw == "noecho":
            a[3] &= ~termios.ECHO
        elif tw == "vmin":
            a[3] &= ~termios.ICANON
            a[6][termios.VMIN] = 3
            a[6][termios.VTIME] = 2
        elif tw == "raw":
            termios.tcsetattr(fd, termios.TCSANOW, a)
            tty.setraw(fd)
            continue
        elif tw == "cbreak":
            tty.setcbreak(fd)
            continue
        elif tw == "startstop":
            a[6][termios.VSTOP] = b"\x14"
            a[6][termios.VSTART] = b"\x12"
            a[0] |= termios.IXON | termios.IXANY
        elif tw == "noixon":
            a[0] &= ~termios.IXON
        elif tw.startswith("rand"):
            rng = random.Random(int(tw[4:]))
            for idx, bits in ((0, "IGNBRK BRKINT IGNPAR INPCK INLCR IGNCR ICRNL IXON IXANY IXOFF IMAXBEL IUTF8"),
                              (1, "OPOST ONLCR OCRNL ONOCR ONLRET"),
                              (3, "ISIG ICANON ECHO ECHOE ECHOK ECHONL NOFLSH TOSTOP IEXTEN ECHOCTL ECHOKE")):
                for name in bits.split():
                    if rng.random() < 0.35:
                        a[idx] ^= getattr(termios, name, 0)
            for name, vals in (("VMIN", (0, 1, 2, 5)), ("VTIME", (0, 1, 3)), ("VSTOP", (0x13, 0x14, 0)), ("VSTART", (0x11, 0x12, 0)),
                               ("VINTR", (3, 7)), ("VSUSP", (0x1A, 0))):
                if rng.random() < 0.5:
                    a[6][getattr(termios, name)] = bytes([rng.choice(vals)])
            fl = fcntl.fcntl(fd, fcntl.F_GETFL)
            fcntl.fcntl(fd, fcntl.F_SETFL, fl | (os.O_APPEND if rng.random() < 0.4 else 0))
        else:
            raise ValueError(f"unknown initial tweak {tw}")
        termios.tcsetattr(fd, termios.TCSANOW, a)


# ----------------------------------------------------------------------------------- state snapshots
COMPONENTS = ("tty_attrs", "status_flags", "sigint_handler", "wakeup_fd", "fds", "cursor", "alt_screen", "main_screen")


def _fds():
    out = {}
    for f in os.listdir("/proc/self/fd"):
        try:
            out[int(f)] = os.readlink(f"/proc/self/fd/{f}")
            os.fstat(int(f))
        except OSError:
            out.pop(int(f), None)
    return out


def snap(env):
    """must run on the main thread (signal.set_wakeup_fd)"""
    d = {"tty_attrs": termios.tcgetattr(env.slave), "status_flags": fcntl.fcntl(env.slave, fcntl.F_GETFL),
         "sigint_handler": signal.getsignal(signal.SIGINT)}
    prev = signal.set_wakeup_fd(-1)
    if prev != -1:
        try:
            signal.set_wakeup_fd(prev, warn_on_full_buffer=False)      # restore immediately
            d["wakeup_fd"] = prev
        except (ValueError, OSError):
            d["wakeup_fd"] = f"{prev} (a closed descriptor)"
    else:
        d["wakeup_fd"] = -1
    d["fds"] = _fds()
    d["cursor"] = bool(env.term.cursor_visible)
    d["alt_screen"] = bool(env.term.alt)
    d["main_screen"] = env.main_screen()
    return d


_FLAG_NAMES = [(n, getattr(os, n)) for n in ("O_NONBLOCK", "O_APPEND", "O_ASYNC", "O_DIRECT", "O_NOATIME") if hasattr(os, n)]


def _flags(v):
    return "|".join([n for n, b in _FLAG_NAMES if v & b] + [f"acc={v & 3}"])


def _attr_diff(a, b):
    names = ["iflag", "oflag", "cflag", "lflag", "ispeed", "ospeed"]
    out = [f"{n} {x:#o} -> {y:#o}" for n, x, y in zip(names, a[:6], b[:6]) if x != y]
    ccn = {getattr(termios, n): n for n in dir(termios) if n.startswith("V") and isinstance(getattr(termios, n), int) and getattr(termios, n) < 32
           and n not in ("VT0", "VT1", "VTDLY")}
    out += [f"cc[{ccn.get(i, i)}] {x!r} -> {y!r}" for i, (x, y) in enumerate(zip(a[6], b[6])) if x != y]
    lf = {n: getattr(termios, n) for n in ("ECHO", "ICANON", "ISIG", "IEXTEN")}
    out += [f"({n} {'on' if a[3] & v else 'off'} -> {'on' if b[3] & v else 'off'})" for n, v in lf.items() if (a[3] ^ b[3]) & v]
    return ", ".join(out)


def diff(before, after, where="after leaving the context"):
    """-> [(component, detail)]"""
    out = []
    if before["tty_attrs"] != after["tty_attrs"]:
        out.append(("tty_attrs", f"tty attributes {where} differ: {_attr_diff(before['tty_attrs'], after['tty_attrs'])}"))
    if before["status_flags"] != after["status_flags"]:
        out.append(("status_flags", f"file status flags {where}: {_flags(after['status_flags'])}, before: {_flags(before['status_flags'])}"))
    if before["sigint_handler"] is not after["sigint_handler"] and before["sigint_handler"] != after["sigint_handler"]:
        out.append(("sigint_handler", f"SIGINT handler {where} is {after['sigint_handler']!r:.90}, before: {before['sigint_handler']!r:.90}"))
    if before["wakeup_fd"] != after["wakeup_fd"]:
        out.append(("wakeup_fd", f"signal wake-up descriptor {where} is {after['wakeup_fd']}, before: {before['wakeup_fd']}"))
    if before["fds"] != after["fds"]:
        new = {k: v for k, v in after["fds"].items() if before["fds"].get(k) != v}
        gone = {k: v for k, v in before["fds"].items() if after["fds"].get(k) != v}
        out.append(("fds", f"open descriptors {where}: {len(after['fds'])} (before {len(before['fds'])}); new/changed {new}, closed/changed {gone}"))
    if before["cursor"] != after["cursor"]:
        out.append(("cursor", f"cursor {'visible' if after['cursor'] else 'hidden'} {where}, before: {'visible' if before['cursor'] else 'hidden'}"))
    if before["alt_screen"] != after["alt_screen"]:
        out.append(("alt_screen", f"alternate screen {'active' if after['alt_screen'] else 'inactive'} {where}, before: "
                    f"{'active' if before['alt_screen'] else 'inactive'}"))
    if before["main_screen"] != after["main_screen"]:
        a, b = before["main_screen"], after["main_screen"]
        rows = [i for i in range(max(len(a), len(b))) if (a[i] if i < len(a) else None) != (b[i] if i < len(b) else None)]
        out.append(("main_screen", f"main screen content changed {where}: {len(rows)} rows differ (first: row {rows[0]}), {len(b)} rows, before {len(a)}"))
    return out


# ----------------------------------------------------------------------------------- contexts and bodies
def make_ctx(env, name, flags):
    """-> (context manager, kind)"""
    from curtsies.input import Input, ReplacedSigIntHandler
    from curtsies.termhelpers import Nonblocking, Termmode, Cbreak
    from curtsies.window import FullscreenWindow, CursorAwareWindow
    if name == "Input":
        return Input(in_stream=env.in_stream, sigint_event=bool(flags.get("sigint_event")),
                     disable_terminal_start_stop=bool(flags.get("disable_terminal_start_stop")),
                     paste_threshold=flags.get("paste_threshold", 8))
    if name == "Nonblocking":
        return Nonblocking(env.in_stream)
    if name == "Cbreak":
        return Cbreak(env.in_stream)
    if name == "Termmode":
        a = termios.tcgetattr(env.slave)
        if flags.get("attrs", "noecho_vmin") == "noecho_vmin":
            a[3] &= ~(termios.ECHO | termios.ICANON)
            a[6][termios.VMIN] = 2
            a[6][termios.VTIME] = 0
        else:
            a[0] &= ~(termios.IXON | termios.ICRNL)
            a[3] |= termios.ECHO
            a[3] &= ~termios.ISIG
        return Termmode(env.in_stream, a)
    if name == "ReplacedSigIntHandler":
        def replacement(signum, frame):
            replacement.calls += 1
        replacement.calls = 0
        return ReplacedSigIntHandler(replacement)
    out_stream = env.out
    if flags.get("buffered_out"):
        out_stream = BufferedTermOut(env)
        env.keep.append(out_stream)
    if name == "FullscreenWindow":
        return FullscreenWindow(out_stream=out_stream, hide_cursor=bool(flags.get("hide_cursor", True)))
    if name == "CursorAwareWindow":
        return CursorAwareWindow(out_stream=out_stream, in_stream=env.in_stream, hide_cursor=bool(flags.get("hide_cursor", True)),
                                 keep_last_line=bool(flags.get("keep_last_line", False)),
                                 extra_bytes_callback=(env.keep.append if flags.get("extra_bytes_callback", True) else None))
    raise ValueError(name)


BODIES = {
    "Input": ["send0", "key_send", "event_trigger", "send0", "scheduled_trigger", "send0", "paste_send"],
    "Input+ts": ["send0", "threadsafe_trigger", "send0"],
    "FullscreenWindow": ["render_small", "render_full", "render_small", "render_over"],
    "CursorAwareWindow": ["render_small", "cursor_diff", "render_tall", "render_small"],
    "Nonblocking": ["read_try", "noop"],
    "Termmode": ["noop", "noop"],
    "Cbreak": ["noop", "inner_normal"],
    "ReplacedSigIntHandler": ["noop", "noop"],
}


def do_op(env, ctx_obj, entered, op):
    """one operation of a scripted body; `entered` is what __enter__ returned"""
    from curtsies import events, fmtstr
    if op == "noop":
        return
    if op == "send0":
        ctx_obj.send(timeout=0)
    elif op == "send_small":
        ctx_obj.send(timeout=0.01)
    elif op == "key_send":
        env.type_keys(b"a")
        r = ctx_obj.send(timeout=1)
        if r != "a":
            raise AssertionError(f"harness: typed 'a', request returned {r!r}")
    elif op == "paste_send":
        env.type_keys(b"a paste of twenty by")
        ctx_obj.send(timeout=1)
        while ctx_obj.send(timeout=0) is not None:
            pass
    elif op == "event_trigger":
        ctx_obj.event_trigger(events.Event)()
    elif op == "scheduled_trigger":
        ctx_obj.scheduled_event_trigger(events.ScheduledEvent)(time.time() - 1)
    elif op == "threadsafe_trigger":
        ctx_obj.threadsafe_event_trigger(events.Event)()
    elif op in ("render_small", "render_full", "render_over", "render_tall"):
        n = {"render_small": 2, "render_full": H, "render_over": H + 3, "render_tall": H + 2}[op]
        ctx_obj.render_to_terminal([fmtstr(("line %d of %s " % (i, op)) * 2) for i in range(n)], (min(1, n - 1), 3))
    elif op == "cursor_diff":
        ctx_obj.get_cursor_vertical_diff()
    elif op == "read_try":
        try:
            os.read(env.slave, 10)
        except BlockingIOError:
            pass
    elif op == "inner_normal":
        with entered:           # the Termmode returned by Cbreak.__enter__ ("back to normal for a moment")
            pass
    else:
        raise ValueError(op)


class Outcome:
    def __init__(self, skip=()):
        self.fails = []         # (clause, component, detail)
        self.notes = []
        self.skip = set(skip)
        self.frozen = False     # set once a worker thread hung: whatever that zombie thread reports later is not recorded

    def add(self, clause, diffs):
        for comp, detail in diffs:
            if comp not in self.skip and not self.frozen:
                self.fails.append((clause, comp, detail))

    def exception(self, detail):
        if not self.frozen:
            self.fails.append(("C12.restore", "exception", detail))


def _run_with(env, ctx_obj, body, prefix, exc, out, on_inside=None):
    """`with ctx_obj: body[:prefix]; raise exc` - an unexpected exception is recorded as component 'exception'"""
    step = "__enter__"
    try:
        with ctx_obj as entered:
            if on_inside:
                on_inside()
            for i, op in enumerate(body[:prefix]):
                step = f"body[{i}]={op}"
                do_op(env, ctx_obj, entered, op)
            step = "raise"
            if exc:
                raise EXC[exc]("scripted")
            step = "__exit__"
    except BaseException as e:      # noqa: BLE001
        if exc and isinstance(e, EXC[exc]) and step == "raise":
            return
        out.exception(f"{type(e).__name__}: {str(e)[:150]} escaped at {step} "
                      f"({'while leaving through ' + exc if exc and step == 'raise' else 'not the scripted exception'})")
    else:
        if exc:
            out.exception(f"the scripted {exc} raised inside the context was swallowed")


def _in_thread(fn, out, limit=6.0):
    box = []

    def body():
        try:
            fn()
        except BaseException as e:      # noqa: BLE001
            box.append(e)
    t = threading.Thread(target=body, daemon=True)
    t.start()
    t.join(limit)
    if t.is_alive():
        out.frozen = True
        fr = sys._current_frames().get(t.ident)
        stack = " <- ".join(f"{os.path.basename(f.filename)}:{f.lineno} {f.name}" for f in reversed(traceback.extract_stack(fr)[-4:])) if fr else "?"
        out.fails.append(("C12.restore", "exception", f"the worker thread did not finish within {limit} s (hung inside the context at {stack})"))
        return False
    if box:
        out.exception(f"worker thread: {type(box[0]).__name__}: {box[0]}")
    return True


# ----------------------------------------------------------------------------------- scenarios (run inside the child)
def scenario(case):
    import curtsies.input as ci
    ci.getpreferredencoding = lambda: "utf-8"
    env = Env()
    kind = case["scenario"]
    name, flags = case["context"], case.get("flags", {})
    # a CursorAwareWindow draws on the main screen by design: "main screen untouched" is a statement about the alternate screen
    out = Outcome(skip=["main_screen"] if "CursorAwareWindow" in (name, case.get("inner"), case.get("outer")) else [])
    apply_initial(env, case.get("initial", []))
    body = list(case.get("body", []))
    prefix = case.get("prefix", len(body))
    exc = case.get("exc")
    worker = case.get("thread") == "worker"

    if kind == "single":
        before = snap(env)
        ctx_obj = make_ctx(env, name, flags)

        def go():
            _run_with(env, ctx_obj, body, prefix, exc, out)
        ok = _in_thread(go, out) if worker else (go() or True)
        if ok:
            out.add("C12.restore", diff(before, snap(env)))

    elif kind == "tty_gone":
        # the terminal goes away while the context is open (the pty's other end is closed / the application closes the stream): the
        # tty attributes cannot be put back - tcsetattr fails and that error may leave __exit__ - but everything else that entering
        # changed must be (SIGINT handler, signal wake-up descriptor, no leaked descriptors), also over repeated enter/leave cycles
        def part():
            prev = signal.set_wakeup_fd(-1)
            if prev != -1:
                try:
                    signal.set_wakeup_fd(prev, warn_on_full_buffer=False)
                except (ValueError, OSError):
                    prev = f"{prev} (a closed descriptor)"
            return dict(sigint_handler=signal.getsignal(signal.SIGINT), wakeup_fd=prev, fds=_fds())
        how = case.get("how", "hangup")
        cycles = case.get("cycles", 1)
        for i in range(cycles):
            e2 = Env()
            before = part()
            ctx_obj = make_ctx(e2, name, flags)
            try:
                with ctx_obj as entered:
                    for op in body[:prefix]:
                        do_op(e2, ctx_obj, entered, op)
                    if how == "hangup":
                        os.close(e2.master)
                    else:
                        e2.in_stream.close()
                        os.close(e2.slave)
            except (termios.error, OSError, ValueError):
                pass            # the failing tcsetattr / fileno() of the dead terminal
            except BaseException as e:      # noqa: BLE001
                out.exception(f"{type(e).__name__}: {str(e)[:150]} escaped when the terminal was gone ({how})")
            for fd in ([e2.slave] if how == "hangup" else [e2.master]):
                try:
                    os.close(fd)
                except OSError:
                    pass
            e2.out.detach() if hasattr(e2.out, "detach") else None
            after = part()
            for comp in ("sigint_handler", "wakeup_fd"):
                if after[comp] != before[comp]:
                    out.fails.append(("C12.restore", comp, f"terminal gone ({how}), cycle {i}: {comp} is {after[comp]!r} after leaving the context, "
                                                            f"before entering: {before[comp]!r}"))
            if i == cycles - 1 and len(after["fds"]) > len(before["fds"]) + 0 and cycles > 1:
                pass
        # descriptor leak over all cycles (the two ends of each scenario pty were closed above)
        # (counted against the state before the first cycle)
    elif kind == "repeat":
        before = snap(env)
        ctx_obj = make_ctx(env, name, flags)
        cycles = case.get("cycles", 50)

        def go():
            nonlocal ctx_obj
            for i in range(cycles):
                if not case.get("reuse") and i:
                    ctx_obj = make_ctx(env, name, flags)
                _run_with(env, ctx_obj, body, prefix, exc if (exc and i % 3 == 1) else None, out)
                if out.fails:
                    break
        ok = _in_thread(go, out, 20.0) if worker else (go() or True)
        if ok:
            after = snap(env)
            d = diff(before, after, f"after {cycles} enter/leave cycles")
            out.add("C12.restore", d)

    elif kind == "late_enter":
        ctx_obj = make_ctx(env, name, flags)            # constructed early ...
        apply_initial(env, case.get("then", []))        # ... the state changes ...
        before = snap(env)                              # ... entered later: THIS is the state to come back to
        _run_with(env, ctx_obj, body, prefix, exc, out)
        out.add("C12.restore", diff(before, snap(env)))

    elif kind == "nested":
        inner_name, inner_flags = case["inner"], case.get("inner_flags", {})
        before = snap(env)
        a = make_ctx(env, name, flags)
        b = make_ctx(env, inner_name, inner_flags) if case.get("upfront", True) else None
        step = "outer __enter__"
        try:
            with a as ea:
                for op in case.get("outer_body_before", []):
                    do_op(env, a, ea, op)
                mid = snap(env)
                if b is None:
                    b = make_ctx(env, inner_name, inner_flags)
                _run_with(env, b, body, prefix, exc if case.get("exc_at", "inner") == "inner_only" else None, out)
                out.add("C12.restore.inner", diff(mid, snap(env), "after leaving the inner context (compared with the state inside the outer one)"))
                step = "outer body"
                for op in case.get("outer_body_after", []):
                    do_op(env, a, ea, op)
                step = "raise"
                if exc and case.get("exc_at", "inner") != "inner_only":
                    raise EXC[exc]("scripted")
        except BaseException as e:      # noqa: BLE001
            if not (exc and isinstance(e, EXC[exc]) and step == "raise"):
                out.exception(f"{type(e).__name__}: {str(e)[:150]} escaped at {step}")
        out.add("C12.restore", diff(before, snap(env)))

    elif kind == "both_exc":        # the exception is raised inside the inner context and passes through both
        inner_name, inner_flags = case["inner"], case.get("inner_flags", {})
        before = snap(env)
        a, b = make_ctx(env, name, flags), make_ctx(env, inner_name, inner_flags)
        step = "enter"
        try:
            with a as ea:
                with b as eb:
                    for i, op in enumerate(body[:prefix]):
                        step = f"body[{i}]={op}"
                        do_op(env, b, eb, op)
                    step = "raise"
                    raise EXC[exc]("scripted")
        except BaseException as e:      # noqa: BLE001
            if not (isinstance(e, EXC[exc]) and step == "raise"):
                out.exception(f"{type(e).__name__}: {str(e)[:150]} escaped at {step}")
        out.add("C12.restore", diff(before, snap(env)))

    elif kind == "main_then_worker":
        ctx_obj = make_ctx(env, name, flags)
        _run_with(env, ctx_obj, case.get("first_body", ["send0"]), 99, None, out)     # used on the main thread first
        before = snap(env)
        ok = _in_thread(lambda: _run_with(env, ctx_obj, body, prefix, exc, out), out, 3.0)
        if ok:
            out.add("C12.restore", diff(before, snap(env)))

    elif kind == "enter_raises":
        before = snap(env)
        os.write(env.master, b"x")          # type-ahead that precedes the cursor position report
        ctx_obj = make_ctx(env, name, flags)
        raised = None
        try:
            with ctx_obj:
                pass
        except ValueError as e:
            raised = e
        except BaseException as e:      # noqa: BLE001
            out.exception(f"{type(e).__name__}: {e}")
        out.notes.append(f"__enter__ raised {raised!r:.60}" if raised else "entered and left normally")
        out.add("C12.restore", diff(before, snap(env), "after __enter__ raised" if raised else "after leaving the context"))

    elif kind == "between_requests":
        _between_requests(env, case, out)

    elif kind == "sigint_blocked":
        _sigint_blocked(env, case, out)

    else:
        raise ValueError(kind)
    unknown = getattr(env.term, "unknown", [])
    if unknown:
        out.notes.append(f"terminal model saw unknown sequences: {unknown[:3]}")
    return {"fails": out.fails, "notes": out.notes}


class _OsFault:
    """os as seen by curtsies.input: the next read(s) of the input descriptor misbehave as scripted"""

    def __init__(self, fd):
        self.fd, self.script = fd, []

    def __getattr__(self, name):
        return getattr(os, name)

    def read(self, fd, n):
        if fd == self.fd and self.script:
            mode = self.script.pop(0)
            if mode == "blocking_io":
                raise BlockingIOError(errno.EAGAIN, "Resource temporarily unavailable")
            if mode == "eio":
                raise OSError(errno.EIO, "Input/output error")
            if mode == "empty":
                return b""
            if mode == "kbint":
                raise KeyboardInterrupt()
            if mode == "boom":
                raise Boom("inside os.read")
            if mode == "sigint":
                # a real SIGINT arrives while the request is reading (its handler - the Input's own while sigint_event is on - runs on this
                # thread before the read returns); the read then delivers what was typed
                os.kill(os.getpid(), signal.SIGINT)
                for _ in range(20):
                    pass
        return os.read(fd, n)


def _between_requests(env, case, out):
    import curtsies.input as ci
    before = snap(env)
    inp = make_ctx(env, "Input", case.get("flags", {}))
    fault = _OsFault(env.slave)
    saved = ci.os
    ci.os = fault
    try:
        try:
            with inp:
                for i, (typed, script, timeout) in enumerate(case["requests"]):
                    f0 = fcntl.fcntl(env.slave, fcntl.F_GETFL)
                    h0 = signal.getsignal(signal.SIGINT)
                    if typed:
                        env.type_keys(bytes.fromhex(typed))
                    fault.script = list(script)
                    res = None
                    try:
                        res = repr(inp.send(timeout))
                    except (OSError, KeyboardInterrupt, Boom, ValueError) as e:
                        res = f"raised {type(e).__name__}"
                    f1 = fcntl.fcntl(env.slave, fcntl.F_GETFL)
                    h1 = signal.getsignal(signal.SIGINT)
                    what = f"after request {i} (typed {typed!r}, os.read script {script}, send({timeout}) -> {res})"
                    if f1 != f0:
                        out.fails.append(("C12.between_requests", "status_flags", f"file status flags {what}: {_flags(f1)}, before the request: {_flags(f0)}"))
                    if h1 is not h0 and h1 != h0:
                        out.fails.append(("C12.between_requests", "sigint_handler", f"SIGINT handler {what}: {h1!r:.80}, before the request: {h0!r:.80}"))
                    fault.script = []
                    if case.get("leave_unconsumed") and i == len(case["requests"]) - 1:
                        break           # the block ends with whatever the last request left queued (a SIGINT event, buffered keys)
                    while True:         # forget what is left over
                        try:
                            if inp.send(0) is None:
                                break
                        except Exception:
                            break
        except BaseException as e:      # noqa: BLE001
            out.exception(f"{type(e).__name__}: {str(e)[:150]} escaped")
    finally:
        ci.os = saved
    out.add("C12.restore", diff(before, snap(env)))


def _sigint_blocked(env, case, out):
    """a REAL SIGINT (os.kill from a timer thread) 0.25 s into a blocked request"""
    from curtsies import events
    before = snap(env)
    flags = case.get("flags", {})
    outer = make_ctx(env, case["outer"], case.get("outer_flags", {})) if case.get("outer") else None
    inp = make_ctx(env, "Input", flags)
    timeout = case.get("timeout", 1.5)
    timer = threading.Timer(0.25, lambda: os.kill(os.getpid(), signal.SIGINT))
    how = "no exception"
    got = "-"
    t0 = time.time()
    try:
        import contextlib
        with (outer if outer is not None else contextlib.nullcontext()) as w:
            with inp:
                if w is not None:
                    do_op(env, w, w, "render_small")
                timer.start()
                got = inp.send(timeout)
                if isinstance(got, events.SigIntEvent):
                    inp.send(0)
                    if case.get("then_exc"):
                        raise EXC[case["then_exc"]]("scripted")
    except KeyboardInterrupt:
        how = "KeyboardInterrupt"
    except Boom:
        how = "Boom"
    except BaseException as e:      # noqa: BLE001
        out.exception(f"{type(e).__name__}: {str(e)[:150]} escaped")
    timer.cancel()
    timer.join(3)
    time.sleep(0.01)
    out.notes.append(f"request returned {got!r:.40} / left through {how} after {time.time() - t0:.2f} s")
    out.add("C12.restore", diff(before, snap(env), f"after a SIGINT during the blocked request (request -> {got!r:.30}, context left through {how})"))


# ----------------------------------------------------------------------------------- isolation
def run_isolated(case, limit=None):
    """fork, run the scenario in the child, -> result dict (keys fails, notes | crash | hang)"""
    limit = limit or case.get("limit", 25.0 if case.get("scenario") == "repeat" else 10.0)
    r, w = os.pipe()
    with warnings.catch_warnings():
        warnings.simplefilter("ignore", DeprecationWarning)
        pid = os.fork()
    if pid == 0:
        code = 0
        try:
            os.close(r)
            signal.signal(signal.SIGINT, signal.default_int_handler)
            try:
                signal.set_wakeup_fd(-1)
            except Exception:
                pass
            try:
                res = scenario(case)
            except BaseException:       # noqa: BLE001
                res = {"crash": traceback.format_exc()[-1200:]}
            data = json.dumps(res, default=repr).encode()
            while data:
                n = os.write(w, data)
                data = data[n:]
        except BaseException:           # noqa: BLE001
            code = 2
        finally:
            os._exit(code)
    os.close(w)
    chunks = []
    t_end = time.time() + limit
    hung = False
    while True:
        left = t_end - time.time()
        if left <= 0:
            hung = True
            break
        rs, _, _ = select.select([r], [], [], left)
        if not rs:
            hung = True
            break
        c = os.read(r, 65536)
        if not c:
            break
        chunks.append(c)
    os.close(r)
    if hung:
        try:
            os.kill(pid, signal.SIGKILL)
        except OSError:
            pass
    os.waitpid(pid, 0)
    if hung:
        return {"hang": f"the scenario did not finish within {limit} s (killed)"}
    try:
        return json.loads(b"".join(chunks).decode())
    except Exception:
        return {"crash": f"child died without a result: {b''.join(chunks)[:200]!r}"}


def evaluate(case):
    """-> (fails [(clause, component, detail)], crash or None, notes)"""
    res = run_isolated(case)
    if "hang" in res:
        return [("C12.restore", "exception", res["hang"])], None, []
    if "crash" in res:
        return [], res["crash"], []
    return [tuple(f) for f in res["fails"]], None, res.get("notes", [])


def replay(case):
    fails, crash, notes = evaluate(case)
    if crash:
        return False, "harness crashed: " + crash
    if fails:
        return False, "; ".join(f"[{c}/{comp}] {d}" for c, comp, d in fails)[:1500]
    return True, " ".join(notes)


# ----------------------------------------------------------------------------------- case generation
INPUT_FLAGS = [dict(sigint_event=a, disable_terminal_start_stop=b) for a in (False, True) for b in (False, True)]
CONFIGS = ([("Input", f) for f in INPUT_FLAGS] + [("Nonblocking", {}), ("Termmode", {"attrs": "noecho_vmin"}), ("Termmode", {"attrs": "other"}),
           ("Cbreak", {}), ("ReplacedSigIntHandler", {})] +
           [("FullscreenWindow", dict(hide_cursor=h)) for h in (True, False)] +
           [("CursorAwareWindow", dict(hide_cursor=h, keep_last_line=k)) for h in (True, False) for k in (False, True)])
INITIALS_QUICK = [[], ["nonblock"], ["append", "noecho"], ["vmin", "startstop"], ["wakeup"], ["handler_record"], ["raw", "handler_ign"], ["handler_dfl"]]
INITIALS_MORE = [["noixon", "append", "nonblock"], ["cbreak"], ["handler_raise", "wakeup", "noecho"], ["startstop", "nonblock"]]


def _allowed(name, initial, thread):
    if name == "CursorAwareWindow" and ("nonblock" in initial):
        return False        # its cursor query needs a blocking stream (documented)
    if name == "CursorAwareWindow" and any(t.startswith("rand") for t in initial):
        return True
    if name == "ReplacedSigIntHandler" and thread == "worker":
        return False        # signal.signal only works on the main thread
    return True


def _body_for(name, variant=0):
    if name == "Input" and variant == 1:
        return BODIES["Input+ts"]
    return BODIES[name]


def cases(tier, seed):
    thorough = tier == "thorough"
    initials = INITIALS_QUICK + (INITIALS_MORE if thorough else [])
    rng = random.Random(seed * 7919 + 12)
    if thorough:
        initials = initials + [[f"rand{rng.randrange(10 ** 6)}"] for _ in range(30)]
    else:
        initials = initials + [[f"rand{rng.randrange(10 ** 6)}"] for _ in range(2)]
    excs = ["Boom", "KeyboardInterrupt"] + (["SystemExit"] if thorough else [])
    out = []

    def add(**kw):
        kw.setdefault("flags", {})
        kw.setdefault("initial", [])
        out.append(kw)

    # (1)+(2) enter / leave normally and through an exception after every prefix of the scripted body, main and worker thread
    for name, flags in CONFIGS:
        for ii, initial in enumerate(initials):
            for thread in ("main", "worker"):
                if not _allowed(name, initial, thread):
                    continue
                for variant in ((0, 1) if name == "Input" else (0,)):
                    body = _body_for(name, variant)
                    if variant == 1 and ii > 1 and not thorough:
                        continue
                    add(scenario="single", context=name, flags=flags, initial=initial, thread=thread, body=body, prefix=len(body), exc=None)
                    # exceptions after every prefix: all prefixes for the first two initial states, first/last otherwise
                    prefixes = range(len(body) + 1) if (ii < 2 or thorough) else (0, len(body))
                    for p in prefixes:
                        for e in excs:
                            if not thorough and thread == "worker" and e != "Boom":
                                continue
                            add(scenario="single", context=name, flags=flags, initial=initial, thread=thread, body=body, prefix=p, exc=e)
    # (2b) the class of the exception that leaves the block: OSError family, control-flow exceptions, resource errors
    for name, flags in CONFIGS:
        body = _body_for(name, 0)
        for k, e in enumerate(EXTRA_EXCS):
            if not thorough and (k + len(name)) % 2 and e not in ("OSError", "FileNotFoundError", "StopIteration"):
                continue
            for p in (0, len(body)):
                add(scenario="single", context=name, flags=flags, initial=initials[0], thread="main", body=body, prefix=p, exc=e)
    # (2d) windows on a terminal that reports an unusual size (0x0: a pty nobody has sized yet; one cell; narrower than the arrays drawn)
    for name, flags in CONFIGS:
        if "Window" not in name:
            continue
        body = _body_for(name, 0)
        for size in ("size0x0", "size1x1", "size2x3", "size0x7"):
            add(scenario="single", context=name, flags=flags, initial=[size], thread="main", body=body, prefix=len(body), exc=None)
            for p in ((0, 1, 2, len(body)) if (thorough or size == "size0x0") else (1,)):
                add(scenario="single", context=name, flags=flags, initial=[size], thread="main", body=body, prefix=p, exc="Boom")
    # (2e) windows writing to a BUFFERED stream: what the terminal has seen when the context is left is what was flushed
    for name, flags in CONFIGS:
        if "Window" not in name:
            continue
        body = _body_for(name, 0)
        for p, e in ((len(body), None), (0, None), (1, "Boom"), (len(body), "Boom"), (0, "Boom")):
            add(scenario="single", context=name, flags=dict(flags, buffered_out=True), initial=[], thread="main", body=body, prefix=p, exc=e)
    # (2c) the terminal goes away while an Input is open
    for flags in ({"sigint_event": True}, {"sigint_event": False}):
        for how in ("hangup", "closed"):
            add(scenario="tty_gone", context="Input", flags=flags, how=how, body=BODIES["Input"][:2], prefix=2, exc=None, thread="main", cycles=3)
    # (3) repeated use
    for name, flags in CONFIGS:
        for reuse in (False, True):
            if reuse and name == "FullscreenWindow":
                continue    # its __enter__ consumes a one-shot contextlib manager made in __init__: the object is single-use
            for initial in ([], ["wakeup", "append"]):
                for thread in ("main", "worker"):
                    if not _allowed(name, initial, thread):
                        continue
                    body = _body_for(name)[:2]
                    add(scenario="repeat", context=name, flags=flags, initial=initial, thread=thread, body=body, prefix=len(body),
                        exc="Boom" if reuse else None, reuse=reuse, cycles=50)
    for flags in INPUT_FLAGS[:2]:
        add(scenario="repeat", context="Input", flags=flags, body=BODIES["Input+ts"], prefix=3, exc=None, reuse=False, cycles=50, thread="main")
    # (4) nested use
    nestings = [("Input", f1, "Input", f2) for f1 in INPUT_FLAGS for f2 in (INPUT_FLAGS if thorough else INPUT_FLAGS[::3])]
    nestings += [("FullscreenWindow", dict(hide_cursor=h), "Input", f) for h in (True, False) for f in INPUT_FLAGS[::3]]
    nestings += [("CursorAwareWindow", dict(hide_cursor=h, keep_last_line=k), "Input", f) for h in (True, False) for k in (False, True)
                 for f in INPUT_FLAGS[::3]]
    nestings += [("Input", f, "FullscreenWindow", dict(hide_cursor=True)) for f in INPUT_FLAGS[::3]]
    nestings += [("Input", f, "CursorAwareWindow", dict(hide_cursor=True, keep_last_line=False)) for f in INPUT_FLAGS[::3]]
    nestings += [("Input", f, x, {}) for f in INPUT_FLAGS[::3] for x in ("Nonblocking", "Cbreak", "Termmode", "ReplacedSigIntHandler")]
    nestings += [(x, {}, "Input", f) for f in INPUT_FLAGS[::3] for x in ("Nonblocking", "Cbreak", "Termmode", "ReplacedSigIntHandler")]
    nestings += [(x, {}, y, {}) for x in ("Nonblocking", "Cbreak", "Termmode", "ReplacedSigIntHandler")
                 for y in ("Nonblocking", "Cbreak", "Termmode", "ReplacedSigIntHandler")]
    for (n1, f1, n2, f2) in nestings:
        for initial in ([], ["wakeup", "handler_record", "append"]):
            for upfront in (True, False):
                for e in (None, "Boom", "KeyboardInterrupt"):
                    if not thorough and e == "KeyboardInterrupt" and not upfront:
                        continue
                    body = _body_for(n2)[:3]
                    add(scenario="nested", context=n1, flags=f1, inner=n2, inner_flags=f2, initial=initial, upfront=upfront, body=body,
                        prefix=len(body), exc=e, exc_at="outer", outer_body_before=_body_for(n1)[:1], outer_body_after=_body_for(n1)[:1],
                        thread="main")
                    if e:
                        add(scenario="nested", context=n1, flags=f1, inner=n2, inner_flags=f2, initial=initial, upfront=upfront, body=body,
                            prefix=1, exc=e, exc_at="inner_only", outer_body_before=[], outer_body_after=_body_for(n1)[:1], thread="main")
                        add(scenario="both_exc", context=n1, flags=f1, inner=n2, inner_flags=f2, initial=initial, body=body, prefix=2, exc=e,
                            thread="main")
    # (4b) constructed early, entered after the state changed
    for name, flags in CONFIGS:
        for then in (["append"], ["noecho", "startstop"], ["nonblock"], ["vmin"], ["wakeup", "handler_record"]):
            if not _allowed(name, then, "main"):
                continue
            for e in (None, "Boom"):
                body = _body_for(name)[:2]
                add(scenario="late_enter", context=name, flags=flags, then=then, body=body, prefix=len(body), exc=e, thread="main")
    # (5) an Input used on the main thread first, then entered / left on a worker thread
    for flags in INPUT_FLAGS:
        for body in ([], ["send0"]):
            for e in (None, "Boom"):
                add(scenario="main_then_worker", context="Input", flags=flags, body=body, prefix=len(body), exc=e, thread="main_then_worker",
                    limit=8.0)
    # (6) CursorAwareWindow.__enter__ raising after the switch to cbreak (type-ahead, no extra_bytes_callback)
    for h in (True, False):
        for cb in (False, True):
            add(scenario="enter_raises", context="CursorAwareWindow", flags=dict(hide_cursor=h, keep_last_line=False, extra_bytes_callback=cb),
                thread="main")
    # (7) between requests
    reqs = [
        [["61", [], 1], ["62", ["blocking_io"], 1], ["63", ["empty"], 1], ["", [], 0], ["64", ["eio"], 1], ["65", ["kbint"], 1], ["66", [], 0.01]],
        [["6162636465666768696a6b6c", [None, "eio"], 1], ["6162636465666768696a6b6c", [None, "kbint"], 1], ["6d", ["boom"], None], ["6e", [], None]],
    ]
    for flags in INPUT_FLAGS:
        for initial in ([], ["nonblock"], ["append", "handler_record"]):
            for rq in reqs:
                add(scenario="between_requests", context="Input", flags=dict(flags, paste_threshold=8), initial=initial, requests=rq, thread="main")
    # (7b) a SIGINT that arrives during a request which returns something else: the block ends with the SIGINT event still queued
    for flags in INPUT_FLAGS:
        for initial in ([], ["handler_record"], ["handler_raise", "wakeup"], ["handler_ign"]):
            for rq in ([["61", ["sigint"], 1]], [["6162", ["sigint"], 1], ["", [], 0]], [["61", ["sigint"], 1], ["62", ["sigint"], 1]]):
                add(scenario="between_requests", context="Input", flags=dict(flags, paste_threshold=8), initial=initial, requests=rq,
                    leave_unconsumed=True, thread="main")
    # (8) a real SIGINT while a request is blocked
    for flags in INPUT_FLAGS[:: (1 if thorough else 3)] + ([] if thorough else [INPUT_FLAGS[2]]):
        for initial in ([], ["handler_record"], ["handler_raise", "wakeup"], ["handler_ign"]):
            for outer, oflags in ((None, {}), ("FullscreenWindow", dict(hide_cursor=True)),
                                  ("CursorAwareWindow", dict(hide_cursor=True, keep_last_line=True))):
                if not thorough and outer and initial not in ([], ["handler_raise", "wakeup"]):
                    continue
                for then_exc in ((None, "Boom") if flags["sigint_event"] else (None,)):
                    add(scenario="sigint_blocked", context="Input", flags=flags, initial=initial, outer=outer, outer_flags=oflags,
                        timeout=(None if initial in ([], ["handler_raise", "wakeup"]) and not flags["sigint_event"] else 1.0),
                        then_exc=then_exc, thread="main")
    return out


# ----------------------------------------------------------------------------------- driver
def _batch(cs):
    out = []
    for case in cs:
        try:
            out.append((case,) + evaluate(case))
        except BaseException as e:      # noqa: BLE001
            out.append((case, [], f"{type(e).__name__}: {e}", []))
    return out


def _inputs(case, component, clause, detail=""):
    d = dict(case)
    d["hung"] = "did not finish within" in detail
    d["component"] = component
    d["flags"] = dict(case.get("flags", {}))
    body = list(case.get("body", [])[:case.get("prefix", 99)]) + list(case.get("first_body", []))
    d["uses_threadsafe_trigger"] = "threadsafe_trigger" in body
    d["preset_wakeup_fd"] = "wakeup" in case.get("initial", []) or "wakeup" in case.get("then", [])
    d["nested_inputs"] = case.get("scenario") in ("nested", "both_exc") and case.get("context") == "Input" and case.get("inner") == "Input"
    return d


SUITES = [
    ("C12.single", ("single",), "every context (Input x sigint_event x disable_terminal_start_stop, Nonblocking, Termmode x2, Cbreak, "
     "ReplacedSigIntHandler, FullscreenWindow x hide_cursor, CursorAwareWindow x hide_cursor x keep_last_line) x initial states (plain, "
     "O_NONBLOCK, O_APPEND+echo off, VMIN=3+own start/stop characters, pre-set wake-up descriptor, own SIGINT handler, raw+SIG_IGN, SIG_DFL, seeded random "
     "tty attribute sets) x main / worker thread: left normally and through Boom / KeyboardInterrupt raised after every prefix of a scripted "
     "body (requests with timeout 0, typed keys, pastes, event/scheduled/thread-safe trigger creation, renders smaller/equal/larger than the "
     "screen, cursor queries)"),
    ("C12.repeat", ("repeat",), "50 enter/leave cycles (fresh and re-used manager objects, every third cycle left through an exception), main "
     "and worker thread: descriptor table and all other components compared with the state before the first cycle"),
    ("C12.nested", ("nested", "both_exc", "late_enter"), "nested distinct managers (Input in Input for all flag pairs, window + Input both ways, "
     "Input + termhelpers both ways, all termhelpers pairs), both built up front or the inner one built inside; exception in the inner "
     "body only / in the outer body / through both; state after the inner exit compared with the state inside the outer context; managers "
     "constructed early and entered after flags / attributes / handler / wake-up descriptor changed"),
    ("C12.threads_and_enter", ("main_then_worker", "enter_raises"), "an Input used on the main thread first and then entered/left (with and "
     "without a request) on a worker thread; CursorAwareWindow.__enter__ meeting type-ahead with / without extra_bytes_callback"),
    ("C12.between_requests", ("between_requests",), "after every request - normal key, paste, os.read raising BlockingIOError / EIO / "
     "KeyboardInterrupt / an application exception, returning b'' (also on the second read of a paste) - F_GETFL and the SIGINT handler "
     "equal those before the request; then the context is left and everything compared"),
    ("C12.tty_gone", ("tty_gone",), "the terminal goes away while an Input is open (the pty's other end is closed / the application closes the "
     "stream), 3 enter/leave cycles, sigint_event on and off: tcsetattr may fail and its error may leave __exit__, but the SIGINT handler and "
     "the signal wake-up descriptor are back after every cycle"),
    ("C12.sigint", ("sigint_blocked",), "a real SIGINT (os.kill from a timer thread, 0.25 s) while send() is blocked, sigint_event True/False "
     "x initial handler default / recording / raising / SIG_IGN x alone or inside a FullscreenWindow / CursorAwareWindow; all components compared"),
]


def deductive(check, tier):
    """enter/exit protocol runs of the REAL bodies over a symbolic ghost OS state (contracts/contexts.py)"""
    import contracts.contexts as X
    from pyvc.verify import verify
    for c in X.PROTOCOLS:
        verify(c, tier, check)
    # what the application does between entering and leaving a window: a render leaves every restored component as it found it (a cursor
    # hidden for the duration of a render is shown again on every path, at every terminal size including 0x0)
    import contracts.renderos as RO
    for c in RO.CONTRACTS:
        verify(c, tier, check)
    check.assume("deductive layer: POSIX/CPython/blessed contracts of termios, tty, fcntl, signal, os.pipe/close/read and the capability "
                 "strings are ASSUMED (contracts/osmodel.py) and probed by the pty suite; Python runs __exit__ on every exit of a with body; "
                 "a signal delivered between two bytecodes inside __enter__/__exit__ is not modelled (DESIGN 10)")


def run(check, tier, seed):
    deductive(check, tier)
    allc = cases(tier, seed)
    rng = random.Random(seed)
    order = list(range(len(allc)))
    rng.shuffle(order)          # spread slow scenarios over the workers
    nw = 28
    jobs = [[allc[i] for i in order[k::nw]] for k in range(nw)]
    jobs = [j for j in jobs if j]
    results = {}
    for batch in pmap(_batch, jobs):
        for case, fails, crash, notes in batch:
            results[json.dumps(case, sort_keys=True)] = (case, fails, crash, notes)
    for sname, kinds, rule in SUITES:
        s = Suite(check, sname, rule + "; each scenario in its own forked process on a real pty", bound=f"{tier} tier", exhaustive=False)
        for case in allc:
            if case["scenario"] not in kinds:
                continue
            case, fails, crash, notes = results[json.dumps(case, sort_keys=True)]
            s.case(json.dumps(case, sort_keys=True), sample=case)
            if crash:
                check.engine_error(f"{sname}: {crash[-400:]} | case {json.dumps(case)[:300]}")
                continue
            for clause, component, detail in fails:
                s.fail(clause, _inputs(case, component, clause, detail), detail, replay={"kind": "suite", "module": "props.C12", "case": case})
        s.done()
