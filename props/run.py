"""bin/check <ID> <quick|thorough>: run one property's check against /repo's current working tree."""
import importlib
import json
import os
import sys
import traceback

VERIF = os.path.dirname(os.path.dirname(os.path.abspath(__file__)))
sys.path.insert(0, VERIF)
REPO = os.environ.get("CURTSIES_REPO", "/repo")
sys.path.insert(0, REPO)
os.environ.setdefault("TERM", "xterm-256color")


def claimed_level(pid):
    try:
        m = json.load(open(os.path.join(VERIF, "MANIFEST.json")))
        for c in m["checks"]:
            if c["property_id"] == pid:
                return c["level_claimed"]["category"]
    except Exception:
        pass
    return "exploration"


def main():
    if len(sys.argv) < 2:
        print("usage: check <ID> [quick|thorough]")
        return 3
    # memory guard: a broken library function that makes a value grow without bound (an operand extended by itself doubles per step)
    # must end in a MemoryError inside that call - reported by the suite that made the call - not in the kernel killing the check
    try:
        import resource
        gb = int(os.environ.get("VERIF_MEM_GB", "8") or 8)
        resource.setrlimit(resource.RLIMIT_AS, (gb << 30, gb << 30))
    except Exception:       # noqa: BLE001  (no such limit on this platform: the watchdog still applies)
        pass
    pid = sys.argv[1]
    tier = sys.argv[2] if len(sys.argv) > 2 else os.environ.get("VERIF_TIER", "quick")
    seed = int(os.environ.get("VERIF_SEED", "0") or 0)
    from vlib.report import Check
    try:
        import curtsies  # noqa: F401  (the tree under test must at least import)
        mod = importlib.import_module(f"props.{pid}")
    except Exception:
        print(f"HARNESS-ERROR: cannot import curtsies from {REPO} or props.{pid}:\n{traceback.format_exc()[-1500:]}")
        return 3
    check = Check(pid, tier, seed, getattr(mod, "LEVEL", claimed_level(pid)))
    # watchdog: a check that does not come back (a broken function that loops or makes the enumeration explode) must still give a
    # verdict.  Limits are far above the normal run time (quick: 1-90 s, thorough: <= 8 min).
    import threading
    limit = int(os.environ.get("VERIF_WATCHDOG_S", "0") or 0) or (900 if tier == "quick" else 4 * 3600)

    def expired():
        print(f"  the check did not finish within {limit} s (normal: seconds to minutes)")
        try:        # where it is stuck (diagnostic only, on stderr)
            import faulthandler
            faulthandler.dump_traceback(file=sys.stderr, all_threads=True)
        except Exception:       # noqa: BLE001
            pass
        if check.violation_lines or check.pending_refuted:
            rc = check.finish()
        else:
            check.violation(f"{pid}.did_not_finish", dict(tier=tier, limit_s=limit),
                            f"the check of {pid} did not finish within {limit} s on this tree: some operation of the library does not terminate or "
                            "makes the enumeration blow up (on the unchanged tree the same check takes seconds to minutes)",
                            replay={"kind": "obligation", "contract": "watchdog"}, found_input=False)
            rc = check.finish()
        sys.stdout.flush()
        try:        # the solver / suite worker processes must not outlive the check
            import multiprocessing
            for ch in multiprocessing.active_children():
                ch.kill()
        except Exception:       # noqa: BLE001
            pass
        os._exit(rc)
    wd = threading.Timer(limit, expired)
    wd.daemon = True
    wd.start()
    for a in getattr(mod, "ASSUMPTIONS", []):
        check.assume(a)
    try:
        mod.run(check, tier, seed)
    except Exception:
        check.engine_error("check crashed: " + traceback.format_exc()[-1500:])
    return check.finish()


if __name__ == "__main__":
    sys.exit(main())
