"""C05 - parsing a FmtStr's terminal string gives the same FmtStr back."""
import itertools
import random
import contracts.escseq as E
import contracts.render as R
from pyvc.verify import verify
from vlib.par import pmap
from bounded.common import Suite, FmtStr, Chunk, fmtstr, cells
from spec import sgr

LEVEL = "exploration"
ASSUMPTIONS = [
    "peel_off_esc_code / parse are regex-driven (two competing patterns, lazy prefixes): outside the deductive subset; the round "
    "trip and the grammar clause are decided by bounded enumeration.  Deductively decided: token_type for every integer parameter "
    "(one symbolic parameter), for every pair of representative parameters and for the empty list",
    "ECMA-48 reading of SGR (spec/sgr.py): the oracle for 'the formatting an ANSI terminal would display'",
    "str(f) is correct (C01), so the round trip can be judged against cells(f)",
]
CODES = [0, 1, 2, 3, 4, 5, 7, 30, 31, 37, 39, 40, 44, 47, 49]


def roundtrip(runs):
    f = FmtStr(*[Chunk(t, dict(a)) for t, a in runs])
    s = str(f)
    try:
        g = FmtStr.from_str(s)
    except Exception as e:
        return f"from_str raised {type(e).__name__}: {e}"
    if cells(g) != cells(f):
        return f"from_str(str(f)) has {cells(g)}, f has {cells(f)} (string {s!r})"
    return ""


def grammar_case(s):
    exp, _, ok = sgr.run(s)
    try:
        g = FmtStr.from_str(s)
    except Exception as e:
        return f"from_str raised {type(e).__name__}: {e}"
    if cells(g) != exp:
        return f"parsed as {cells(g)}, an ANSI terminal displays {exp}"
    return ""


def replay(case):
    d = roundtrip([(t, a) for t, a in case["runs"]]) if "runs" in case else grammar_sequence(case["seq"])
    return d == "", d


def grammar_sequence(seq):
    """a sequence of strings parsed one after the other in the same process (parser state must not leak)"""
    for s in seq:
        d = grammar_case(s)
        if d:
            return f"{s!r}: {d}"
    return ""


def _rt_batch(args):
    lo, hi, full = args
    fails = []
    from bounded.common import ODD_TEXTS
    texts = ["xy", "x\ny", "a b\n", "\ttab", "é"] + ODD_TEXTS
    for i, d in list(enumerate(R.all_dicts(full)))[lo:hi]:
        r = roundtrip([(texts[i % len(texts)], d)])
        if r:
            fails.append((dict(runs=[[texts[i % len(texts)], d]]), r))
    return hi - lo, fails[:30]


def bounded(check, tier, seed):
    full = tier == "thorough"
    total = 59049 if full else 6561
    s = Suite(check, "C05.roundtrip", f"FmtStr.from_str(str(f)) for every attribute dict of the split ({total}) on one-run values whose text "
              "contains newlines / tabs / non-ASCII, plus random multi-run values with partly shared attributes (<=4 runs)",
              bound="one run per dict; multi-run <=4 runs", exhaustive=False)
    step = (total + 13) // 14
    for n, fails in pmap(_rt_batch, [(lo, min(lo + step, total), full) for lo in range(0, total, step)]):
        s.evaluations += n
        for case, d in fails:
            s.fail("C05.roundtrip", case, d, replay={"kind": "suite", "module": "props.C05", "case": case})
    rng = random.Random(seed + 3)
    pool = list(R.all_dicts(False))
    for i in range(20000 if full else 3000):
        base = rng.choice(pool)
        runs = []
        for _ in range(rng.randint(1, 4)):
            d = dict(base) if rng.random() < .5 else dict(rng.choice(pool))
            runs.append(["".join(rng.choice("ab ;[m0\n") for _ in range(rng.randint(0, 3))), d])
        s.evaluations += 1
        d = roundtrip(runs)
        if d:
            s.fail("C05.roundtrip.multi", dict(runs=runs), d, replay={"kind": "suite", "module": "props.C05", "case": dict(runs=runs)})
    s.nontrivial = set(range(s.evaluations))
    s.samples = [dict(runs=[["x\ny", {"fg": 31, "bold": True}]])]
    s.done()
    # grammar (text | ESC[ p1;...;pn m)*
    k = 4 if full else 3
    s = Suite(check, "C05.grammar", f"every string of <= {k} items from the grammar (text | ESC[ p1;..;pn m)* with texts {{a, b+newline}}, parameter lists "
              "of length 0..2 over 15 supported codes (all single codes and an all-pairs sample), parsed by from_str and compared per "
              "character with the reference SGR interpreter; sequences are parsed back to back in one process, every string twice and "
              "after a string that starts with a reset (parser state must not leak between calls); plus random longer strings",
              bound=f"<= {k} items, <= 2 parameters (random: <= 6 items, <= 3 parameters)", exhaustive=False)
    seqs = ["\x1b[%sm" % ";".join(map(str, ps)) for n in (0, 1) for ps in itertools.product(CODES, repeat=n)]
    seqs += ["\x1b[%d;%dm" % (a, b) for a in CODES for b in (0, 1, 31, 39, 44, 49)] + ["\x1b[%d;%dm" % (b, a) for a in CODES for b in (0, 7, 32)]
    items = ["a", "b\n"] + seqs
    primer = ["\x1b[0;1;31mx", "\x1b[mq\x1b[4mz"]
    count = 0
    rng2 = random.Random(seed + 4)
    for n in range(0, k + 1):
        combos = itertools.product(items, repeat=n) if n <= 2 else (tuple(rng2.choice(items) for _ in range(n)) for _ in range(30000 if full else 6000))
        for combo in combos:
            st = "".join(combo)
            count += 1
            seq = [st] if count % 7 else primer[count % 2:count % 2 + 1] + [st, st]
            s.case(count, sample=dict(seq=seq) if count < 3 else None)
            d = grammar_sequence(seq)
            if d:
                s.fail("C05.grammar", dict(seq=seq), d, replay={"kind": "suite", "module": "props.C05", "case": dict(seq=seq)})
    rng = random.Random(seed + 5)
    for i in range(30000 if full else 4000):
        parts = []
        for _ in range(rng.randint(0, 6)):
            if rng.random() < .5:
                parts.append("".join(rng.choice("ab\n") for _ in range(rng.randint(0, 2))))
            else:
                parts.append("\x1b[" + ";".join(str(rng.choice(CODES)) for _ in range(rng.randint(0, 3))) + "m")
        st = "".join(parts)
        s.case(("r", i))
        d = grammar_case(st)
        if d:
            s.fail("C05.grammar", dict(seq=[st]), d, replay={"kind": "suite", "module": "props.C05", "case": dict(seq=[st])})
    s.done()


def long_sequences(check, tier):
    """the grammar allows any number of parameters: combined sequences of 4 .. 100 parameters (resets in any position, repeats) against
    the reference SGR interpreter"""
    s = Suite(check, "C05.block_sizes", "a plain run of n characters (n = 1015..1033, 2040..2056, 4090..4100, 8190..8194, 65534..65538: around the sizes at which "
              "buffers are usually cut) followed by a formatted run, and the same with an escape sequence right behind it: from_str(str(f)) == f",
              bound="<= 65538 characters")
    for n in list(range(1015, 1034)) + list(range(2040, 2057)) + list(range(4090, 4101)) + list(range(8190, 8195)) + list(range(65534, 65539)):
        for runs in ([["x" * n, {}], ["red", {"fg": 31}], [" tail", {}]], [["p", {"bold": True}], ["y" * n, {}], ["q", {"fg": 34, "bg": 41}]]):
            s.case((n, len(runs[0][0])), sample=dict(n=n) if len(s.samples) < 2 else None)
            d = roundtrip([(t, a) for t, a in runs])
            if d:
                s.fail("C05.roundtrip.block_size", dict(n=n, layout=[len(t) for t, _ in runs]), d[:300])
    s.done()
    s = Suite(check, "C05.long_sequences", "one combined SGR sequence of n = 4, 5, 8, 16, 31, 32, 33, 34, 40, 64, 100 parameters drawn from the "
              "supported codes (two fixed patterns and 40 random lists per n, resets at any position): per-character formatting as an ANSI "
              "terminal shows it", bound="<= 100 parameters", exhaustive=False)
    rng = random.Random(505)
    for n in (4, 5, 8, 16, 31, 32, 33, 34, 40, 64, 100):
        lists = [[1] * (n - 1) + [31], [0] * (n - 2) + [4, 44]]
        for _ in range(40):
            lists.append([rng.choice(CODES) for _ in range(n)])
        for ps in lists:
            st = "a\x1b[" + ";".join(map(str, ps)) + "mb\x1b[0mc"
            s.case((n, tuple(ps)), sample=dict(seq=[st]) if len(s.samples) < 2 else None)
            d = grammar_case(st)
            if d:
                s.fail("C05.grammar.long_sequence", dict(seq=[st], parameters=n), d[:400], replay={"kind": "suite", "module": "props.C05", "case": dict(seq=[st])})
    s.done()


def control_chars(check, tier):
    """every C0 / C1 control character (but ESC and the 8-bit CSI, which start sequences) and DEL as TEXT: first, last and only character
    of a run, after a styled / coloured / unformatted run, and directly after every kind of reset sequence in the grammar"""
    s = Suite(check, "C05.control_chars", "each of the 63 control characters other than ESC / 0x9b as first, last and only character of a run "
              "next to bold, coloured and plain runs (round trip), and directly after ESC[m / ESC[0m / ESC[39m / ESC[49m / ESC[22m-style resets "
              "(grammar): characters and formatting as an ANSI terminal shows them", bound="63 characters x 9 placements")
    ctl = [chr(c) for c in list(range(0, 32)) + [127] + list(range(128, 160)) if c not in (0x1b, 0x9b)]
    styles = [{"bold": True}, {"fg": 31}, {"bg": 44, "underline": True}, {}]
    for c in ctl:
        for k, at in enumerate(styles):
            for runs in ([["a", at], [c + "b", {}]], [["a", at], ["b" + c, {"fg": 32}]], [[c, at], ["z", {}]], [["a", {}], [c, at], ["b", at]]):
                s.case((ord(c), k, str(runs)), sample=dict(runs=runs) if c == "\x0f" and k == 0 else None)
                d = roundtrip([(t, a) for t, a in runs])
                if d:
                    s.fail("C05.roundtrip.control_character", dict(runs=runs), d, replay={"kind": "suite", "module": "props.C05", "case": dict(runs=runs)})
        for st in ("\x1b[1;31mA\x1b[m" + c + "B", "\x1b[4mA\x1b[0m" + c + "B", "\x1b[31mA\x1b[39m" + c, c + "\x1b[44mB\x1b[49m" + c + "C", "\x1b[m" + c):
            s.case((ord(c), st))
            d = grammar_case(st)
            if d:
                s.fail("C05.grammar.control_character", dict(seq=[st]), d, replay={"kind": "suite", "module": "props.C05", "case": dict(seq=[st])})
    s.done()


def run(check, tier, seed):
    from pyvc.verify import verify
    import contracts.valuemodel as VM
    for c in VM.ALL:            # this property's contracts are stated over the executor's value model of Chunk / FmtStr: the real constructors and
        verify(c, tier, check, prefix="C05")      # accessors must behave as that model says (same obligations as in C13, decided here too)
    verify(E.token_type_contract(True), tier, check)
    bounded(check, tier, seed)
    control_chars(check, tier)
    long_sequences(check, tier)
