"""C16 - linesplit word-wraps without losing, reordering or restyling words."""
import itertools
import random
from bounded.common import Suite, FmtStr, Chunk, fmtstr, cells, ATT_POOL

LEVEL = "exploration"
ASSUMPTIONS = [
    "linesplit finds words with a regex and builds nested lists: outside the deductive subset; decided by a bounded suite only",
    "whitespace = str.isspace characters of the alphabet (space, tab, newline)",
]


def ref_wrap(cs, columns):
    """greedy reference wrap on the per-character list, written from the statement"""
    toks = []
    for c in cs:
        isw = c[0].isspace()
        if toks and toks[-1][0] == isw:
            toks[-1][1].append(c)
        else:
            toks.append((isw, [c]))
    words = [t[1] for t in toks if not t[0]]
    gaps = [t[1] for k, t in enumerate(toks) if t[0] and 0 < k < len(toks) - 1]
    if not words:
        return []

    def chop(w):
        return [w[i:i + columns] for i in range(0, len(w), columns)]
    lines = [[("w", p)] for p in chop(words[0])]
    for w, g in zip(words[1:], gaps):
        cur = sum(len(x[1]) if x[0] == "w" else 1 for x in lines[-1])
        if cur + 1 + len(w) <= columns:
            lines[-1] += [("g", g), ("w", w)]
        else:
            lines += [[("w", p)] for p in chop(w)]
    return lines


def _judge_once(value, columns, got=None):
    from curtsies.formatstring import linesplit
    cs = cells(value)
    if got is None:
        try:
            got = linesplit(value, columns)
        except Exception as e:
            return f"raised {type(e).__name__}: {e}"
    exp = ref_wrap(cs, columns)
    if len(got) != len(exp):
        return f"{len(got)} lines {[l.s for l in got]}, the greedy wrap has {len(exp)}"
    for gl, el in zip(got, exp):
        gc = cells(gl)
        if len(gc) > columns:
            return f"line {gl.s!r} is longer than {columns}"
        pos = 0
        for kind, part in el:
            if kind == "w":
                if gc[pos:pos + len(part)] != part:
                    return f"line {gl.s!r}: expected the word {''.join(c for c, _ in part)!r} with its formatting at offset {pos}, found {gc[pos:pos + len(part)]}"
                pos += len(part)
            else:
                sp = gc[pos] if pos < len(gc) else None
                if sp is None or sp[0] != " ":
                    return f"line {gl.s!r}: words are not separated by exactly one space"
                fmts = set(a for _, a in part)
                union = set(x for _, a in part for x in a)
                if len(fmts) == 1 and sp[1] != next(iter(fmts)):
                    return f"line {gl.s!r}: the joining space has {sp[1]}, the uniformly formatted whitespace it replaces has {next(iter(fmts))}"
                if not set(sp[1]) <= union:
                    return f"line {gl.s!r}: the joining space shows {set(sp[1]) - union}, which none of the replaced whitespace had"
                pos += 1
        if pos != len(gc):
            return f"line {gl.s!r} has extra characters (leading/trailing whitespace?)"
    return ""



def judge(value, columns):
    """the wrap judged against the statement - and judged AGAIN on a second call after the caller edited the first result (the list and
    the lines are the caller's: appending, reversing, deleting must not change what the next linesplit of the same text returns)"""
    from curtsies.formatstring import linesplit
    d = _judge_once(value, columns)
    if d:
        return d
    if isinstance(value, FmtStr):
        # the same value after the program has USED it (displayed it, sliced it, called splice / append / ... on it and thrown the results
        # away): whatever such a use leaves behind on the object, it wraps as before
        from bounded.common import fill_caches
        fill_caches(value)
        d = _judge_once(value, columns)
        if d:
            return "after the value had been used (read-only operations on it, results thrown away): " + d
    try:
        first = linesplit(value, columns)
        if isinstance(first, list):
            first.append(fmtstr(">>> edited by the caller"))
            first.reverse()
            if len(first) > 1:
                del first[0]
        again = linesplit(value, columns)
    except Exception as e:      # noqa: BLE001
        return f"second call raised {type(e).__name__}: {e}"
    d = _judge_once(value, columns, got=again)
    return ("second linesplit of the same text, after the caller edited the first result: " + d) if d else ""

def build(runs):
    return FmtStr(*[Chunk(t, dict(a)) for t, a in runs])


def replay(case):
    v = case["text"] if "text" in case else build([(t, a) for t, a in case["runs"]])
    if "fmt" in case:
        v = fmtstr(v, *case["fmt"])
    d = judge(v, case["columns"])
    return d == "", d


def bounded(check, tier, seed):
    maxlen = 7 if tier == "thorough" else 6
    s = Suite(check, "C16.exhaustive", f"every string of length <= {maxlen} over {{a,b,space,tab,newline}} x columns 1..4, as plain str and as a "
              "red FmtStr; oracle = greedy reference wrap on the per-character list", bound=f"length<={maxlen}, columns<=4")
    for n in range(0, maxlen + 1):
        for p in itertools.product("ab \t\n", repeat=n):
            t = "".join(p)
            for columns in (1, 2, 3, 4):
                for fmt in ((), ("red",)) if n <= 4 else (("red",),):
                    s.case((t, columns, fmt), sample=dict(text=t, columns=columns))
                    v = fmtstr(t, *fmt) if fmt else t
                    d = judge(v, columns)
                    if d:
                        case = dict(text=t, columns=columns, fmt=list(fmt))
                        s.fail("C16.linesplit", case, d, replay={"kind": "suite", "module": "props.C16", "case": case})
    s.done()
    rng = random.Random(seed + 5)
    n = 40000 if tier == "thorough" else 5000
    s = Suite(check, "C16.multiformat", f"{n} random multi-run values (<=5 runs x <=3 characters over {{a,b,space,space,newline}}, empty runs, formatting "
              "changing inside words and inside whitespace runs) x columns 1..5", bound="runs<=5, run length<=3", exhaustive=False)
    for i in range(n):
        runs = [("".join(rng.choice("ab  \n") for _ in range(rng.randint(0, 3))), rng.choice(ATT_POOL)) for _ in range(rng.randint(1, 5))]
        columns = rng.randint(1, 5)
        s.case(i, sample=dict(runs=runs, columns=columns) if i < 2 else None)
        d = judge(build(runs), columns)
        if d:
            case = dict(runs=[[t, a] for t, a in runs], columns=columns)
            s.fail("C16.linesplit", case, d, replay={"kind": "suite", "module": "props.C16", "case": case})
    # deterministic family: a whitespace run cut by an empty run of other formatting, between two words
    for a1, a2 in itertools.product(ATT_POOL[:5], repeat=2):
        for ws1, ws2 in itertools.product(["", " ", "  "], repeat=2):
            if not (ws1 + ws2):
                continue
            for columns in (3, 8):
                runs = [("ab" + ws1, a1), ("", a2), (ws2 + "cd", a1)]
                s.case(("cut", repr(a1), repr(a2), ws1, ws2, columns))
                d = judge(build(runs), columns)
                if d:
                    case = dict(runs=[[t, a] for t, a in runs], columns=columns)
                    s.fail("C16.linesplit", case, d, replay={"kind": "suite", "module": "props.C16", "case": case})
    s.done()
    # word-length family: the fit test and the chopping of long words depend on len(word) relative to the column limit, which the short
    # exhaustive strings cannot reach (a non-first word of 2*columns characters followed by another word needs >= 3*columns+2 characters)
    cmax = 6 if tier == "thorough" else 5
    nwords = 4
    s = Suite(check, "C16.word_lengths", f"every sequence of <= {nwords} words whose lengths are drawn from {{1, c-1, c, c+1, 2c-1, 2c, 2c+1, 3c}} for every "
              f"column limit c in 1..{cmax}, words separated by one blank (and by a two-character whitespace run), first word red", bound=f"words<={nwords}, columns<={cmax}")
    for columns in range(1, cmax + 1):
        lens = sorted({x for x in (1, columns - 1, columns, columns + 1, 2 * columns - 1, 2 * columns, 2 * columns + 1, 3 * columns) if x >= 1})
        for k in range(1, nwords + 1):
            for combo in itertools.product(lens, repeat=k):
                for sep in (" ", "\t "):
                    if sep != " " and k > 3:
                        continue
                    words = ["abcdefghijklmnopqrstuvwxyz"[j % 26] * n for j, n in enumerate(combo)]
                    runs = [(words[0], {"fg": 31})] + [(sep + w, {}) for w in words[1:]]
                    s.case((columns, combo, sep))
                    d = judge(build(runs), columns)
                    if d:
                        case = dict(runs=[[t, a] for t, a in runs], columns=columns)
                        s.fail("C16.linesplit", case, d, replay={"kind": "suite", "module": "props.C16", "case": case})
    s.done()


def derived(check, tier, seed):
    from bounded.derived import derived_values
    n = 4000 if tier == "thorough" else 500
    s = Suite(check, "C16.derived", f"{n} values at the end of chains of <= 4 public operations, wrapped at 1, 2, 3 and 5 columns: the greedy-wrap oracle",
              bound="chains <= 4 operations", exhaustive=False)
    for k, v in enumerate(derived_values(seed + 9, n)):
        for columns in (1, 2, 3, 5):
            s.case(("d", k, columns), sample=repr(v) if k < 2 else None)
            d = judge(v, columns)
            if d:
                s.fail("C16.linesplit", dict(runs=[[c.s, dict(c.atts)] for c in v.chunks], columns=columns, kind="derived"), d)
    s.done()


def long_inputs(check, tier):
    """size is part of "every str or FmtStr ... every columns >= 1": words that need thousands of pieces, thousands of words"""
    s = Suite(check, "C16.long", "a 2400- / 5000-character word at 1, 2 and 7 columns (alone, after and before short words, formatted in two "
              "runs), a 90 000-character word at 80 columns, 3000 one-letter words at 1, 2 and 80 columns: the greedy-wrap oracle",
              bound="<= 90 000 characters")
    cases = []
    for n in (2400, 5000):
        for columns in (1, 2, 7):
            cases += [("x" * n, columns), ("ab " + "y" * n + " cd", columns)]
        cases.append((fmtstr("p" * (n // 2), "red") + fmtstr("q" * (n // 2), "blue"), 2))
    cases.append(("z" * 90000 + " tail", 80))
    for columns in (1, 2, 80):
        cases.append((" ".join("w" for _ in range(3000)), columns))
    for v, columns in cases:
        s.case((len(v), columns, str(v)[:5]), sample=dict(length=len(v), columns=columns) if len(s.samples) < 2 else None)
        d = judge(v, columns)
        if d:
            s.fail("C16.linesplit.long", dict(text=str(v)[:30] + f"...({len(v)} characters)", columns=columns), d[:300])
    s.done()


def str_arguments(check, tier):
    """linesplit takes a plain str as well (it is text, parsed like fmtstr does): the same wrap as for the FmtStr it denotes - in particular
    for a str that carries escape sequences (it is LONGER than its text) and begins / ends with whitespace"""
    from curtsies.formatstring import linesplit
    bodies = ["\x1b[31mhello\x1b[39m world", "\x1b[31mword\x1b[39m", "a \x1b[1mbb\x1b[0m  c", "plain text here", "\x1b[20munsupported\x1b[0m x",
              "\x1b[44m \x1b[49mx", "one"]
    s = Suite(check, "C16.str_arguments", f"linesplit(<plain str>, columns) for {len(bodies)} texts (with supported / unsupported escape sequences, without) x leading "
              "'' / blank / newline x trailing '' / blank / two blanks / newline x columns 3, 5, 10, 20: judged like the FmtStr the str denotes",
              bound=f"{len(bodies) * 3 * 4 * 4} calls")
    for body in bodies:
        for pre in ("", " ", "\n"):
            for post in ("", " ", "  ", "\n"):
                text = pre + body + post
                f = fmtstr(text)
                for columns in (3, 5, 10, 20):
                    s.case((text, columns), sample=dict(text=text, columns=columns) if len(s.samples) < 2 else None)
                    try:
                        got = linesplit(text, columns)
                        d = _judge_once(f, columns, got=got)
                    except Exception as e:      # noqa: BLE001
                        d = f"raised {type(e).__name__}: {e}"
                    if d:
                        s.fail("C16.linesplit.str_argument", dict(text=text, columns=columns), d[:300])
    s.done()


def run(check, tier, seed):
    str_arguments(check, tier)
    bounded(check, tier, seed)
    derived(check, tier, seed)
    long_inputs(check, tier)
