"""Re-run a recorded counterexample against the real code."""
import importlib
import json
import os
import sys

VERIF = os.path.dirname(os.path.dirname(os.path.abspath(__file__)))
sys.path.insert(0, VERIF)
sys.path.insert(0, os.environ.get("CURTSIES_REPO", "/repo"))


def main():
    d = json.load(open(sys.argv[1]))
    rp = d.get("replay") or {}
    print(f"property {d['property']} obligation {d['obligation']}")
    if rp.get("kind") == "contract":
        from curtsies.formatstring import FmtStr, Chunk
        from pyvc.contract import REGISTRY
        for m in ("formatstring", "formatstringarray", "window", "events", "escseqparse", "atts", "columns", "memo", "splitter", "valuemodel"):
            try:
                importlib.import_module("contracts." + m)
            except ModuleNotFoundError:
                pass
        from pyvc.verify import check_concrete
        c = REGISTRY[rp["contract"]]
        ns = {"FmtStr": FmtStr, "Chunk": Chunk, "slice": slice}
        args = {k: eval(v, ns) for k, v in rp["args"].items()}
        ok, clause, detail = check_concrete(c, args)
        print("inputs:", rp["args"])
        print("holds" if ok else f"STILL VIOLATED: {clause}: {detail}")
        return 0 if ok else 1
    if rp.get("kind") == "probe":
        from pyvc.contract import REGISTRY
        for m in ("valuemodel", "findkey", "fsarray", "fullscreen", "cursorwindow", "atts"):
            importlib.import_module("contracts." + m)
        pm = importlib.import_module("props." + d["property"])
        if hasattr(pm, "attach_probes"):
            pm.attach_probes()
        fails = list(REGISTRY[rp["contract"]].probe())
        print("holds" if not fails else f"STILL VIOLATED: {fails[0][0]}: {fails[0][2]} (inputs {fails[0][1]})")
        return 0 if not fails else 1
    if rp.get("kind") == "suite":
        mod = importlib.import_module(rp["module"])
        ok, detail = mod.replay(rp["case"])
        print("inputs:", rp["case"])
        print("holds" if ok else f"STILL VIOLATED: {detail}")
        return 0 if ok else 1
    print("no executable replay recorded (obligation refuted without a failing input); verifier output:")
    print(json.dumps(d.get("verifier_output"), indent=1)[:3000])
    return 1


if __name__ == "__main__":
    sys.exit(main())
