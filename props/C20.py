"""C20 - key naming modes and config-file key names are mutually consistent."""
import string
import contracts.events as E
from pyvc.verify import verify
from vlib.report import Obligation
from vlib.par import pmap
from bounded.common import Suite
import props.C03 as C03

LEVEL = "proof"
ASSUMPTIONS = [
    "mode independence of the cut decision follows from the per-call contract of get_key, whose conditions for 'asks for more' / "
    "'raises' do not mention the naming mode and which is proved separately for each of the three modes on symbolic bytes",
    "KeyMap.__getitem__ has a finite domain of valid configuration names (C-<letter>, M-<printable ASCII>, F1..F12, the specials): "
    "decided by exhaustive evaluation of the real function, which is complete for that domain",
    "the set of names the decoder can produce = values of CURTSIES_NAMES plus single decoded characters (by the proved naming clause G2)",
    "tables are read by value from the real module on every run",
]
EV = E.EV


def deductive(check, tier):
    facts = {
        "table.curses_keys_have_curtsies_names": set(EV.CURSES_NAMES) <= set(EV.CURTSIES_NAMES),
        "table.names_are_str": all(isinstance(v, str) and v for t in (EV.CURSES_NAMES, EV.CURTSIES_NAMES) for v in t.values()),
    }
    for name, ok in facts.items():
        oid = "C20." + name
        check.add_obligation(Obligation(oid, "events:<module tables>", "table", "evaluation (finite, complete)", "discharged" if ok else "refuted", 0.0))
        if not ok:
            missing = sorted(set(EV.CURSES_NAMES) - set(EV.CURTSIES_NAMES))[:5]
            check.violation(oid, dict(table_fact=name, examples=[m.hex() for m in missing]), "a sequence with a curses-style name has no curtsies name", found_input=True)
    ns = list(range(1, E.MAXN + 2)) if tier == "thorough" else [1, 2, 3, E.MAXN + 1]
    E.key_name_contract(E.MAXN)
    jobs = [("gk", tier, [n]) for n in ns]
    for obs, funcs, errs, pend, viols in pmap(C03._verify_batch, jobs):
        for o in obs:
            o.id = o.id.replace("C03.", "C20.", 1)
            check.add_obligation(o)
        for k, v in funcs.items():
            cur = check.functions.setdefault(k, {"obligations": 0, "discharged": 0, "paths": 0, "status": "ok", "shapes": 0})
            for f in ("obligations", "discharged", "paths", "shapes"):
                cur[f] += v[f]
        for e in errs:
            check.engine_error(e)
        for p in pend:
            check.refuted_without_input(*p)


def producible_names():
    return set(EV.CURTSIES_NAMES.values())


def config_names():
    names = ["C-" + c for c in string.ascii_lowercase] + ["M-" + chr(c) for c in range(32, 127)] + ["F%d" % i for i in range(1, 13)]
    # the function keys F1-F12 in every spelling of their number that the map reads as that number (leading zeros, full-width digits)
    fw = str.maketrans("0123456789", "０１２３４５６７８９")
    names += ["F0%d" % i for i in range(1, 13)] + ["F00%d" % i for i in range(1, 13)] + [("F%d" % i).translate(fw) for i in range(1, 13)]
    from curtsies import configfile_keynames as K
    return names + sorted(K.SPECIALS)


def config_case(name):
    from curtsies.configfile_keynames import keymap
    try:
        r = keymap[name]
    except Exception as e:
        return f"keymap[{name!r}] raised {type(e).__name__}: {e}"
    if not isinstance(r, tuple) or not r:
        return f"keymap[{name!r}] = {r!r}"
    dead = [n for n in r if n not in producible_names()]
    if dead:
        return f"keymap[{name!r}] = {r!r}: the decoder never produces {dead}"
    return ""


def replay(case):
    d = config_case(case["name"])
    return d == "", d


def bounded(check, tier):
    s = Suite(check, "C20.config_names", "every valid configuration key name: C-a..C-z, M-<every printable ASCII character>, F1..F12, the SPECIALS; "
              "each name of the returned tuple must be a name the decoder can produce; '' -> (); a catalogue of invalid names raises KeyError",
              bound="complete finite domain", exhaustive=True)
    from curtsies.configfile_keynames import keymap
    for name in config_names():
        s.case(name, sample=name)
        d = config_case(name)
        if d:
            s.fail("C20.config_name", dict(name=name), d, replay={"kind": "suite", "module": "props.C20", "case": dict(name=name)})
    s.case("unbound")
    if keymap[""] != ():
        s.fail("C20.config_name.unbound", dict(name=""), f"an unbound key maps to {keymap['']!r}")
    for bad in ["x", "Fx", "F", "Q-a", "C", "M", "ctrl-a", "F1a"]:
        s.case(("invalid", bad))
        try:
            r = keymap[bad]
            s.fail("C20.config_name.invalid", dict(name=bad), f"invalid name accepted: {r!r}")
        except KeyError:
            pass
        except Exception as e:
            s.fail("C20.config_name.invalid", dict(name=bad), f"raised {type(e).__name__} instead of KeyError")
    s.done()
    # decision tree under the three modes (shared with C03): cut decisions and bytes naming
    s = Suite(check, "C20.tree_modes", "the decoder's decision tree (as in C03) under all three naming modes x 3 encodings x full/not-full: the outcome "
              "class (asks for more / key / raises) is the same in every mode and bytes naming returns exactly the bytes",
              bound="complete for ascii and latin-1", exhaustive=True)
    jobs = [(enc, list(range(lo, lo + 16))) for enc in E.ENCODINGS for lo in range(0, 256, 16)]
    for nodes, fails in pmap(C03._tree_batch, jobs):
        s.evaluations += nodes
        for seq, enc, d in fails:
            if "naming modes" in d or "bytes naming" in d or "under CUR" in d:
                s.fail("C20.tree", dict(seq=seq.hex(), enc=enc), d)
    s.nontrivial = set(range(s.evaluations))
    s.samples = [dict(seq="1b4f50", enc="ascii")]
    s.done()


def env_config_failures():
    """(runs in a child interpreter) -> [[name, detail], ...] for every configuration key name that fails config_case"""
    out = []
    for name in config_names():
        d = config_case(name)
        if d:
            out.append([name, d])
    return out[:6]


def environments(check, tier):
    """the key tables are built when curtsies is imported: whatever the environment then says (TERM in particular), every configuration
    key name still maps to names the decoder can produce"""
    from bounded.common import ENVIRONMENTS, run_in_environment
    s = Suite(check, "C20.environments", f"the complete enumeration of configuration key names in {len(ENVIRONMENTS)} fresh interpreters with other environment "
              "variables set before curtsies is imported (TERM=rxvt / rxvt-unicode / linux / screen / dumb / empty, NO_COLOR, locale ...)",
              bound=f"{len(ENVIRONMENTS)} environments", exhaustive=False)
    for env in ENVIRONMENTS:
        s.case(tuple(sorted(env.items())), sample=dict(env))
        ran, res = run_in_environment("props.C20", "env_config_failures", env)
        if not ran:
            check.note(f"C20.environments: child under {env} did not run: {res}")
            continue
        for name, d in res[:3]:
            s.fail("C20.config_name.environment", dict(environment=env, name=name), d[:300])
    s.done()


def input_mode_switch_failures():
    """(fresh interpreter) one real Input over a pipe whose `keynames` is changed between keypresses, in every order of the three modes:
    each keypress is named in the mode set when it is requested, bytes naming returns exactly its bytes.  -> [[order, detail], ...]"""
    import itertools as _it, os
    import curtsies.input as ci
    from curtsies import events

    class S:
        def __init__(self, fd):
            self.fd = fd

        def fileno(self):
            return self.fd
    keys = [b"a", b"\x1b[A", b"\x1bOP", "\u00e9".encode("utf-8"), b"\x7f"]
    ci.getpreferredencoding = lambda: "utf-8"
    out = []
    for order in _it.product(list(events.Keynames), repeat=3):
        r, w = os.pipe()
        try:
            inp = ci.Input(in_stream=S(r), keynames=order[0], paste_threshold=None)
            for k, mode in enumerate(order):
                inp.keynames = mode
                for key in keys:
                    os.write(w, key)
                    got = inp.send(0)
                    want = key if mode == events.Keynames.BYTES else events.get_key([key[i:i + 1] for i in range(len(key))], "utf-8", mode, True)
                    if got != want:
                        out.append([[m.name for m in order], f"keypress {key!r} requested as #{k + 1} mode {mode.name}: Input returned {got!r}, the decoder in that mode gives {want!r}"])
                        break
                if out and out[-1][0] == [m.name for m in order]:
                    break
        finally:
            os.close(r)
            os.close(w)
        if len(out) >= 4:
            break
    return out


def input_mode_switch(check, tier):
    from bounded.common import run_in_environment
    s = Suite(check, "C20.input_mode_switch", "one real Input over a pipe, its keynames attribute set to every sequence of 3 naming modes (27 orders), 5 keys "
              "(a character, two table sequences, a 2-byte character, DEL) requested in each: every keypress named in the mode in force, bytes naming "
              "exactly the bytes", bound="27 orders x 15 keypresses", exhaustive=False)
    ran, res = run_in_environment("props.C20", "input_mode_switch_failures", {})
    for k in range(27):
        s.case(("order", k))
    if not ran:
        check.note(f"C20.input_mode_switch: the child did not run: {res}")
    else:
        for order, d in res:
            s.fail("C20.input.mode_switch", dict(order=order), d[:300])
    s.done()


def run(check, tier, seed):
    deductive(check, tier)
    bounded(check, tier)
    environments(check, tier)
    input_mode_switch(check, tier)
