"""C18 - cursor position query parses the report exactly; vertical movement is conserved."""
import io
import itertools
import re
import contracts.window as W
import contracts.cursorwindow as CW
from pyvc.verify import verify
from bounded.common import Suite

LEVEL = "exploration"
CONTRACTS = [W.once, W.diff, CW.caw_remembers]
ASSUMPTIONS = [
    "get_cursor_position (regex-driven incremental parse) is outside the verifier's reach: assumed contract "
    "'returns the reported zero-based (row, col)' in the movement proofs, decided by the bounded suite C18.parse",
    "a nested get_cursor_vertical_diff can only arrive inside the position query (signal handler) - the only point where the "
    "code yields control; asynchronous arrival between two other bytecodes is not modelled (DESIGN 10)",
    "logger calls are effect-free (dropped by the extraction)",
]


class _In:
    encoding = "latin-1"

    def __init__(self, data, errs=0, encoding="latin-1"):
        self.data, self.pos, self.errs, self.encoding = data, 0, errs, encoding

    def read(self, n):
        if self.errs > 0:
            self.errs -= 1
            raise OSError("transient")
        c = self.data[self.pos:self.pos + n]
        self.pos += n
        return c


class _Out(io.StringIO):
    def fileno(self):
        return 1


def _query(data, cb=True, errs=0, enc="latin-1"):
    from curtsies.window import CursorAwareWindow
    got = []
    i = _In(data, errs, enc)
    out = _Out()
    w = CursorAwareWindow(out_stream=out, in_stream=i, extra_bytes_callback=(got.append if cb else None))
    r = w.get_cursor_position()
    return r, b"".join(got), data[i.pos:], out.getvalue()


REPORT = re.compile(r"(\x1b\[|\x9b)\d+;\d+R")


def parse_case(extra, csi, r, c, trail, errs=0, cb=True, enc="latin-1"):
    """-> '' if the contract of get_cursor_position holds on this scripted stream, else a description"""
    report = csi + "%d;%dR" % (r, c)
    data = extra + report + trail
    try:
        res, eb, rest, written = _query(data, cb=cb, errs=errs, enc=enc)
    except ValueError as e:
        if not cb and extra:
            return ""       # required: ValueError when bytes precede the report and there is no callback
        return f"raised ValueError {e}"
    except Exception as e:
        return f"raised {type(e).__name__}: {e}"
    if not cb and extra:
        return f"no callback and preceding bytes {extra!r}: expected ValueError, returned {res}"
    if res != (r - 1, c - 1):
        return f"returned {res}, terminal reported ({r},{c})"
    if eb != extra.encode(enc):
        return f"callback got {eb!r}, preceding input was {extra.encode(enc)!r} (a text stream whose encoding is {enc})"
    if rest != trail:
        return f"unread remainder {rest!r}, expected {trail!r}"
    if written != "\x1b[6n":
        return f"wrote {written!r} instead of the DSR query"
    return ""


def replay(case):
    d = after_render_case(case) if "steps" in case else parse_case(**case)
    return (d == ""), d


ALPH = ["a", "1", ";", "R", "\x1b", "[", "\x9b", "9"]


def bounded_parse(check, tier):
    maxlen = 4 if tier == "thorough" else 3
    s = Suite(check, "C18.parse", f"every preceding-input string of length <= {maxlen} over {{a,1,;,R,ESC,[,0x9b,9}} that does not complete a "
              "report by itself x both CSI forms x positions (1,1),(12,345),(100000,7) x trailing input '', 'xyz', another report; "
              "plus OSError 0..5 times before reads and the no-callback case; non-trivial = distinct stream", bound=f"extra length <= {maxlen}")
    for L in range(0, maxlen + 1):
        for p in itertools.product(ALPH, repeat=L):
            extra = "".join(p)
            for csi in ("\x1b[", "\x9b"):
                for (r, c) in ((1, 1), (12, 345), (100000, 7)):
                    for trail in ("", "xyz", "\x1b[2;2R"):
                        full = extra + csi + "%d;%dR" % (r, c)
                        m = REPORT.search(full + trail)
                        if m.end() != len(full):
                            continue        # an earlier complete report: not "the" report
                        case = dict(extra=extra, csi=csi, r=r, c=c, trail=trail)
                        s.case((extra, csi, r, c, trail), sample=case)
                        d = parse_case(**case)
                        if d:
                            s.fail("C18.get_cursor_position.parse", case, d, replay={"kind": "suite", "module": "props.C18", "case": case})
    # the input is a text stream: what the callback gets is the preceding characters in the stream's own encoding, for every encoding
    # (the 8-bit introducer is one character but two bytes in utf-8, and has no ascii encoding at all: it is part of the report, not
    # of what precedes it)
    for enc in ("utf-8", "ascii", "cp1252", "utf-16-le"):
        for extra in ("", "a", "ab;", "\x1b", "\x1b[A", "1;1", "\x9b", "\x9b5;", "é", "a\x9b", "\u20ac"):
            try:
                extra.encode(enc)
            except UnicodeEncodeError:
                continue        # such a stream cannot have delivered this character
            for csi in ("\x1b[", "\x9b"):
                for trail in ("", "xyz"):
                    case = dict(extra=extra, csi=csi, r=7, c=21, trail=trail, enc=enc)
                    s.case(("enc", enc, extra, csi, trail), sample=case)
                    d = parse_case(**case)
                    if d:
                        s.fail("C18.get_cursor_position.parse", case, d, replay={"kind": "suite", "module": "props.C18", "case": case})
    for errs in range(0, 6):
        for extra in ("", "ab", "\x1b[A"):
            case = dict(extra=extra, csi="\x1b[", r=3, c=4, trail="q", errs=errs)
            s.case(("errs", errs, extra), sample=case)
            d = parse_case(**case)
            if d:
                s.fail("C18.get_cursor_position.oserror_retry", case, d, replay={"kind": "suite", "module": "props.C18", "case": case})
    for extra in ("", "x", "12", "\x1b", "\x9b5;"):
        case = dict(extra=extra, csi="\x9b", r=2, c=9, trail="", cb=False)
        s.case(("nocb", extra), sample=case)
        d = parse_case(**case)
        if d:
            s.fail("C18.get_cursor_position.no_callback", case, d, replay={"kind": "suite", "module": "props.C18", "case": case})
    s.done()


def diff_history(top0, last0, script, height=None):
    """script: list of (reported rows per query..., nested flags).  Runs get_cursor_vertical_diff on a real
    CursorAwareWindow whose position query is scripted; -> '' or description."""
    from curtsies.window import CursorAwareWindow
    w = CursorAwareWindow(out_stream=_Out(), in_stream=_In(""))
    w.top_usable_row = top0
    w._last_cursor_row = last0
    if height is not None:
        # the terminal was made `height` rows high since the last render (the remembered cursor row may lie below its last row now;
        # the reports below are what such a terminal answers): movement is still "reported row - row of the last render"
        from props.C07 import _blessed_sized
        _blessed_sized(w.t)             # the blessed terminal reports this size (t.height / t.width and get_term_hw alike)
        w.t._hw = (height, 80)
        w._last_rendered_height, w._last_rendered_width = 24, 80
    prev = [last0]          # the row the cursor was last seen on, tracked by the harness (not read back from the window)
    for rows in script:
        it = iter(rows)
        moved = [0]
        nested_results = []

        def fake(w=w, it=it, moved=moved, nested_results=nested_results):
            row, nested = next(it)
            if prev[0] is not None:
                moved[0] += row - prev[0]
            prev[0] = row
            for _ in range(int(nested)):        # that many signals arrive while this one report is being read
                nested_results.append(w.get_cursor_vertical_diff())
            return (row, 0)
        w.get_cursor_position = fake
        t0 = w.top_usable_row
        try:
            res = w.get_cursor_vertical_diff()
        except StopIteration:
            return f"more position queries than scripted ({rows})"
        except Exception as e:
            return f"raised {type(e).__name__}: {e}"
        if any(x != 0 for x in nested_results):
            return f"nested call returned {nested_results} instead of 0"
        if (w.top_usable_row - t0) + res != moved[0]:
            return f"top changed {t0}->{w.top_usable_row}, returned {res}, observed movement {moved[0]}"
        if w.in_get_cursor_diff:
            return "in_get_cursor_diff left set"
        if next(it, None) is not None:
            return f"scripted reports left unread: a nested call did not trigger a re-query ({rows})"
    return ""


def bounded_diff(check, tier):
    s = Suite(check, "C18.diff", "top_usable_row in -1..4 x last row None/0..4 x sequences of <=2 get_cursor_vertical_diff calls whose "
              "position queries report rows 0..5, with 0, 1, 2 or 3 nested calls arriving during one query (then one re-query)",
              bound="rows<=5, <=2 calls, <=3 nested calls per query")
    rows = [0, 2, 5] if tier == "quick" else [0, 1, 3, 5]
    for top0 in range(-1, 5):
        for last0 in [None, 0, 2, 4]:
            for r1 in rows:
                for nested in (False, True, 2, 3):
                    for r1b in (rows if nested else [None]):
                        first = [(r1, nested)] + ([(r1b, False)] if nested else [])
                        for r2 in rows:
                            script = [first, [(r2, False)]]
                            case = dict(top0=top0, last0=last0, script=script)
                            s.case((top0, last0, r1, nested, r1b, r2), sample=case)
                            d = diff_history(top0, last0, script)
                            if d:
                                s.fail("C18.get_cursor_vertical_diff.conserve", case, d)
                            if nested in (False, True) and max(r1, r1b or 0, r2) <= 2:
                                # the same history on a terminal that has shrunk to 3 rows since the last render
                                s.case((top0, last0, r1, nested, r1b, r2, "h3"))
                                d = diff_history(top0, last0, script, height=3)
                                if d:
                                    s.fail("C18.get_cursor_vertical_diff.conserve", dict(case, height=3), "terminal shrunk to 3 rows: " + d)
    s.done()


def after_render_case(case):
    """real renders on the reference terminal (C07's rig), the cursor moved by the application's own output in between, then
    get_cursor_vertical_diff: the change of top_usable_row plus the returned value equals the movement of the TERMINAL's cursor since the
    render (read off the terminal, not off the window's bookkeeping).  -> '' or description"""
    from curtsies.window import CursorAwareWindow
    from props import C07
    H, W = case["H"], case["W"]
    term = C07.Terminal(H, W)
    term.feed(C07.pre_stream(dict(W=W, pre=case["pre"], up=0, col=0)))
    inp = C07._In(term, C07._slave_fd())
    w = CursorAwareWindow(out_stream=C07._Out(term.feed), in_stream=inp, keep_last_line=False, hide_cursor=case.get("hide", True))
    C07._blessed_sized(w.t)
    w.t._hw = (H, W)
    try:
        w.__enter__()
    except Exception as e:      # noqa: BLE001
        return f"entering the context raised {type(e).__name__}: {e}"
    try:
        for i, (nrows, cur, move) in enumerate(case["steps"]):
            rows = [chr(97 + (i + k) % 26) * (1 + k % W) for k in range(nrows)]
            try:
                w.render_to_terminal(rows, (min(cur, max(nrows - 1, 0)), 0))
            except Exception as e:      # noqa: BLE001
                return f"step {i}: render of {nrows} rows raised {type(e).__name__}: {e}"
            r0 = term.cursor[0]
            term.feed(move)             # what the application (or the shell behind it) prints / how it moves the cursor afterwards
            r1 = term.cursor[0]
            top0 = w.top_usable_row
            try:
                ret = w.get_cursor_vertical_diff()
            except Exception as e:      # noqa: BLE001
                return f"step {i}: get_cursor_vertical_diff raised {type(e).__name__}: {e}"
            if (w.top_usable_row - top0) + ret != r1 - r0:
                return (f"step {i} at {H}x{W}: after rendering {nrows} rows (cursor_pos row {cur}) the terminal's cursor was on row {r0}; it then moved to row "
                        f"{r1} (movement {r1 - r0:+d}); get_cursor_vertical_diff changed top_usable_row {top0} -> {w.top_usable_row} and returned {ret}: "
                        f"accounted {(w.top_usable_row - top0) + ret:+d}")
    finally:
        try:
            w.__exit__(None, None, None)
        except Exception:      # noqa: BLE001
            pass
    return ""


def after_render(check, tier):
    s = Suite(check, "C18.after_render", "get_cursor_vertical_diff after REAL renders on the reference terminal: arrays that fit / overflow by 1..H+2 rows "
              "(the cursor's own row scrolled off the top included) x cursor_pos row first / middle / last x the cursor then moved down 0-2 rows "
              "or up 1 by the application's output x 1-2 rounds, terminals 2..4 rows with 0 / 2 lines of earlier output: top_usable_row change "
              "+ returned value == movement of the terminal's cursor", bound="<= 2 rounds")
    moves = ["", "\n", "\n\n", "\x1b[1A"]
    for H in (2, 3, 4):
        for pre in (0, 2):
            for n1 in (1, H, H + 1, H + 3, 2 * H + 2):
                for cur in (0, n1 // 2, n1 - 1):
                    for mv in moves:
                        for second in (None, (1, 0, ""), (H + 2, 0, "\n")):
                            steps = [[n1, cur, mv]] + ([list(second)] if second else [])
                            case = dict(H=H, W=3, pre=pre, steps=steps)
                            s.case((H, pre, n1, cur, mv, second), sample=case)
                            d = after_render_case(case)
                            if d:
                                s.fail("C18.diff.after_render", case, d, replay={"kind": "suite", "module": "props.C18", "case": case})
    s.done()


def tty_query_failures():
    """(runs in a child interpreter) the position query on a REAL pty whose termios was left in an unusual but legal state (MIN=0 / MIN=3,
    TIME=2 in the control characters - invisible while the tty is in line mode), with a terminal that answers after a delay and with keys
    typed ahead: get_cursor_position returns what the terminal reports.  -> [[case, detail], ...]"""
    import os, termios, threading, time
    from curtsies.window import CursorAwareWindow
    out = []
    for vmin, vtime, mode in ((None, None, "cooked"), (0, 0, "cooked"), (3, 2, "cooked"), (0, 1, "cooked"), (1, 0, "char-at-a-time"), (1, 0, "noecho")):
        for delay in (0.0, 0.15):
            for typed in (b"", b"ab", b"a\rb", b"READ-AHEAD"):
                if typed == b"a\rb" and mode == "cooked" and vmin is not None:
                    continue
                # READ-AHEAD: the program reads ONE key through the text stream while three are pending (the stream object reads ahead and
                # keeps the other two in its own buffer); they are input that arrived ahead of the next report like any other
                read_ahead = typed == b"READ-AHEAD"
                if read_ahead:
                    if delay or vmin not in (None, 0):
                        continue
                    typed = b"\xe9"
                case = dict(vmin=vmin, vtime=vtime, tty=mode, delay=delay, typed_ahead=typed.decode("latin-1"), read_ahead=read_ahead)
                m, sl = os.openpty()
                try:
                    a = termios.tcgetattr(sl)
                    if vmin is not None:
                        a[6][termios.VMIN] = vmin
                        a[6][termios.VTIME] = vtime
                    if mode == "char-at-a-time":
                        # what a host program that reads single keys leaves behind: no line editing, no echo, MIN 1 TIME 0 - and ICRNL still on
                        a[3] &= ~(termios.ICANON | termios.ECHO)
                        a[0] |= termios.ICRNL
                    elif mode == "noecho":
                        a[3] &= ~termios.ECHO
                    if vmin is not None or mode != "cooked":
                        termios.tcsetattr(sl, termios.TCSANOW, a)
                    stop = []

                    def terminal(m=m, stop=stop, delay=delay, typed=typed):
                        buf = b""
                        n = 0
                        while not stop:
                            try:
                                import select
                                if not select.select([m], [], [], 0.05)[0]:
                                    continue
                                buf += os.read(m, 4096)
                            except OSError:
                                return
                            while b"\x1b[6n" in buf:
                                buf = buf.split(b"\x1b[6n", 1)[1]
                                n += 1
                                time.sleep(delay)
                                os.write(m, (typed if n == 2 else b"") + b"\x1b[%d;%dR" % (4 + n, n))
                    th = threading.Thread(target=terminal, daemon=True)
                    th.start()
                    got = []
                    ins = os.fdopen(sl, "r", closefd=False, encoding="latin-1", newline="")
                    outs = os.fdopen(sl, "w", closefd=False, encoding="latin-1", newline="")
                    res = {}

                    def body(res=res, got=got, ins=ins, outs=outs, m=m, read_ahead=read_ahead):
                        try:
                            w = CursorAwareWindow(out_stream=outs, in_stream=ins, extra_bytes_callback=got.append, hide_cursor=False)
                            with w:
                                if read_ahead:
                                    os.write(m, b"abc")
                                    time.sleep(0.05)
                                    res["key"] = ins.read(1)
                                res["second"] = w.get_cursor_position()
                                res["top"] = w.top_usable_row
                        except BaseException as e:      # noqa: BLE001
                            res["exc"] = f"{type(e).__name__}: {e}"
                    bt = threading.Thread(target=body, daemon=True)
                    bt.start()
                    bt.join(6)
                    stop.append(1)
                    th.join(1)
                    if bt.is_alive():
                        out.append([case, "the query did not return within 6 s although the terminal answered"])
                        return out          # (a blocked reader thread: nothing more can be run in this process)
                    if "exc" in res:
                        out.append([case, f"raised {res['exc']} although the terminal answered both queries"])
                    elif res.get("second") != (5, 1) or res.get("top") != 4:
                        out.append([case, f"entering saw row {res.get('top')} (terminal reported row 5 -> 4), the second query returned {res.get('second')} (terminal "
                                          "reported 6;2 -> (5, 1))"])
                    elif b"".join(got) != (b"bc" if read_ahead else b"") + typed:
                        out.append([case, f"the callback got {b''.join(got)!r}, ahead of the report were {(b'bc' if read_ahead else b'') + typed!r}"
                                          + (" (b'bc' waiting in the text stream's own buffer after the program read one key of three)" if read_ahead else "")])
                finally:
                    for fd in (m, sl):
                        try:
                            os.close(fd)
                        except OSError:
                            pass
                if len(out) >= 4:
                    return out
    return out


def tty_query(check, tier):
    from bounded.common import run_in_environment
    s = Suite(check, "C18.tty_query", "get_cursor_position (on entering a CursorAwareWindow and again inside) on a real pty left cooked with MIN / TIME control "
              "characters unset, 0/0, 3/2, 0/1, or in character-at-a-time / no-echo mode with ICRNL on x a terminal answering at once / after 0.15 s x keys (a carriage return among them) typed ahead of the second report: the reported "
              "position, the typed bytes handed to the callback", bound="16 scenarios in a child interpreter", exhaustive=False)
    ran, res = run_in_environment("props.C18", "tty_query_failures", {}, timeout=120)
    for k in range(16):
        s.case(("tty", k))
    if not ran:
        check.note(f"C18.tty_query: the child did not run: {res}")
    else:
        for case, d in res:
            s.fail("C18.get_cursor_position.tty", case, d)
    s.done()


def run(check, tier, seed):
    for c in CONTRACTS:
        verify(c, tier, check)
    bounded_parse(check, tier)
    bounded_diff(check, tier)
    after_render(check, tier)
    tty_query(check, tier)
