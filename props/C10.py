"""C10 - width and width_aware_slice measure and cut by terminal columns."""
import itertools
import contracts.formatstring as F
import contracts.memo as MEMO
import contracts.columns as COL
from pyvc.verify import verify
from bounded.common import Suite, FmtStr, Chunk, fmtstr, cells
from cwcwidth import wcwidth, wcswidth

LEVEL = "proof"
CONTRACTS = [F.interval_overlap, F.chunk_width_body, F.width_at_offset, MEMO.width_memo, COL.cutter, COL.run_walk]
ASSUMPTIONS = [
    "cwcwidth.wcwidth(c) in {-1,0,1,2}; wcswidth(s, n) == sum of wcwidth over s[:n], or -1 (assumed contract of the dependency, "
    "probed in the bounded suite for the alphabet used and per code point in thorough)",
    "deductively decided: interval_overlap, Chunk.width, FmtStr.width (memo), width_at_offset, the per-character cutter "
    "width_aware_slice(s, a, b) (two loops: column prefix sums, then the cut, against the fold BCUT written from the statement) and the run "
    "walk FmtStr.width_aware_slice(index) for EVERY index form - an int (one column, IndexError outside -width..width-1), slices with open, "
    "negative, reversed (start > stop: nothing) and past-the-end bounds - over the cutter's contract (which holds for start > end too), "
    "normalize_slice's contract (exact normalised bounds) and the ghost fold RUNCUT over the column range the index denotes",
    "fold lemma schemas used as ground instances by the run walk - BCUT(s,a,b) is empty when b <= 0 or a >= width(s); equals the "
    "column-occupying characters of s when a <= 0 and b >= width(s); BCUT(s,a,b) == BCUT(s,max(0,a),b); RUNCUT splits at a run boundary - "
    "need induction: proved in Lean 4 (lean/Columns.lean, type-checked by bin/setup) and re-validated on every run by exhaustive "
    "evaluation of the executable column model (lemma_selftest: strings <= 5 over narrow/wide/combining, every a, b in [-3, width+3]); "
    "wcswidth additive over concatenation (dependency contract)",
    "zero-width characters: the proof's column model covers the column-occupying characters and the width; the bounded suite demands that "
    "zero-width characters are never invented or reordered and that one lying strictly INSIDE the requested columns is kept (it belongs to a "
    "column that is held whole; the pinned tree lost it at the beginning of a partly included run - repaired, 87e3a26); at the two edges of "
    "the range the statement is silent and nothing is demanded",
]

N, W, Z = "a", "Ｅ", "́"
ATTS = [{"fg": 31}, {"fg": 32, "bold": True}, {"bg": 44}]


def layouts3(s):
    n = len(s)
    for i in range(n + 1):
        for j in range(i, n + 1):
            yield (s, i, j), FmtStr(Chunk(s[:i], ATTS[0]), Chunk(s[i:j], ATTS[1]), Chunk(s[j:], ATTS[2]))


def expected_cut(f, a, b):
    """(base characters with formatting that columns a..b-1 show, zero-width characters of f in order, width)"""
    col = 0
    base, zw = [], []
    for ch, at in cells(f):
        w = wcwidth(ch)
        if w == 0:
            zw.append((ch, at))
            continue
        c0, c1 = col, col + w
        col = c1
        if min(c1, b) - max(c0, a) <= 0:
            continue        # no column of this character is requested
        base.append((ch, at) if (a <= c0 and c1 <= b) else (" ", at))
    total = col
    return base, zw, max(0, min(b, total) - min(a, total))


def is_subsequence(xs, ys):
    it = iter(ys)
    return all(any(x == y for y in it) for x in xs)


def index_case(f, total, index):
    """the other spellings of a column range: an int (one column; IndexError outside -width..width-1), open and negative slice bounds
    (normalised like Python's own slicing of a sequence of `width` columns)"""
    if isinstance(index, int):
        if not (-total <= index < total):
            try:
                r = f.width_aware_slice(index)
            except IndexError:
                return ""
            except Exception as e:      # noqa: BLE001
                return f"raised {type(e).__name__}: {e} (IndexError expected: there is no column {index})"
            return f"returned {r!r} for column {index} of a value {total} columns wide (IndexError expected)"
        a = index % total
        b = a + 1
    else:
        a, b, _ = index.indices(total)
        b = max(a, b)
    return cut_case(f, a, b, index=index)


def cut_case(f, a, b, index=None):
    try:
        r = f.width_aware_slice(slice(a, b) if index is None else index)
    except Exception as e:
        return f"raised {type(e).__name__}: {e}"
    base, zw, width = expected_cut(f, a, b)
    got = cells(r)
    got_base = [(c, at) for c, at in got if wcwidth(c) > 0]
    got_zw = [(c, at) for c, at in got if wcwidth(c) == 0]
    if got_base != base:
        return f"columns {a}..{b - 1} show {base}, slice has {got_base}"
    if not is_subsequence(got_zw, zw):
        return f"zero-width characters {got_zw} are not taken in order from {zw}"
    # a zero-width character strictly INSIDE the requested range (requested columns on both sides of it) belongs to a column that
    # is held whole: it must not be lost (at the two edges the statement is silent, see ASSUMPTIONS)
    col, inner = 0, []
    for ch, at in cells(f):
        w = wcwidth(ch)
        if w == 0 and a < col < min(b, sum(wcwidth(c) for c, _ in cells(f))):
            inner.append((ch, at))
        col += w
    if not is_subsequence(inner, got_zw):
        return f"zero-width characters {inner} lie strictly inside columns {a}..{b - 1} but the slice has only {got_zw}"
    try:
        rw = r.width
    except ValueError as e:
        rw = f"ValueError({e})"
    if rw != width:
        return f"width of the slice is {rw}, {width} requested columns exist"
    return ""


def replay(case):
    s, i, j = case["layout"]
    f = FmtStr(Chunk(s[:i], ATTS[0]), Chunk(s[i:j], ATTS[1]), Chunk(s[j:], ATTS[2]))
    if case["kind"] == "cut":
        d = cut_case(f, case["a"], case["b"])
    elif case["kind"] == "index":
        ix = case["index"]
        d = index_case(f, sum(wcwidth(c) for c in s), ix if isinstance(ix, int) else slice(*ix))
    else:
        d = width_case(f, s)
    return d == "", d


def width_case(f, s):
    exp = sum(wcwidth(c) for c in s)
    try:
        if f.width != exp:
            return f"width={f.width}, columns={exp}"
    except Exception as e:
        return f"width raised {type(e).__name__}: {e}"
    for t in ("Ｅ!", "é", "x"):        # width of results built from an already measured value
        for g, txt in ((f + t, s + t), (t + f, t + s), (f + fmtstr(t, "red"), s + t)):
            try:
                if g.width != sum(wcwidth(c) for c in txt):
                    return f"width of {g!r} is {g.width}, it occupies {sum(wcwidth(c) for c in txt)} columns"
            except Exception as e:
                return f"width of {g!r} raised {type(e).__name__}: {e}"
    for n in range(len(s) + 2):
        try:
            got = f.width_at_offset(n)
        except Exception as e:
            return f"width_at_offset({n}) raised {type(e).__name__}: {e}"
        if got != sum(wcwidth(c) for c in s[:n]):
            return f"width_at_offset({n})={got}, first {n} characters occupy {sum(wcwidth(c) for c in s[:n])}"
    return ""


def bounded(check, tier):
    maxlen = 5 if tier == "thorough" else 4
    s = Suite(check, "C10.columns", f"every string of length <= {maxlen} over {{narrow 'a', double-width U+FF25, combining U+0301}} x every split into "
              "3 runs (empty runs included) x every column range 0<=a<=b<=width+2 and every offset; oracle = column model written from the "
              "statement (wholly-inside characters kept with formatting, cut double-width -> blank with its formatting, width = requested "
              "columns that exist, zero-width never invented)", bound=f"length<={maxlen}, 3 runs")
    assert (wcwidth(N), wcwidth(W), wcwidth(Z)) == (1, 2, 0) and wcswidth(N + W + Z) == 3, "assumed contract of cwcwidth violated"
    for n in range(0, maxlen + 1):
        for p in itertools.product([N, W, Z], repeat=n):
            st = "".join(p)
            for key, f in layouts3(st):
                s.case(("w", key), sample=dict(layout=key, kind="width"))
                d = width_case(f, st)
                if d:
                    s.fail("C10.width", dict(layout=list(key), kind="width"), d,
                           replay={"kind": "suite", "module": "props.C10", "case": dict(layout=list(key), kind="width")})
                    continue
                w = sum(wcwidth(c) for c in st)
                for a in range(0, w + 3):
                    for b in range(a, w + 3):
                        s.case(("c", key, a, b))
                        d = cut_case(f, a, b)
                        if d:
                            case = dict(layout=list(key), kind="cut", a=a, b=b)
                            s.fail("C10.width_aware_slice", case, d, replay={"kind": "suite", "module": "props.C10", "case": case})
                # int, open and negative indices
                forms = list(range(-w - 2, w + 2)) + [slice(x, y) for x in [None] + list(range(-w - 1, w + 2)) for y in [None] + list(range(-w - 1, w + 2))
                                                      if x is None or y is None or x < 0 or y < 0]
                for ix in forms:
                    s.case(("i", key, repr(ix)))
                    d = index_case(f, w, ix)
                    if d:
                        case = dict(layout=list(key), kind="index", index=ix if isinstance(ix, int) else [ix.start, ix.stop])
                        s.fail("C10.width_aware_slice.index_forms", case, f"index {ix!r}: {d}", replay={"kind": "suite", "module": "props.C10", "case": case})
    # the module-level cutter on mixed runs (balanced wide/combining counts) and interval_overlap on all small intervals
    for a, b, x, y in itertools.product(range(-1, 5), repeat=4):
        if a <= b and x <= y:
            s.contract_case(F.interval_overlap, dict(a=a, b=b, x=x, y=y))
    if tier == "thorough":
        import sys
        bad = 0
        for cp in range(sys.maxunicode + 1):
            ch = chr(cp)
            w = wcwidth(ch)
            s.evaluations += 1
            if w not in (-1, 0, 1, 2) or wcswidth(ch) != w or (w >= 0 and wcswidth("a" + ch) != 1 + w):
                bad += 1
        if bad:
            check.engine_error(f"assumed contract of cwcwidth does not hold for {bad} code points")
    s.done()


def lemma_selftest(check, tier):
    """the fold lemmas of contracts/columns.py, evaluated on the executable column model (exhaustive small scope)"""
    bad = []
    n_eval = 0
    maxlen = 6 if tier == "thorough" else 5
    for n in range(0, maxlen + 1):
        for p in itertools.product([N, W, Z], repeat=n):
            s = "".join(p)
            w = sum(wcwidth(c) for c in s)
            base = COL.py_basef(s)
            for a in range(-3, w + 4):
                for b in range(-3, w + 4):
                    n_eval += 1
                    c = COL.py_bcut(s, a, b)
                    if b <= 0 and c != "":
                        bad.append(("L1", s, a, b))
                    if a >= w and c != "":
                        bad.append(("L2", s, a, b))
                    if a <= 0 and b >= w and c != base:
                        bad.append(("L3", s, a, b))
                    if c != COL.py_bcut(s, max(0, a), b):
                        bad.append(("L4", s, a, b))
            # RUNCUT splits at every run boundary, and what lies after the last requested column shows nothing
            for i in range(n + 1):
                f = FmtStr(Chunk(s[:i], ATTS[0]), Chunk(s[i:], ATTS[1]))
                wi = sum(wcwidth(c) for c in s[:i])
                for a in range(0, w + 2):
                    for b in range(a, w + 3):
                        n_eval += 1
                        whole = COL.py_runcut(f, a, b)
                        first = [(c, COL.S.norm_atts(ATTS[0])) for c in COL.py_bcut(s[:i], a, b)]
                        rest = [(c, COL.S.norm_atts(ATTS[1])) for c in COL.py_bcut(s[i:], a - wi, b - wi)]
                        if whole != first + rest or (b <= wi and rest):
                            bad.append(("split", s, i, a, b))
    if bad:
        check.engine_error(f"column fold lemma fails on the executable model: {bad[:3]}")
    check.note(f"column fold lemma schemas validated on {n_eval} (string, range) cases of the executable model")


def derived(check, tier, seed):
    """width / width_at_offset / width_aware_slice on derived values (chains of operations; caches partly filled on the way)"""
    from bounded.derived import derived_values
    from cwcwidth import wcswidth as _wcs
    n = 5000 if tier == "thorough" else 600
    s = Suite(check, "C10.derived", f"{n} values at the end of chains of <= 4 public operations: width, width_at_offset and every column range "
              "0<=a<=b<=width+2 against the column model", bound="chains <= 4 operations", exhaustive=False)
    for k, v in enumerate(derived_values(seed + 3, n)):
        txt = v.s
        if _wcs(txt) < 0:
            continue            # unmeasurable text (control characters): outside the quantifier
        s.case(("d", k), sample=repr(v) if k < 2 else None)
        d = width_case(v, txt)
        if d:
            s.fail("C10.width", dict(value=repr(v), runs=str(v.chunks), kind="derived"), d)
            continue
        w = sum(wcwidth(c) for c in txt)
        for a in range(0, w + 3):
            for b in range(a, w + 3):
                d = cut_case(v, a, b)
                if d:
                    s.fail("C10.width_aware_slice", dict(value=repr(v), runs=str(v.chunks), a=a, b=b, kind="derived"), d)
                    break
    s.done()



def characters(check, tier):
    """the column model is about wcwidth, not about any other classification of characters: separators, format characters, emoji, CJK,
    NUL (width 0) are measurable text; characters without a width (C0 / C1 controls, DEL) make width and width_aware_slice raise"""
    chars = ["\u3000", "\u00a0", "\u200b", "\u200d", "\u00ad", "\u2028", "\ufeff", "\U0001F600", "\u4e2d", "\x00", "\u0301", "\uff25", "\u1100",
             "\t", "\n", "\x7f", "\x85", "\x1b", "\u0600", "\u2060", "\u00e9", "~"]
    from bounded.common import CHAR_CLASSES
    chars += [c for c in CHAR_CLASSES if c not in chars]
    s = Suite(check, "C10.characters", f"{len(chars)} characters of different classes (ideographic / no-break / zero-width space, joiner, soft hyphen, "
              "line separator, BOM, emoji, CJK, Hangul jamo, NUL, combining, fullwidth, controls, DEL) inside 'a?' + 'b' in two runs: width, "
              "width_at_offset and every column range against the wcwidth column model; ValueError exactly when a character has no width",
              bound="2 runs, every range")
    for ch in chars:
        f = FmtStr(Chunk("a" + ch, ATTS[0]), Chunk(ch + "b", ATTS[1]))
        txt = f.s
        ws = [wcwidth(c) for c in txt]
        if min(ws) < 0:
            for what, fn in (("width", lambda: f.width), ("width_aware_slice(0:1)", lambda: f.width_aware_slice(slice(0, 1)))):
                s.case((ch, what))
                try:
                    r = fn()
                    s.fail("C10.unmeasurable", dict(char=f"U+{ord(ch):04X}", what=what), f"{what} of text with U+{ord(ch):04X} (no width) returned {r!r}, ValueError expected")
                except ValueError:
                    pass
                except Exception as e:      # noqa: BLE001
                    s.fail("C10.unmeasurable", dict(char=f"U+{ord(ch):04X}", what=what), f"raised {type(e).__name__}: {e} (ValueError expected)")
            continue
        w = sum(ws)
        s.case((ch, "w"), sample=dict(char=f"U+{ord(ch):04X}") if len(s.samples) < 2 else None)
        d = width_case(f, txt)
        if d:
            s.fail("C10.width.characters", dict(char=f"U+{ord(ch):04X}"), d)
        for a in range(0, w + 2):
            for b in range(a, w + 2):
                s.case((ch, a, b))
                d = cut_case(f, a, b)
                if d:
                    s.fail("C10.width_aware_slice.characters", dict(char=f"U+{ord(ch):04X}", a=a, b=b), d[:300])
    s.done()


def normalize_slice_bounded(check, tier):
    """the callee contract of the run walk evaluated at run time (as in C06): a change of normalize_slice that the executor cannot follow
    is still decided for small lengths; plus the one place where column slicing shows what normalize_slice does with a stop past the end:
    a last run that takes no column (a combining accent in a run of its own) belongs to the last column of a window that ends beyond it"""
    s = Suite(check, "C10.normalize_slice", "normalize_slice's contract at run time: lengths 0..5 x every int / slice bound in [-len-2, len+2] + None; "
              "values whose LAST run is zero-width, sliced by column ranges ending up to 80 columns past the width", bound="length<=5")
    for n in range(0, 6):
        bounds = list(range(-n - 2, n + 3)) + [None]
        for i in range(-n - 2, n + 3):
            s.contract_case(F.normalize_slice, dict(length=n, index=i), key=(n, i))
        for a in bounds:
            for b in bounds:
                s.contract_case(F.normalize_slice, dict(length=n, index=slice(a, b)), key=(n, a, b))
    for base in ("cafe", "e", "\uff25a"):
        for zw in ("\u0301", "\u0301\u0300", "\u200d"):
            f = FmtStr(Chunk(base, ATTS[0]), Chunk(zw, ATTS[1]))
            w = f.width
            for a in range(0, w):
                for b in (w + 1, w + 2, w + 5, w + 80, None):
                    s.case((base, zw, a, b))
                    try:
                        got = f.width_aware_slice(slice(a, b))
                        d = "" if zw in got.s and got.s.endswith(zw) else f"columns {a}..{'end' if b is None else b - 1} of {f!r}: {got!r} lost the zero-width run that the last column holds"
                    except Exception as e:      # noqa: BLE001
                        d = f"raised {type(e).__name__}: {e}"
                    if d:
                        s.fail("C10.width_aware_slice.trailing_zero_width", dict(base=base, zero_width=zw.encode("unicode_escape").decode(), a=a, b=b), d)
    s.done()


def env_width_failures():
    """(runs in a child interpreter) width / width_at_offset / a few column ranges for one text per character class - plus the East Asian
    AMBIGUOUS characters (Greek, box drawing, the combining accents themselves) - against the wcwidth column model: [[char, detail], ...]"""
    from bounded.common import CHAR_CLASSES
    out = []
    sane = lambda: (wcwidth("a"), wcwidth("\uff25"), wcwidth("\u0301"), wcwidth("\u4e2d")) == (1, 2, 0, 2)
    if not sane():
        # the environment NAMES a locale that is not installed here (ja_JP.UTF-8 ...): give the C library the UTF-8 character type such a
        # locale would have, the environment variables stay as they are
        import locale
        try:
            locale.setlocale(locale.LC_CTYPE, "C.UTF-8")
        except locale.Error:
            pass
    if not sane():
        # cwcwidth asks the C library, whose wcwidth knows no Unicode widths in a locale without UTF-8 (LC_ALL=C, a locale that is not
        # installed): every non-ASCII text is then "unmeasurable" for the dependency itself - the statement's ValueError case, nothing to judge
        return out
    for ch in CHAR_CLASSES + ["\u0300", "\u03b1", "\u2500", "\u00b1", "\u00e0", "\ufe00"]:
        if wcwidth(ch) < 0:
            continue
        f = FmtStr(Chunk("a" + ch, ATTS[0]), Chunk(ch + "b", ATTS[1]))
        d = width_case(f, f.s)
        if not d:
            w = sum(wcwidth(c) for c in f.s)
            for a, b in ((0, 1), (0, w), (1, w), (1, 2), (0, w + 1)):
                d = cut_case(f, a, b)
                if d:
                    break
        if d:
            out.append([f"U+{ord(ch):04X}", d[:300]])
            if len(out) >= 4:
                break
    return out


def environments(check, tier):
    """columns are a matter of the characters, not of the process environment (a CJK locale name, TERM, colour conventions)"""
    from bounded.common import ENVIRONMENTS, run_in_environment
    s = Suite(check, "C10.environments", f"width, width_at_offset and column ranges for one text per character class and the East Asian Ambiguous characters in "
              f"{len(ENVIRONMENTS)} fresh interpreters with other environment variables set before curtsies is imported (ja / zh / ko / tr locale names, "
              "LC_ALL=C, TERM, NO_COLOR ...): the wcwidth column model", bound=f"{len(ENVIRONMENTS)} environments", exhaustive=False)
    for env in ENVIRONMENTS:
        s.case(tuple(sorted(env.items())), sample=dict(env))
        ran, res = run_in_environment("props.C10", "env_width_failures", env)
        if not ran:
            check.note(f"C10.environments: child under {env} did not run: {res}")
            continue
        for ch, d in res[:3]:
            s.fail("C10.width.environment", dict(environment=env, char=ch), d)
    s.done()


def long_inputs(check, tier):
    from bounded.common import long_values
    s = Suite(check, "C10.long", "width, width_at_offset and column ranges / index forms of values with thousands of runs against the column model",
              bound="<= 6000 characters")
    for label, v in long_values():
        txt = v.s
        w = sum(wcwidth(c) for c in txt)
        s.case((label, "w"), sample=label)
        try:
            if v.width != w:
                s.fail("C10.width.long", dict(value=label), f"width={v.width}, columns={w}")
            for n in (0, 1, len(txt) // 2, len(txt)):
                if v.width_at_offset(n) != sum(wcwidth(c) for c in txt[:n]):
                    s.fail("C10.width_at_offset.long", dict(value=label, n=n), f"width_at_offset({n})={v.width_at_offset(n)}")
        except Exception as e:      # noqa: BLE001
            s.fail("C10.width.long", dict(value=label), f"raised {type(e).__name__}: {e}")
        for (a, b) in ((0, w), (1, w - 1), (w // 2, w // 2 + 3), (w - 2, w + 5), (3, 4), (w, w + 1)):
            s.case((label, a, b))
            d = cut_case(v, a, b)
            if d:
                s.fail("C10.width_aware_slice.long", dict(value=label, a=a, b=b), d[:300])
        for ix in (-1, 0, w - 1, -w, slice(-3, None), slice(None, -w + 2), slice(None, None)):
            s.case((label, repr(ix)))
            d = index_case(v, w, ix)
            if d:
                s.fail("C10.width_aware_slice.long", dict(value=label, index=repr(ix)), d[:300])
    s.done()

def run(check, tier, seed):
    from pyvc.verify import verify
    import contracts.valuemodel as VM
    for c in VM.ALL:            # this property's contracts are stated over the executor's value model of Chunk / FmtStr: the real constructors and
        verify(c, tier, check, prefix="C10")      # accessors must behave as that model says (same obligations as in C13, decided here too)
    long_inputs(check, tier)
    characters(check, tier)
    lemma_selftest(check, tier)
    for c in CONTRACTS:
        verify(c, tier, check)
    # (the run walk is proved over normalize_slice's contract - exact normalised bounds, a stop past the end is NOT clamped -: decided here
    # too, not only in C06)
    verify(F.normalize_slice, tier, check, prefix="C10")
    normalize_slice_bounded(check, tier)
    environments(check, tier)
    bounded(check, tier)
    derived(check, tier, seed)
