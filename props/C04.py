"""C04 - FSArray region assignment composites exactly the assigned block."""
import itertools
import random
import contracts.formatstring as F
from pyvc.verify import verify
from vlib.par import pmap
from bounded.common import Suite, FmtStr, Chunk, fmtstr, cells, mk, layouts

LEVEL = "exploration"
CONTRACTS = [F.setslice]
ASSUMPTIONS = [
    "deductively proved: the row primitive FmtStr.setslice_with_length over the contract of splice (C09), and FSArray.__setitem__ for "
    "a[r0:r1, c0:c1] = [FmtStr rows] over the contracts of the row primitive and normalize_slice (rows outside the region untouched, "
    "region rows = the primitive's result for the matching block row, growth downward by blank rows, error atomicity on EVERY exceptional "
    "exit); the error-message branch of __setitem__ (wrong number of rows) is abstracted to 'raises, heap unchanged' after a syntactic "
    "check that it stores to plain locals only and ends in raise; blocks of plain str / FSArray blocks, int and open indices, "
    "__getitem__ and fsarray are decided by the bounded suite against a cell-grid model",
    "slicesize's float division is exact below 2**53 (obligation safe.float_exact under r1, width < 2**52); explicit row stops (an open "
    "row slice allocates sys.maxsize rows)",
    "empty regions (zero rows or columns) with a non-empty block are not judged (the statement is silent)",
]
BL = (" ", ())
ROWPOOL = ["", "x", "xy", "xyz", "wxyz"]


def grid(a):
    g = []
    for r in a.rows:
        c = cells(r)
        g.append(c + [BL] * (a.num_columns - len(c)) if len(c) <= a.num_columns else ["TOOWIDE"] + c)
    return g


def mkrow(spec):
    """spec: tuple of (text, attribute index) runs, or a plain str"""
    from bounded.common import ATT_POOL
    if isinstance(spec, str):
        return spec
    return FmtStr(*[Chunk(t, ATT_POOL[i % len(ATT_POOL)]) for t, i in spec])


def apply_history(H, W, hist, ctor_kwargs=None):
    """run a history of assignments on the real FSArray and on the cell-grid model -> '' or description"""
    from curtsies.formatstringarray import FSArray, fsarray
    ck = dict(ctor_kwargs or {})
    cargs = tuple(ck.pop("_args", ()))          # positional formatting arguments of the constructor
    a = FSArray(H, W, *cargs, **ck)
    model = [[BL] * W for _ in range(H)]
    held = []           # FSArray blocks assigned so far (must stay what they were)
    for step, (r0, r1, c0, c1, blockspec, as_array, int_index) in enumerate(hist):
        block = [mkrow(b) for b in blockspec]
        if as_array:
            try:
                block = fsarray(block) if block else block
            except Exception:
                pass
        before = grid(a)
        bh = len(a.rows)
        rw, rh = c1 - c0, r1 - r0
        rows_cells = [cells(b) for b in blockspec_rows(block)]
        wrong_rows = rh > 0 and rw > 0 and len(rows_cells) != rh
        too_long = []
        if not wrong_rows and rh > 0 and rw > 0:
            for i, bc in enumerate(rows_cells):
                old = model[r0 + i] if r0 + i < len(model) else [BL] * W
                oldlen = len(old)
                while oldlen > 0 and old[oldlen - 1] == BL:
                    oldlen -= 1
                past_width = c0 + len(bc) > W
                # "into existing content beyond the region": longer than the region while the row shows content right of it.
                into_content = len(bc) > rw and any(x != BL for x in old[c1:])
                too_long.append(past_width or into_content)
        block_is_array = hasattr(block, "rows") and hasattr(block, "num_columns")
        block_before = (grid(block), len(block.rows)) if block_is_array else None
        try:
            cell_form = (rh == 1 and rw == 1 and isinstance(block, list) and len(block) == 1 and len(rows_cells[0]) == 1 and step % 2 == 0)
            if cell_form:
                a[r0, c0] = block[0]            # a[r, c] = one character (str or FmtStr), the quantifier's second spelling
            elif int_index:
                a[r0, c0:c1] = block
            elif c0 == 0 and c1 == W and W > 0 and step % 3 == 1:
                a[r0:r1, :] = block             # whole rows: the column part spelled as a bare colon ...
            elif c0 == 0 and c1 == W and W > 0 and step % 3 == 2 and not isinstance(block, str):
                a[r0:r1] = block                # ... or left out altogether
            else:
                a[r0:r1, c0:c1] = block
            raised = None
        except Exception as e:
            raised = e
        after = grid(a)
        # the block is a value: assigning it neither changes it nor ties it to the array (no shared row list)
        if block_is_array:
            if (grid(block), len(block.rows)) != block_before:
                return f"step {step}: the assignment changed its block (an FSArray): {show(block_before[0])} -> {show(grid(block))}"
            held.append((block, block_before, step))
        for hb, hb_before, hstep in held:
            if (grid(hb), len(hb.rows)) != hb_before:
                return f"step {step}: the FSArray assigned in step {hstep} changed when the array was assigned to later: {show(hb_before[0])} -> {show(grid(hb))}"
        if any(r and r[0] == "TOOWIDE" for r in after):
            return f"step {step}: a row is wider than the array: {show(after)}"
        if rh == 0 or rw == 0:
            # empty region: nothing may change except growth with blank rows
            if after[:bh] != before[:bh] or any(r != [BL] * W for r in after[bh:]):
                return f"step {step}: empty region changed cells {show(before)} -> {show(after)}"
            model = after
            continue
        if wrong_rows or any(too_long):
            if raised is None:
                why = "wrong number of rows" if wrong_rows else "a row reaches past the width / into content beyond the region"
                return f"step {step}: no error although {why}: {show(before)} -> {show(after)}"
            if after[:bh] != before[:bh] or any(r != [BL] * W for r in after[bh:]):
                return f"step {step}: {type(raised).__name__} raised but cells changed: {show(before)} -> {show(after)}"
            model = after
            continue
        exp = [list(r) for r in model]
        while len(exp) < r1:
            exp.append([BL] * W)
        overflow = False
        exp_spill = [list(r) for r in exp]
        for i, bc in enumerate(rows_cells):
            if len(bc) > rw:
                overflow = True     # accepted by the rule above: ends inside the blank tail
            exp[r0 + i][c0:c1] = (bc + [BL] * (rw - len(bc)))[:rw]
            exp_spill[r0 + i][c0:max(c1, c0 + len(bc))] = bc + [BL] * (rw - len(bc))
        if raised is not None:
            if overflow:
                model = after
                continue            # rejecting a value longer than the region is always acceptable
            return f"step {step}: unexpected {type(raised).__name__}: {raised!s:.80}"
        if after != exp:
            tag = " (a value longer than the region spilled into the blank tail)" if overflow and after == exp_spill else ""
            return f"step {step}: cells are {show(after)}, expected {show(exp)}{tag}"
        model = exp
        # read back
        try:
            rb = [cells(x) for x in a[r0:r1, c0:c1]]
            if [x + [BL] * (rw - len(x)) for x in rb] != [r[c0:c1] for r in model[r0:r1]]:
                return f"step {step}: a[{r0}:{r1},{c0}:{c1}] reads back {rb}"
            for r in range(len(model)):
                got = cells(a[r])
                if got + [BL] * (W - len(got)) != model[r]:
                    return f"step {step}: a[{r}] reads back {got}"
                # the other spellings of the same row: counted from the end, as a one-row slice, through the sequence protocol
                neg = r - len(model)
                got = cells(a[neg])
                if got + [BL] * (W - len(got)) != model[r]:
                    return f"step {step}: a[{neg}] reads back {got}, row {r} shows {model[r]}"
                one = [cells(x) for x in a[neg:(neg + 1) or None]]
                if [x + [BL] * (W - len(x)) for x in one] != [model[r]]:
                    return f"step {step}: a[{neg}:{(neg + 1) or None}] reads back {one}"
            for bad in (len(model), -len(model) - 1):
                try:
                    a[bad]
                    return f"step {step}: a[{bad}] of an array with {len(model)} rows did not raise IndexError"
                except IndexError:
                    pass
            if len(model) and W and [cells(x) for x in reversed(a)] != [cells(a[k]) for k in range(len(model) - 1, -1, -1)]:
                return f"step {step}: reversed(a) does not give the rows last to first"
            if len(model) and W >= 2:
                rb2 = [cells(x) for x in a[-1:, -2:]]
                if [x + [BL] * (2 - len(x)) for x in rb2] != [model[-1][W - 2:]]:
                    return f"step {step}: a[-1:, -2:] reads back {rb2}"
        except Exception as e:
            return f"step {step}: reading back raised {type(e).__name__}: {e}"
    return _array_unaffected_by_blocks(a, held)


def _array_unaffected_by_blocks(a, held):
    """growing a block that was assigned earlier must not show in the array"""
    for hb, _, hstep in held:
        before = (grid(a), len(a.rows))
        try:
            hb[len(hb.rows):len(hb.rows) + 1, 0:0] = [""]
        except Exception:       # noqa: BLE001
            pass
        if (grid(a), len(a.rows)) != before:
            return f"growing the FSArray that was assigned in step {hstep} changed the array: {show(before[0])} -> {show(grid(a))}"
    return ""


def blockspec_rows(block):
    try:
        return list(block)
    except TypeError:
        return [block]


def show(g):
    return ["".join(c[0] if isinstance(c, tuple) else "!" for c in r) for r in g]


def replay(case):
    if case.get("kind") == "column_block":
        d = column_block_case(case["rows"], case["W"], case["r0"], case["c"], case["block_runs"])
        return d == "", d
    d = apply_history(case["H"], case["W"], [tuple(h) for h in case["hist"]], case.get("ctor"))
    return d == "", d


def _rand_block_row(rng, rw, W):
    n = rng.choice([rw, rw, rw - 1 if rw else 0, rng.randint(0, W + 1)])
    n = max(0, n)
    if rng.random() < .3:
        if n and rng.random() < .25:
            # a plain str row holding characters that "text" handling tends to rewrite (a TAB, a BOM, a lone surrogate, NUL): one cell each
            t = "".join(rng.choice("x\t\ufeff\udce9\x00y") for _ in range(n))
            return t
        return "xyzw"[:n] if n <= 4 else "x" * n
    runs, left = [], n
    while left > 0:
        l = rng.randint(1, left)
        runs.append(("".join(rng.choice("pqr") for _ in range(l)), rng.randint(0, 6)))
        left -= l
    return tuple(runs) if runs else rng.choice(["", (("", 1),)])


def _rand_history(seed):
    rng = random.Random(seed)
    H, W = rng.randint(0, 3), rng.randint(0, 4)
    hist = []
    h = H
    for _ in range(rng.randint(1, 4)):
        r0 = rng.randint(0, h + 1)
        r1 = rng.randint(r0, h + 2)
        c0 = rng.randint(0, W)
        c1 = rng.randint(c0, W)
        if rng.random() < .25:
            c0, c1 = 0, W                   # whole rows (applied as a[r0:r1, :] / a[r0:r1] on every 2nd / 3rd step)
        int_index = rng.random() < .15
        if int_index:
            r1 = r0 + 1
        nrows = r1 - r0 if rng.random() < .85 else rng.randint(0, 3)
        block = [_rand_block_row(rng, c1 - c0, W) for _ in range(nrows)]
        hist.append((r0, r1, c0, c1, block, rng.random() < .15, int_index))
        h = max(h, r1)
    ctor = rng.choice([None, None, {"bg": "blue"}, {"bold": True}, {"_args": ["red"]}, {"_args": ["on_blue", "bold"]}, {"_args": ["underline"], "fg": "green"}])
    return H, W, hist, ctor


def _batch(rng_range):
    lo, hi = rng_range
    fails = []
    for seed in range(lo, hi):
        H, W, hist, ctor = _rand_history(seed)
        try:
            d = apply_history(H, W, hist, ctor)
        except Exception as e:
            d = f"harness crashed: {e!r}"
        if d:
            fails.append((seed, H, W, hist, ctor, d))
    return hi - lo, fails[:40], len(fails)


def bounded(check, tier, seed):
    # (1) the row primitive: the sidecar contract at run time, exhaustively on a small scope
    s = Suite(check, "C04.row_primitive", "setslice_with_length on every row layout <=2 runs (lengths 0..2) x 0<=start<=end<=length<=4 x values "
              "'', 'X', 'XY', 'XYZ' and 1-2 run FmtStr; oracle = the sidecar contract (statement form AND proof form) at run time",
              bound="row<=4 cells, value<=3 cells")
    vals = ["", "X", "XY", "XYZ", mk((1,), 65, 3), mk((1, 1), 70, 4), mk((0,), 65, 2)]
    for lens in layouts(2, 2):
        f = mk(lens)
        for L in range(len(f.s), 5):
            for st in range(0, L + 1):
                for en in range(st, L + 1):
                    for v in vals:
                        s.contract_case(F.setslice, dict(self=f, startindex=st, endindex=en, fs=v, length=L))
    s.done()
    # (2) histories against the cell-grid model
    n = 400000 if tier == "thorough" else 24000
    s = Suite(check, "C04.histories", f"{n} histories of <=4 assignments a[r0:r1,c0:c1]=block / a[r,c0:c1]=block on arrays <=3x4 (zero rows/columns, "
              "constructor formatting), blocks as lists of str/FmtStr or FSArray, rows shorter/equal/longer than the region, regions inside/"
              "straddling/beyond the height; after every step the cell grid is compared with the model and regions/rows are read back; "
              "seeds derive from VERIF_SEED", bound="array<=3x4, <=4 steps", exhaustive=False)
    base = seed * 7919
    step = max(500, n // 28)
    jobs = [(base + lo, base + min(lo + step, n)) for lo in range(0, n, step)]
    for cnt, fails, nf in pmap(_batch, jobs):
        s.evaluations += cnt
        for sd, H, W, hist, ctor, d in fails:
            inputs = dict(H=H, W=W, hist=[list(h) for h in hist], ctor=ctor, spilled=("spilled into the blank tail" in d))
            s.fail("C04.history", inputs, d, replay={"kind": "suite", "module": "props.C04", "case": dict(H=H, W=W, hist=[list(h) for h in hist], ctor=ctor)})
    s.nontrivial = set(range(s.evaluations))
    s.samples = [dict(zip(("H", "W", "hist", "ctor"), _rand_history(base)))]
    s.done()
    # (3) fsarray()
    from curtsies.formatstringarray import fsarray
    s = Suite(check, "C04.fsarray", "fsarray(strings, width) for every list of <=3 rows over a 6-row pool x width None/0..4",
              bound="<=3 rows, width<=4")
    pool = ["", "ab", mk((1, 1)), mk((2,), 70, 2), "abcd", "x\ty", "\ufeffq"]
    for n_ in range(0, 4):
        for rows in itertools.product(pool, repeat=n_):
            for width in [None, 0, 1, 2, 3, 4]:
                s.case((tuple(map(repr, rows)), width), sample=dict(rows=[repr(r) for r in rows], width=width))
                lens = [len(r) for r in rows]
                try:
                    a = fsarray(list(rows), width)
                    err = None
                except Exception as e:
                    err = e
                if width is not None and any(l > width for l in lens):
                    if not isinstance(err, ValueError):
                        s.fail("C04.fsarray.raises", dict(rows=[repr(r) for r in rows], width=width), f"expected ValueError, got {err!r}")
                    continue
                if err is not None:
                    s.fail("C04.fsarray.raises", dict(rows=[repr(r) for r in rows], width=width), f"unexpected {err!r}")
                    continue
                w = width if width is not None else max(lens, default=0)
                if a.num_columns != w or grid(a) != [cells(r) + [BL] * (w - len(r)) for r in rows]:
                    s.fail("C04.fsarray.rows", dict(rows=[repr(r) for r in rows], width=width), f"grid {show(grid(a))}")
    s.done()
    # formatting arguments after the width: they format the plain strings; a row that is already a FmtStr shows as it is
    s = Suite(check, "C04.fsarray_formatting", "fsarray(rows, width, *names, **keywords): every list of <=3 rows over {str, formatted FmtStr, two-run FmtStr, "
              "empty} x width None/len/len+1 x 5 formatting specifications: a str row shows its text with the named formatting, a FmtStr row "
              "shows exactly as it is, blanks fill the rest", bound="<=3 rows")
    from curtsies.formatstring import fmtstr as _fmtstr
    fpool = ["", "ab", "xyz", mk((1, 1)), mk((2,), 70, 2), _fmtstr("q", "on_red", "bold")]
    specs = [(("red",), {}), ((), {"fg": "blue"}), (("on_green", "bold"), {}), ((), {"bg": 44, "underline": True}), ((), {"style": "invert"})]
    for n_ in range(1, 4):
        for rows in itertools.product(fpool, repeat=n_):
            lens = [len(r) for r in rows]
            for width in (None, max(lens), max(lens) + 1):
                for args, kw in specs:
                    case = dict(rows=[repr(r) for r in rows], width=width, args=list(args), kwargs=kw)
                    s.case((tuple(map(repr, rows)), width, args, repr(kw)), sample=case)
                    try:
                        a = fsarray(list(rows), width, *args, **kw)
                    except Exception as e:      # noqa: BLE001
                        s.fail("C04.fsarray.raises", case, f"unexpected {e!r}")
                        continue
                    w = width if width is not None else max(lens)
                    want = [(cells(r) if isinstance(r, FmtStr) else cells(_fmtstr(r, *args, **kw))) for r in rows]
                    g = grid(a)
                    ok = a.num_columns == w and len(g) == len(rows) and all(len(gr) == w and gr[:len(x)] == x and all(c[0] == " " for c in gr[len(x):])
                                                                             for gr, x in zip(g, want))
                    if not ok:
                        s.fail("C04.fsarray.rows", case, f"grid {show(g)}; the rows are {show(want)}")
    s.done()


def column_block_case(rows, W, r0, c, block_runs):
    """a[r0:r0+n, c] = <a FmtStr of n characters>: the block of a one-column region may be a FmtStr itself (one row per character, the
    formatted counterpart of a[0:3, 1] = 'abc').  -> '' or description"""
    from curtsies.formatstringarray import fsarray
    a = fsarray(list(rows), W)
    before = grid(a)
    block = FmtStr(*[Chunk(t, dict(at)) for t, at in block_runs])
    bc = cells(block)
    n = len(bc)
    try:
        a[r0:r0 + n, c] = block
    except Exception as e:      # noqa: BLE001
        after = grid(a)
        if after[:len(before)] != before or any(r != [BL] * W for r in after[len(before):]):
            return f"{type(e).__name__} raised but cells changed: {show(before)} -> {show(after)}"
        return f"raised {type(e).__name__}: {e} for a block with exactly one character per row of the region"
    after = grid(a)
    want = [list(r) for r in before] + [[BL] * W for _ in range(max(0, r0 + n - len(before)))]
    for i in range(n):
        want[r0 + i][c] = bc[i]
    if after != want:
        return f"a[{r0}:{r0 + n}, {c}] = {block!r} on {show(before)}: cells are {show(after)}, expected {show(want)}"
    return ""


def column_blocks(check, tier):
    s = Suite(check, "C04.column_blocks", "a[r0:r0+n, c] = <FmtStr of n characters> (one row per character; two runs; narrow, combining, double-width "
              "characters) on 4 arrays x every r0 in 0..H x every column: the column shows the characters with their formatting, every other "
              "cell is as it was, the array grows as needed", bound="arrays 4x3, blocks <= 3 characters")
    arrays = [(["abc", "de", "", "f"], 3), (["abc", "abc", "abc", "abc"], 3), ([], 2), (["a"], 3)]
    blocks = [[["a", {"fg": 31}], ["b", {"bold": True}]], [["x", {"fg": 31}], ["e\u0301", {"bold": True}]], [["\u0301", {}], ["a", {"bg": 44}]],
              [["q", {"fg": 32}]], [["xyz", {"underline": True}]], [["a\u200d", {"fg": 35}], ["b", {}]]]
    for rows, W in arrays:
        for r0 in range(0, len(rows) + 2):
            for c in range(0, W):
                for br in blocks:
                    case = dict(rows=rows, W=W, r0=r0, c=c, block_runs=br)
                    s.case((tuple(rows), W, r0, c, repr(br)), sample=case)
                    d = column_block_case(**case)
                    if d:
                        s.fail("C04.column_block", case, d, replay={"kind": "suite", "module": "props.C04", "case": dict(case, kind="column_block")})
    s.done()


def contract_probe(n=2500):
    """concrete assignment histories for the deductive contracts of FSArray (heap objects: no model to replay); the listed known
    finding (over-long row spilling into the blank tail) is not a witness for another obligation and is skipped"""
    out = []
    for seed in range(n):
        H, W, hist, ctor = _rand_history(seed)
        try:
            d = apply_history(H, W, hist, ctor)
        except Exception as e:      # noqa: BLE001
            continue
        if d and "spilled into the blank tail" not in d:
            case = dict(H=H, W=W, hist=[list(h) for h in hist], ctor=ctor)
            out.append(("C04.history", dict(history=case), d, {"kind": "suite", "module": "props.C04", "case": case}))
            if len(out) >= 3:
                break
    return out


def run(check, tier, seed):
    import contracts.fsarray as FSA
    for c in CONTRACTS:
        verify(c, tier, check)
    verify(F.normalize_slice, tier, check, prefix="C04")       # (region bounds go through it: callee contract decided here too)
    for c in FSA.ALL:
        c.probe = contract_probe
        # (post.region_rows_show_the_block needs 17-19 s of z3's sequence solver on an idle machine and cvc5 does not decide it: the
        # per-obligation budget of this contract is sized so that the verdict does not flip when all cores are busy)
        verify(c, tier, check, budget=90 if tier == "quick" else 240)
    bounded(check, tier, seed)
    column_blocks(check, tier)
