"""C01 - str(FmtStr) displays exactly its characters and formatting, then resets."""
import itertools
import random
import contracts.render as R
import contracts.memo as MEMO
from pyvc.verify import verify
from vlib.report import Check, Obligation
from vlib.par import pmap
from bounded.common import Suite, FmtStr, Chunk, fmtstr, cells
from spec import sgr

LEVEL = "proof"
ASSUMPTIONS = [
    "ECMA-48 reading of SGR (spec/sgr.py); the text is free of ESC / CSI introducers (the property's quantifier)",
    "attribute dicts as produced by the public API: keys among fg,bg + 6 styles, fg in 30..37, bg in 40..47, style values boolean",
    "composition over runs: if every run's string takes the default state to the default state, so does their concatenation and the "
    "displayed cells concatenate (property of the reference interpreter; lemma sgr_run_append in lean/Lemmas.lean) - FmtStr.__str__ "
    "is proved to be that concatenation (C13 memo contract) for any number of runs",
    "parametricity: the run's text is an opaque token that the body may only concatenate (anything else is Unsupported)",
    "the tiny helper termformatconstants.seq is inlined through its real AST",
]


def _split_batch(args):
    import os
    os.environ["PYVC_SERIAL"] = "1"
    tier, lo, hi, full = args
    ds = list(enumerate(R.all_dicts(full)))[lo:hi]
    ck = Check("C01", tier, 0, "proof")
    c = R.color_str_contract(ds, name="split")
    rep = verify(c, tier, ck)
    bad = [(o.id, o.result, o.detail) for o in ck.obligations if o.result != "discharged"]
    return rep.obligations, rep.discharged, bad[:20], ck.engine_errors[:3], sum(o.seconds or 0 for o in ck.obligations), \
        [p for p in ck.pending_refuted[:5]]


def deductive(check, tier):
    full = tier == "thorough"
    total = 59049 if full else 6561
    step = (total + 13) // 14
    jobs = [(tier, lo, min(lo + step, total), full) for lo in range(0, total, step)]
    nob = ndis = 0
    for ob, dis, bad, errs, secs, pend in pmap(_split_batch, jobs):
        nob += ob
        ndis += dis
        for e in errs:
            check.engine_error(e)
        for oid, res, det in bad:
            check.add_obligation(Obligation(oid, "formatstring:Chunk.color_str", "split", "partial evaluation + reference SGR interpreter", res, 0.0, det))
        for p in pend:
            check.refuted_without_input(*p)
    # one aggregated record per discharged case would bloat the evidence file: record them as a block
    for i in range(ndis):
        check.obligations.append(Obligation(f"C01.Chunk.color_str.split.{i}", "formatstring:Chunk.color_str", "split",
                                            "partial evaluation + reference SGR interpreter", "discharged", 0.0))
    check.functions["formatstring:Chunk.color_str#split"] = {"obligations": nob, "discharged": ndis, "paths": nob, "status": "ok",
                                                             "shapes": total, "complete_split": full}
    if not full:
        check.note("quick tier: 6561 of the 59049 attribute dicts (3 fg x 3 bg x 3^6 styles); thorough enumerates all")
    verify(MEMO.str_memo, tier, check)


TEXTS = ["x", "", "a b", "line1\nline2", "tab\there", "Ｅ wide", "é", "\r\x07", "caf\udce9", "\ufeffab", "x\ud83d\ude00y", "\x00z"]


def run_case(runs, derive=False):
    f = FmtStr(*[Chunk(t, dict(a)) for t, a in runs])
    d = run_value(f)
    if d or not derive:
        return d
    # values built from an already rendered value through the public API must display correctly too
    derived = {"fmtstr(f, bold=False)": lambda: fmtstr(f, bold=False),
               "f.copy_with_new_atts(underline=False, invert=False)": lambda: f.copy_with_new_atts(underline=False, invert=False),
               "f.new_with_atts_removed('fg')": lambda: f.new_with_atts_removed("fg"), "f[1:]": lambda: f[1:], "f + f": lambda: f + f,
               "f[0:1]": lambda: f[0:1], "f[:-1]": lambda: f[:-1], "f.width_aware_slice(slice(0, 1))": lambda: f.width_aware_slice(slice(0, 1)),
               "f.width_aware_slice(slice(1, 3))": lambda: f.width_aware_slice(slice(1, 3)),
               "fmtstr(f, 'red')": lambda: fmtstr(f, "red"), "'x' + f": lambda: "x" + f, "f.splice('y', 1)": lambda: f.splice("y", 1)}
    for name, mkv in derived.items():
        try:
            g = mkv()
        except ValueError as e:
            if "width_aware" in name:
                continue        # text that has no width (control characters): column slicing refuses it (C10), nothing to display
            return f"{name} raised {type(e).__name__}: {e}"
        except Exception as e:
            return f"{name} raised {type(e).__name__}: {e}"
        d = run_value(g)
        if d:
            return f"{name}: {d}"
    return ""


def run_value(f):
    s = str(f)
    shown, final, only = sgr.run(s)
    want = cells(f)
    if shown != want:
        return f"terminal shows {shown}, the value is {want} (string {s!r})"
    if final != sgr.DEFAULT:
        return f"graphic state left at {final} (string {s!r})"
    if not only:
        return f"string contains something other than SGR sequences and the text: {s!r}"
    return ""


def replay(case):
    if "history" in case:
        ran, d = history_in_child(case["history"])
        return (d == "" if ran else True), (d if ran else "")
    if "aborted_at_line_event" in case:
        from bounded.common import run_interrupted
        f = FmtStr(*[Chunk(t, dict(a)) for t, a in case["runs"]])
        run_interrupted(lambda: str(f), case["aborted_at_line_event"])
        d = run_value(f)
        return d == "", d
    d = run_case([(t, a) for t, a in case["runs"]], derive=True)
    return d == "", d


def _pyte_case(runs):
    import pyte
    f = FmtStr(*[Chunk(t, dict(a)) for t, a in runs])
    text = "".join(t for t, _ in runs)
    if any(ord(c) < 32 or ord(c) > 126 for c in text) or len(text) > 70:
        return ""
    scr = pyte.Screen(80, 3)
    st = pyte.Stream(scr)
    st.feed(str(f))
    names = {30: "black", 31: "red", 32: "green", 33: "brown", 34: "blue", 35: "magenta", 36: "cyan", 37: "white"}
    col = 0
    for ch, fmt in cells(f):
        c = scr.buffer[0][col]
        d = dict(fmt)
        exp = (ch, names.get(d.get("fg"), "default"), names.get(d.get("bg", 0) - 10, "default"), bool(d.get("bold")), bool(d.get("italic")),
               bool(d.get("underline")), bool(d.get("invert")))
        got = (c.data, c.fg, c.bg, c.bold, c.italics, c.underscore, c.reverse)
        if got != exp:
            return f"pyte cell {col}: {got}, expected {exp}"
        col += 1
    return ""


def bounded(check, tier, seed):
    full = tier == "thorough"
    s = Suite(check, "C01.runs", "every attribute dict of the split (6561 / 59049) on a one-run value with a text from a pool containing newline, "
              "tab, wide, combining and C0 control characters; plus random multi-run values (<=4 runs, empty runs, adjacent runs sharing "
              "attributes); oracle = reference SGR interpreter: displayed cells == the value's cells, final state default, only SGR emitted",
              bound="texts from an 8-entry pool; multi-run <=4 runs", exhaustive=False)
    for i, d in enumerate(R.all_dicts(full)):
        t = TEXTS[i % len(TEXTS)]
        s.case(i, sample=dict(runs=[[t, d]]) if i < 2 else None)
        r = run_case([(t, d)])
        if r:
            s.fail("C01.str.one_run", dict(runs=[[t, d]]), r, replay={"kind": "suite", "module": "props.C01", "case": dict(runs=[[t, d]])})
    rng = random.Random(seed + 1)
    pool = list(R.all_dicts(False))
    n = 20000 if full else 3000
    for i in range(n):
        runs = []
        base = rng.choice(pool)
        for _ in range(rng.randint(1, 4)):
            d = dict(base) if rng.random() < .4 else dict(rng.choice(pool))
            if rng.random() < .3:
                d.update(rng.choice(pool))
            runs.append([rng.choice(TEXTS), d])
        s.case(("multi", i))
        r = run_case(runs, derive=True)
        if r:
            s.fail("C01.str.multi_run", dict(runs=runs), r, replay={"kind": "suite", "module": "props.C01", "case": dict(runs=runs)})
        elif full or i < 400:
            r = _pyte_case(runs)
            if r:
                check.engine_error(f"reference interpreter and pyte disagree on {runs}: {r}")
    s.done()


CODE_LIKE = ["31", "1m", "[34", "0m", "39m", "4m", ";", "m", "[", "22", "7m7", "[0m", "44", "[1;31m", "38;5;1m", "3", "1", "m31"]


def code_like_texts(check, tier):
    """run texts that look like pieces of the SGR sequences the rendering itself writes (digits, ';', '[', 'm'): they are text"""
    dicts = [d for i, d in enumerate(R.all_dicts(False)) if i % 97 == 0] + [{"fg": 31}, {"bold": True}, {"fg": 34, "bg": 44}, {"underline": True}, {"fg": 33},
                                                                          {"bg": 41, "invert": True}, {"dark": True, "fg": 32}]
    s = Suite(check, "C01.code_like_texts", f"{len(CODE_LIKE)} run texts made of the characters of SGR sequences ('31', '1m', '[34', '0m', ...) x {len(dicts)} "
              "attribute dicts, as one run, between two other runs, and after the value was rendered: sliced / re-formatted / joined values "
              "derived from it (incl. one-character and column slices)", bound=f"{len(CODE_LIKE)} texts x {len(dicts)} dicts x 2 layouts")
    for t in CODE_LIKE:
        for d in dicts:
            for runs in ([[t, d]], [["a", {"fg": 32}], [t, d], [t, {"bold": True}]]):
                s.case((t, repr(d), len(runs)), sample=dict(runs=runs))
                r = run_case(runs, derive=True)
                if r:
                    s.fail("C01.str.code_like_text", dict(runs=runs), r, replay={"kind": "suite", "module": "props.C01", "case": dict(runs=runs)})
    s.done()


def env_sample():
    """(runs in a child interpreter) a fixed sample of run / attribute combinations rendered and judged: -> list of [runs, detail]"""
    dicts = [d for i, d in enumerate(R.all_dicts(False)) if i % 211 == 0] + [{"fg": 31}, {"bg": 44}, {"fg": 34, "bg": 41, "bold": True}, {"underline": True}]
    out = []
    for t in ["x", "a b", "line1\nline2", "31", "\uff25"]:
        for d in dicts:
            for runs in ([[t, d]], [["p", {"fg": 32}], [t, d]]):
                r = run_case(runs, derive=True)
                if r:
                    out.append([runs, r])
                    if len(out) >= 5:
                        return out
    return out


def environments(check, tier):
    """what str(f) writes does not depend on the process environment (NO_COLOR, TERM, CLICOLOR ..., locale): the FmtStr says what is shown"""
    from bounded.common import ENVIRONMENTS, run_in_environment
    s = Suite(check, "C01.environments", f"a fixed sample of values rendered and judged in {len(ENVIRONMENTS)} fresh interpreters, each with other environment "
              "variables set before curtsies is imported (NO_COLOR, TERM=dumb / rxvt / linux / empty, CLICOLOR, FORCE_COLOR, COLORTERM, LC_ALL=C, "
              "PYTHONOPTIMIZE, COLUMNS / LINES)", bound=f"{len(ENVIRONMENTS)} environments", exhaustive=False)
    for env in ENVIRONMENTS:
        s.case(tuple(sorted(env.items())), sample=dict(env))
        ran, res = run_in_environment("props.C01", "env_sample", env)
        if not ran:
            check.note(f"C01.environments: child under {env} did not run: {res}")
            continue
        for runs, d in res[:3]:
            s.fail("C01.render.environment", dict(environment=env, runs=runs), d[:300])
    s.done()


def derived(check, tier, seed):
    from bounded.derived import derived_values
    n = 12000 if tier == "thorough" else 1500
    s = Suite(check, "C01.derived", f"{n} values at the end of chains of <= 4 public operations (bounded/derived.py: slices, joins, splices, "
              "re-formatting, repeats, wraps ... of values that were partly rendered on the way): str() displays exactly their cells and "
              "returns the terminal to its default state", bound="chains <= 4 operations", exhaustive=False)
    for k, v in enumerate(derived_values(seed, n)):
        s.case(k, sample=repr(v) if k < 2 else None)
        d = run_value(v)
        if d:
            s.fail("C01.str.derived", dict(value=repr(v), runs=str(v.chunks), chain=k, seed=seed), d)
    s.done()


INTERRUPT_RUNS = [[("head|", {}), ("middle|", {"fg": 31, "bg": 44, "bold": True}), ("tail", {"underline": True})],
                  [("a", {"fg": 32}), ("", {"bold": True}), ("b\n", {"bg": 41})],
                  [("x", {"invert": True})],
                  [("p", {}), ("q", {}), ("r", {"dark": True}), ("s", {"fg": 35, "underline": True})]]


def interrupted(check, tier):
    """a str(f) that is aborted half-way (Ctrl-C delivered through the SIGINT handler, MemoryError, RecursionError) must not leave
    anything behind that a later, complete str(f) hands out: every abort point of the rendering of a few values, then the oracle"""
    from bounded.common import interrupted_then
    s = Suite(check, "C01.interrupted", "str(f) aborted at each of its executed lines (asynchronous exception), then str(f) again on the same "
              "value: displays exactly the value's cells", bound=f"{len(INTERRUPT_RUNS)} values x every abort point")
    for runs in INTERRUPT_RUNS:
        build = lambda: FmtStr(*[Chunk(t, dict(a)) for t, a in runs])
        n = 0
        for k, d in interrupted_then(build, str, run_value):
            s.case(("int", str(runs), k), sample=dict(runs=[[t, a] for t, a in runs], aborted_at_line_event=k) if k == 3 else None)
            if not d:
                continue
            case = dict(runs=[[t, a] for t, a in runs], aborted_at_line_event=k)
            s.fail("C01.str.after_interrupted_render", case, f"after a str(f) aborted at its line event #{k}: {d}",
                   replay={"kind": "suite", "module": "props.C01", "case": case})
    s.done()


# ---------------------------------------------------------------------- one process, many values: what an earlier rendering leaves behind
def history_case(history):
    """render the values of `history` one after the other in THIS process; a value is judged iff its attribute values are the proper ones
    (booleans for styles, numbers 30..37 / 40..47 for colours) - the others (bold=0, bold=1, fg=31.0: values that compare equal to proper
    ones without being them) are only rendered, to leave behind whatever rendering leaves behind.  -> '' or description"""
    for i, runs in enumerate(history):
        f = FmtStr(*[Chunk(t, dict(a)) for t, a in runs])
        proper = all((type(v) is bool) if k not in ("fg", "bg") else (type(v) is int) for _, a in runs for k, v in a.items())
        try:
            if proper:
                d = run_value(f)
            else:
                str(f)
                d = ""
        except Exception as e:      # noqa: BLE001
            d = f"raised {type(e).__name__}: {e}" if proper else ""
        if d:
            return f"value {i} of the history ({runs}), rendered after {i} others in the same process: {d}"
    return ""


_HISTORY_CHILD = "import json, sys; from props.C01 import history_case; print(json.dumps(history_case(json.loads(sys.stdin.read()))))"


def history_in_child(history):
    """-> (ran, description) in a brand-new interpreter (nothing rendered before)"""
    import json, os, subprocess, sys
    here = os.path.dirname(os.path.dirname(os.path.abspath(__file__)))
    env = dict(os.environ)
    env["PYTHONPATH"] = os.pathsep.join([here] + [p for p in sys.path if p])
    try:
        r = subprocess.run([sys.executable, "-c", _HISTORY_CHILD], input=json.dumps(history), env=env, capture_output=True, text=True, timeout=120)
        return True, json.loads(r.stdout.strip().splitlines()[-1])
    except Exception as e:      # noqa: BLE001  (a child that cannot run is a harness matter, never a verdict)
        return False, f"{e!r}"


def _histories(tier, seed):
    styles = ["bold", "dark", "italic", "underline", "blink", "invert"]
    twins = [[["a", {k: v}]] for k in styles for v in (0, 1)] + [[["a", {"fg": 31.0}]], [["a", {"bg": 44.0}]], [["a", {"fg": 31.0, "bold": 0, "bg": 41.0}]]]
    proper = ([[["hi", {k: v}]] for k in styles for v in (False, True)] + [[["hi", {"fg": c}]] for c in (31, 34)] + [[["hi", {"bg": c}]] for c in (41, 44)]
              + [[["x", {"fg": 31, "bold": False, "underline": True}], ["y", {"bg": 44, "bold": True, "invert": False}]]])
    yield twins + proper                                    # the look-alikes first
    yield proper + twins + proper                           # proper values first, then the look-alikes, then the proper ones again
    yield [v for pair in zip(twins, proper) for v in pair] + proper
    yield list(reversed(twins)) + list(reversed(proper))
    rng = random.Random(seed + 101)
    for _ in range(12 if tier == "thorough" else 2):
        h = twins + proper + proper
        rng.shuffle(h)
        yield h


def histories(check, tier, seed):
    s = Suite(check, "C01.histories", "values rendered one after the other in one fresh interpreter: style / colour values that merely compare equal to "
              "proper ones (bold=0, bold=1, fg=31.0) are rendered before, between and after proper values; every proper value must still display "
              "exactly its characters and formatting (nothing an earlier rendering leaves behind may show)", bound="6 styles x {0,1}, 2 float colours; 4 fixed orders + shuffles",
              exhaustive=False)
    for k, h in enumerate(_histories(tier, seed)):
        s.case(("history", k), sample=dict(history=h[:3]) if k == 0 else None)
        ran, d = history_in_child(h)
        if not ran:
            check.note(f"C01.histories: child {k} did not run: {d}")
            continue
        if d:
            # shrink: the shortest prefix that still fails (each attempt in its own interpreter)
            lo = h
            for n in range(1, len(h) + 1):
                ok, d2 = history_in_child(h[:n])
                if ok and d2:
                    lo, d = h[:n], d2
                    break
            case = dict(history=lo)
            s.fail("C01.render.history", case, d, replay={"kind": "suite", "module": "props.C01", "case": case})
    s.done()


def long_inputs(check, tier):
    from bounded.common import long_values
    s = Suite(check, "C01.long", "values with thousands of runs / characters: str() displays exactly their cells", bound="<= 6000 characters")
    for label, v in long_values():
        s.case(label, sample=label)
        try:
            d = run_value(v)
        except Exception as e:      # noqa: BLE001
            d = f"raised {type(e).__name__}: {e}"
        if d:
            s.fail("C01.str.long", dict(value=label), d[:400])
    s.done()


def run(check, tier, seed):
    from pyvc.verify import verify
    import contracts.valuemodel as VM
    for c in VM.ALL:            # this property's contracts are stated over the executor's value model of Chunk / FmtStr: the real constructors and
        verify(c, tier, check, prefix="C01")      # accessors must behave as that model says (same obligations as in C13, decided here too)
    long_inputs(check, tier)
    deductive(check, tier)
    bounded(check, tier, seed)
    derived(check, tier, seed)
    interrupted(check, tier)
    code_like_texts(check, tier)
    environments(check, tier)
    histories(check, tier, seed)
