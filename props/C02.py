"""C02 - FullscreenWindow: after every render the screen equals the array.

Bounded check (exploration).  A real FullscreenWindow writes into the reference terminal spec/terminal.py (xterm pending-wrap
semantics, alternate screen, scroll counter); after every render_to_terminal the oracle - written from the statement only -
demands: screen row i shows array row i (characters with their formatting) cut to the width, every other cell is blank and
unformatted, the cursor is on cursor_pos, and the terminal never scrolled.  Histories interleave renders with resizes that
leave arbitrary junk (and an arbitrary cursor) behind."""
import io
import random

from vlib.par import pmap
from bounded.common import Suite, FmtStr, Chunk, cells
from spec.terminal import Terminal, BLANK, show, selftest_against_pyte, pyte_new, pyte_load, compare_with_pyte

LEVEL = "proof"
ASSUMPTIONS = [
    "the terminal is the reference model spec/terminal.py (xterm semantics: last-column flag, EL/ED erase from the cursor cell, "
    "back-colour-erase, alternate screen without scrollback); in thorough it is cross-checked against pyte on random escape streams "
    "and on the very streams the window writes",
    "blessed capability strings are those of TERM=xterm-256color (what the window writes is interpreted, not assumed)",
    "single-column printable characters only; cursor_pos inside the terminal",
    "a resize is modelled as: new size, arbitrary cells everywhere, arbitrary cursor; the new size differs from the size last rendered at "
    "(as quantified) - the window is not told about the resize other than through its height/width properties",
    "bounded: terminals <= 4x5, <= 4 renders/resizes per history, arrays <= (height+1) rows x (width+1) columns",
]
MOD = "props.C02"
ATTS = [{}, {"fg": 31}, {"fg": 32}, {"bg": 44}, {"bold": True}, {"fg": 31, "bold": True}, {"underline": True, "bold": False},
        {"fg": 35, "bg": 41, "invert": True}, {"dark": True}, {"italic": True, "blink": True}, {"fg": 37, "bg": 40}]
JUNK = [("#", ()), ("x", (("fg", 31),)), (" ", (("bg", 44),)), ("a", ()), ("b", (("bold", True),)), BLANK, ("~", (("bg", 41), ("fg", 32)))]


class _Out(io.StringIO):
    def __init__(self, sink):
        super().__init__()
        self.sink = sink

    def write(self, s):
        self.sink(s)
        return len(s)

    def fileno(self):
        return 1


_WIN = []


def _window_class():
    if not _WIN:
        from curtsies.window import FullscreenWindow

        class Sized(FullscreenWindow):
            height = property(lambda self: self._hw[0])
            width = property(lambda self: self._hw[1])
        _WIN.append(Sized)
    return _WIN[0]


def mkrow(spec):
    """row spec: a str (plain str row) or a list of [text, index into ATTS] runs (FmtStr)"""
    if isinstance(spec, str):
        return spec
    return FmtStr(*[Chunk(t, ATTS[i]) for t, i in spec])


def rowlen(spec):
    return len(spec) if isinstance(spec, str) else sum(len(t) for t, _ in spec)


def junk_fn(seed):
    rng = random.Random(seed)
    table = {}

    def f(r, c):
        if (r, c) not in table:
            table[(r, c)] = rng.choice(JUNK)
        return table[(r, c)]
    return f


def flags(case, upto=None):
    h, w = case["H"], case["W"]
    taller = wider = False
    for st in case["steps"][:upto]:
        if st[0] == "resize":
            h, w = st[1], st[2]
        else:
            taller = taller or len(st[1]) > h
            wider = wider or any(rowlen(r) > w for r in st[1])
    return taller, wider


def run_history(case, second=False):
    """-> dict(clause, detail, step, engine, disagree, compared).  clause '' = the history satisfies the statement."""
    from curtsies.formatstringarray import fsarray
    H, W = case["H"], case["W"]
    term = Terminal(H, W)
    persist = {}
    res = dict(clause="", detail="", step=None, engine="", disagree="", compared=0)
    chunk = []
    pyt = [None, None]

    def sink(s):
        chunk.append(s)
        term.feed(s)
        if pyt[1] is not None:
            pyt[1].feed(s)
    w = _window_class()(out_stream=_Out(sink), hide_cursor=case["hide"])
    w._hw = (H, W)

    def fail(clause, i, detail):
        res.update(clause=clause, step=i, detail=f"step {i} at {H}x{W}: {detail}; bytes written in this step {''.join(chunk)!r:.240}")
    try:
        w.__enter__()
    except Exception as e:
        fail("C02.raises", -1, f"entering the context raised {type(e).__name__}: {e}")
        return res
    if not term.alt:
        res["engine"] = "the window did not switch to the alternate screen - the harness assumes it does"
    if second:
        term.quirks.clear()
        pyt[0], pyt[1] = pyte_new(term, history=False)
    try:
        for i, st in enumerate(case["steps"]):
            del chunk[:]
            if st[0] == "resize":
                _, H, W, jseed, cur = st[:5]
                term.resize(H, W, junk=None if jseed is None else junk_fn(jseed), cursor=tuple(cur))
                w._hw = (H, W)
                if pyt[0] is not None:
                    pyte_load(pyt[0], term)
                continue
            _, rowspecs, cur, kind = st[:4]
            rows = [mkrow(r) for r in rowspecs]
            array = fsarray(rows) if kind == "fsarray" else rows
            if kind == "fsassign":
                # an FSArray filled by whole-row assignment a[i] = row (the form the module's docstring shows): the rows are stored as
                # they are, so the array's declared width says nothing about their lengths
                from curtsies.formatstringarray import FSArray
                array = FSArray(len(rows), min([len(r) for r in rows], default=0))
                for k_, r_ in enumerate(rows):
                    array[k_] = r_
            if case.get("reuse"):
                # the caller keeps ONE buffer object and edits it in place between renders (what an application's paint loop does)
                if kind in ("fsarray", "fsassign"):
                    if "fs" in persist:
                        persist["fs"].rows[:] = array.rows
                        persist["fs"].num_columns = array.num_columns
                        array = persist["fs"]
                    else:
                        persist["fs"] = array
                else:
                    if "list" in persist:
                        persist["list"][:] = rows
                        array = persist["list"]
                    else:
                        persist["list"] = array
            want = [cells(array[k]) for k in range(len(array))]
            scrolls0, wraps0 = term.scrolls, term.wraps
            try:
                w.render_to_terminal(array, tuple(cur))
            except Exception as e:
                fail("C02.raises", i, f"render_to_terminal({show(want)}, {tuple(cur)}) raised {type(e).__name__}: {e}")
                return res
            if term.unknown:
                res["engine"] = f"the window wrote something the reference terminal does not model: {term.unknown[:3]}"
                return res
            exp = [(want[r][:W] + [BLANK] * (W - len(want[r])) if r < len(want) else [BLANK] * W) for r in range(H)]
            what = f"render of {len(want)} rows {show(want)} cursor_pos {tuple(cur)}"
            if term.scrolls != scrolls0:
                fail("C02.scroll", i, f"{what}: the terminal scrolled {term.scrolls - scrolls0} line(s); screen now {show(term.screen)}, "
                     f"top-left part of the array {show(exp)}")
                return res
            if term.screen != exp:
                bad = [r for r in range(H) if term.screen[r] != exp[r]]
                fail("C02.screen", i, f"{what}: screen shows {show(term.screen)} but the array (part that fits) is {show(exp)} "
                     f"- rows {bad} differ" + (f" ({term.wraps - wraps0} character(s) were written past the right margin and wrapped)" if term.wraps != wraps0 else ""))
                return res
            if term.cursor != tuple(cur):
                fail("C02.cursor", i, f"{what}: cursor is at {term.cursor}")
                return res
            if pyt[0] is not None:
                if term.quirks:
                    pyt[0] = pyt[1] = None
                else:
                    res["compared"] += 1
                    d = compare_with_pyte(term, pyt[0])
                    if d:
                        res["disagree"] = f"step {i} at {H}x{W} after bytes {''.join(chunk)!r}: {d}"
                        pyt[0] = pyt[1] = None
    finally:
        try:
            w.__exit__(None, None, None)
        except Exception as e:
            if not res["clause"]:
                fail("C02.raises", len(case["steps"]), f"leaving the context raised {type(e).__name__}: {e}")
    return res


def replay(case):
    r = run_history(case)
    if r["engine"]:
        return False, "harness problem: " + r["engine"]
    return r["clause"] == "", (f"{r['clause']}: {r['detail']}" if r["clause"] else "")


# ---------------------------------------------------------------------- enumerated family
def _letters(i, n):
    return chr(97 + i % 26) * n


SENTINELS = ["None", "0", "False", "[]", "-1", "''"]


def pool(H, W):
    full = [_letters(i, W) for i in range(H)]
    p = {
        "empty": [],
        "full": full,
        "fullred": [[[t, 1]] for t in full],
        "fullsplit": [[[t[:W // 2], 1], [t[W // 2:], 3]] for t in full],
        "short": [[[_letters(i, W - 1), 2]] for i in range(H)],
        "fewer": full[:H - 1],
        "one": ["z"],
        "blankrows": ["" for _ in range(H)],
        "mixed": [[[_letters(i + 3, (i * 2 + 1) % (W + 1)), (i + 4) % len(ATTS)]] for i in range(H)],
        "taller": [_letters(i + 10, W) for i in range(H + 1)],
        "wider0": [_letters(20, W + 1)] + full[1:],
        "widerlast": full[:H - 1] + [[[_letters(21, W + 1), 5]]],
        # rows whose text is what str() makes of a value a cache, a dict.get or a default could hold ("None" is a row like any other)
        "sentinels": [SENTINELS[i % len(SENTINELS)] for i in range(H)],
        "sentinels_runs": [[[SENTINELS[(i + 1) % len(SENTINELS)], 0]] for i in range(H)],
    }
    return p


SIZES = [(h, w) for h in range(1, 5) for w in range(1, 6)]


def family():
    for (H, W) in SIZES:
        p = pool(H, W)
        names = list(p)
        for ia, a in enumerate(names):
            for ib, b in enumerate(names):
                for hide in (True, False):
                    kind = "fsarray" if (ia + ib) % 2 else "list"
                    yield dict(H=H, W=W, hide=hide, steps=[["render", p[a], [0, 0], kind], ["render", p[b], [H - 1, W - 1], "list"]],
                               tag=f"{a}>{b}")
        sub = ["full", "fullred", "short", "fewer", "empty", "mixed"]
        for a in names:
            for b in sub:
                yield dict(H=H, W=W, hide=False, tag=f"{a}>{b} (rows assigned into an FSArray)",
                           steps=[["render", p[a], [0, 0], "fsassign"], ["render", p[b], [H - 1, 0], "fsassign"]])
        for a in sub:
            for b in sub:
                yield dict(H=H, W=W, hide=True, tag=f"{a}>{b}>{a}",
                           steps=[["render", p[a], [0, 0], "list"], ["render", p[b], [0, W - 1], "fsarray"], ["render", p[a], [H - 1, 0], "list"]])
        for a in sub:
            for c in ("fewer", "empty", "one", "short"):
                yield dict(H=H, W=W, hide=False, tag=f"{a}>{a}>{c}",
                           steps=[["render", p[a], [0, 0], "list"], ["render", p[a], [0, 0], "list"], ["render", p[c], [H - 1, W - 1], "list"]])
        m = min(H, W)
        same = [[[_letters(i, m), i % 4]] for i in range(m)]
        for (H2, W2) in SIZES:          # the same small array before and after a resize (transposed size included) that leaves junk
            if (H2, W2) != (H, W) and min(H2, W2) >= m:
                for jseed in (1, 2):
                    yield dict(H=H, W=W, hide=True, tag="same>resize>same",
                               steps=[["render", same, [0, 0], "list"], ["resize", H2, W2, jseed, [0, 0]], ["render", same, [0, 0], "list"]])
        k = 0
        for (H2, W2) in SIZES:
            if (H2, W2) == (H, W) or abs(H2 - H) > 1 or abs(W2 - W) > 1:
                continue
            p2 = pool(H2, W2)
            for a in ("full", "short", "taller", "one", "wider0"):
                for b in ("full", "fewer", "empty", "mixed", "fullred", "blankrows"):
                    k += 1
                    yield dict(H=H, W=W, hide=bool(k % 2), tag=f"{a}>resize>{b}",
                               steps=[["render", p[a], [0, 0], "list"], ["resize", H2, W2, (k if k % 5 else None), [k % H2, k % W2]],
                                      ["render", p2[b], [H2 - 1, 0], ("fsarray" if k % 3 == 0 else "list")]])


# ---------------------------------------------------------------------- random histories
def _rand_row(rng, W, prev, fit):
    k = rng.random()
    if prev is not None and k < .30:
        return prev                                     # unchanged row
    if prev is not None and k < .45 and rowlen(prev):
        text = prev if isinstance(prev, str) else "".join(t for t, _ in prev)
        return [[text, rng.randrange(len(ATTS))]]      # same text, other formatting
    if k > .93:
        t = rng.choice(SENTINELS)
        t = t[:W] if fit else t
        return t if rng.random() < .5 else [[t, 0]]
    n = rng.choice([W, W, W, 0, W + 1, W - 1] + list(range(W + 1)))
    n = max(0, min(n, W) if fit else n)
    text = "".join(rng.choice("abc ") for _ in range(n))
    if rng.random() < .25:
        return text
    cut = rng.randint(0, n)
    runs = [[text[:cut], rng.randrange(len(ATTS))], [text[cut:], rng.randrange(len(ATTS))]]
    return runs if rng.random() < .6 else [[text, rng.randrange(len(ATTS))]]


def rand_case(seed):
    rng = random.Random(seed)
    H, W = rng.randint(1, 4), rng.randint(1, 5)
    case = dict(H=H, W=W, hide=rng.random() < .5, steps=[])
    fit = rng.random() < .5                             # half of the histories only hold arrays that fit
    last_size = None
    prev = []
    n_steps = rng.randint(1, 4)
    while len(case["steps"]) < n_steps:
        last = len(case["steps"]) == n_steps - 1
        if not last and rng.random() < .25:
            cand = [s for s in SIZES if s != last_size and s != (H, W)]
            if (W, H) in cand and rng.random() < .3:
                cand = [(W, H)]
            H, W = rng.choice(cand)
            case["steps"].append(["resize", H, W, (None if rng.random() < .1 else rng.randrange(1 << 30)), [rng.randrange(H), rng.randrange(W)]])
            continue
        hi = H if fit else H + 1
        n = rng.choice([H, H, hi, hi, 0] + list(range(hi + 1)))
        rows = [_rand_row(rng, W, (prev[i] if i < len(prev) else None), fit) for i in range(n)]
        if fit:
            rows = [r for r in rows if rowlen(r) <= W]
        case["steps"].append(["render", rows, [rng.randrange(H), rng.randrange(W)], rng.choice(["fsarray"] * 3 + ["fsassign"] * 2 + ["list"] * 5)])
        prev, last_size = rows, (H, W)
    return case


def _judge(case, second):
    try:
        r = run_history(case, second)
    except Exception as e:      # a crash of the harness itself is never a violation
        import traceback
        r = dict(clause="", detail="", step=None, engine=f"harness crashed: {e!r} {traceback.format_exc()[-400:]}", disagree="", compared=0)
    return r


def _batch(job):
    kind, lo, hi, second = job
    if kind == "family":
        cases = FAMILY_CACHE()[lo:hi]
    else:
        cases = [rand_case(s) for s in range(lo, hi)]
    fails, engines, disagree, compared, nontrivial, kinds = [], [], [], 0, 0, {}
    for n_, c in enumerate(cases):
        if (lo + n_) % 3 == 1:
            c = dict(c, reuse=True)         # one buffer object edited in place between the renders
        r = _judge(c, second)
        compared += r["compared"]
        nontrivial += any(st[0] == "render" and st[1] for st in c["steps"])
        if r["engine"]:
            engines.append((c, r["engine"]))
        if r["disagree"]:
            disagree.append((c, r["disagree"]))
        if r["clause"]:
            taller, wider = flags(c, (r["step"] + 1) if r["step"] is not None and r["step"] >= 0 else None)
            k = (r["clause"], taller, wider)
            kinds[k] = kinds.get(k, 0) + 1
            if kinds[k] <= 12:          # every kind of failure is reported, however many of another kind there are
                fails.append((c, r, taller, wider))
    return len(cases), fails, kinds, engines[:5], disagree[:5], compared, nontrivial


_FAM = []


def FAMILY_CACHE():
    if not _FAM:
        _FAM.extend(family())
    return _FAM


def _collect(s, check, results, stats):
    for cnt, fails, kinds, engines, disagree, compared, nontrivial in results:
        s.evaluations += cnt
        stats["nontrivial"] += nontrivial
        stats["compared"] += compared
        for k, v in kinds.items():
            stats["kinds"][k] = stats["kinds"].get(k, 0) + v
            stats["fails"] += v
        for c, r, taller, wider in fails:
            case = {k: c[k] for k in ("H", "W", "hide", "steps")}
            inputs = dict(case, taller=taller, wider=wider, step=r["step"])
            s.fail(r["clause"], inputs, r["detail"], replay={"kind": "suite", "module": MOD, "case": case})
        for c, e in engines:
            check.engine_error(f"C02 harness: {e} | case {c}")
        for c, d in disagree:
            check.engine_error(f"C02: reference terminal and pyte disagree ({d}) | case {c}")


def contract_probe(n_family=700, n_random=250):
    """concrete histories for the deductive contract of render_to_terminal: when an obligation is refuted (the ghost-terminal proof has no
    model to replay) these histories on the reference terminal supply the failing input, if there is one"""
    fam = FAMILY_CACHE()
    step = max(1, len(fam) // n_family)
    out = []
    for c in fam[::step] + [rand_case(s) for s in range(n_random)]:
        r = _judge(c, False)
        if r["clause"]:
            out.append((r["clause"], dict(history=c), r["detail"], {"kind": "suite", "module": MOD, "case": c}))
            if len(out) >= 3:
                break
    return out


def deductive(check, tier):
    """tier 2 (DESIGN 9/C02): the real render_to_terminal re-establishes screen == array and the cache/screen invariant from
    ANY state satisfying the invariant -> every history of renders and resizes, by induction"""
    import contracts.fullscreen as FS
    from pyvc.verify import verify
    FS.fs_render.probe = contract_probe
    verify(FS.fs_render, tier, check)
    check.assume("deductive layer: blessed capabilities at row granularity (move addresses the cursor; a line's string written at column 0 "
                 "overwrites len(line) cells; clear_eol / clear_bol erase to the end / start of the row); BaseWindow.height/width (1-line "
                 "properties returning self.t.height/width) are modelled as fields; array rows are lines of single-column characters identified "
                 "with their terminal strings (FmtStr.__eq__, C19; str(), C01; slicing, C06; FSArray row slices, C04)")


def run(check, tier, seed):
    deductive(check, tier)
    thorough = tier == "thorough"
    if thorough:
        # the reference model itself against pyte on random escape streams (disagreement = harness problem, never a violation)
        jobs = [(2500, seed * 1009 + k) for k in range(14)]
        tot = 0
        for n, bad in pmap(_selftest, jobs):
            tot += n
            for b in bad[:3]:
                check.engine_error("reference terminal vs pyte on a random escape stream: " + b)
        check.note(f"reference terminal agreed with pyte on {tot} random escape streams")
    stats = dict(nontrivial=0, compared=0, fails=0, kinds={})
    fam = FAMILY_CACHE()
    s = Suite(check, "C02.family", f"enumerated: every terminal size 1..4 x 1..5; every ordered pair of 12 array shapes (empty, full-width rows, same text "
              "in another colour, same text split into two differently formatted runs, rows one short of the width, one row fewer, single cell, "
              "empty rows, mixed lengths, one row too many, first/last row one column too long) x hide_cursor on/off, as list and as FSArray; A>B>A "
              "and A>A>smaller triples over 6 shapes; the same small array before and after a resize to every other size that holds it; render, resize to every neighbouring size leaving junk (or the old cells) and a moved cursor, render; after "
              "every render: no scroll, screen == array cut to the terminal (cells with formatting, rest blank), cursor == cursor_pos",
              bound="terminal <= 4x5, <= 3 steps")
    step = max(50, len(fam) // 28 + 1)
    _collect(s, check, pmap(_batch, [("family", lo, min(lo + step, len(fam)), thorough) for lo in range(0, len(fam), step)]), stats)
    s.nontrivial = set(range(stats["nontrivial"]))
    s.samples = [{k: fam[i][k] for k in ("H", "W", "hide", "steps", "tag")} for i in (1, len(fam) // 2)]
    s.done()
    n = 100000 if thorough else 4000
    nt0 = stats["nontrivial"]
    s = Suite(check, "C02.histories", f"{n} random histories (seeds from VERIF_SEED) of 1..4 renders/resizes on terminals 1..4 x 1..5: arrays of 0..height+1 rows, "
              "row lengths 0..width+1 (full-width favoured), plain str / one-run / two-run FmtStr rows over 11 attribute sets, rows repeated "
              "unchanged or with the same text in other formatting, list or FSArray, any cursor cell, hide_cursor on/off; resizes to a size "
              "different from the last rendered one leaving random junk cells and a random cursor; half of the histories only hold arrays that "
              "fit; same oracle as C02.family" + ("; every stream also interpreted by pyte (second opinion)" if thorough else ""),
              bound="terminal <= 4x5, <= 4 steps, arrays <= (h+1) x (w+1)", exhaustive=False)
    base = seed * 1000003
    step = max(250, n // 56)
    _collect(s, check, pmap(_batch, [("random", base + lo, base + min(lo + step, n), thorough) for lo in range(0, n, step)]), stats)
    s.nontrivial = set(range(stats["nontrivial"] - nt0))
    s.samples = [rand_case(base), rand_case(base + 1)]
    s.done()
    kinds = ", ".join(f"{c}[taller={t},wider={w}]x{k}" for (c, t, w), k in sorted(stats["kinds"].items()))
    check.note(f"C02: {stats['fails']} failing histories ({kinds or 'none'})" + (f"; pyte compared after {stats['compared']} renders" if thorough else ""))


def _selftest(job):
    n, seed = job
    return selftest_against_pyte(n, seed)
