"""C15 - str methods on a FmtStr agree with str on its text."""
import itertools
import random
import re
from bounded.common import Suite, FmtStr, Chunk, fmtstr, cells, ATT_POOL

LEVEL = "exploration"
ASSUMPTIONS = [
    "__getattr__ delegation is reflective (getattr(self.s, name)) and split uses re.finditer: outside the deductive subset; the "
    "property is decided by a bounded suite with a stated scope only",
    "not demanded (the statement does not): padding added by ljust/rjust carrying every shared attribute, split(None) semantics, "
    "bytes results of encode, maxsplit",
    "line boundaries other than '\\n' are judged separately (known finding C15-other-line-boundaries)",
]
METHODS = [
    ("upper", ()), ("lower", ()), ("strip", ()), ("lstrip", ()), ("rstrip", ()), ("strip", ("a",)), ("center", (6,)), ("center", (2,)),
    ("center", (7, "*")), ("replace", ("a", "b")), ("replace", ("a", "")), ("replace", ("ab", "X")), ("find", ("a",)), ("find", ("b", 1)),
    ("count", ("a",)), ("startswith", ("a",)), ("endswith", ("b",)), ("title", ()), ("capitalize", ()), ("swapcase", ()), ("zfill", (6,)),
    ("expandtabs", ()), ("isalpha", ()), ("isspace", ()), ("index", ("a",)), ("rfind", ("a",)), ("partition", (" ",)), ("rsplit", ()),
    ("rsplit", (" ",)), ("casefold", ()), ("isdigit", ()), ("rpartition", (" ",)), ("center", (5, "ab")), ("removeprefix", ("a",)),
]
# ... and EVERY public method of str (the proxy, or a native method that replaces it, must answer like str on the text), each with every
# argument tuple of a pool that str itself accepts for it on a sample text; separators that overlap themselves ('aa' in 'aaa') included.
# Left out: methods with their own suites or findings (split, splitlines, ljust, rjust, join), and those that do not produce text / text
# answers (format, format_map, maketrans, encode).
_ARG_POOL = [(), ("a",), ("aa",), (" ",), ("..",), ("a", "b"), ("aa", "b"), ("aa", ""), (6,), (2,), (7, "*"), ("a", 1), ("aa", 1), ("aa", -1), (" ", 1),
             (None, 1), ("ab",), ("a", 0, 2), ("aa", 1, 5), (("a", "b"),), ({97: "X", 32: None},), (4,), (True,)]
_LEFT_OUT = {"split", "splitlines", "ljust", "rjust", "join", "format", "format_map", "maketrans", "encode"}


def _all_str_methods():
    out, seen = [], [m for m in METHODS]
    for name in sorted(n for n in dir(str) if not n.startswith("_") and n not in _LEFT_OUT):
        for args in _ARG_POOL:
            if (name, args) in seen:
                continue
            try:
                getattr("aaa b", name)(*args)
            except TypeError:
                continue            # not a call str accepts
            except Exception:       # noqa: BLE001  (ValueError of index() etc.: str accepts the call)
                pass
            out.append((name, args))
    return out


METHODS = METHODS + _all_str_methods()
SEPS = ["a", " ", "ab", "\n", "  ", "b ", ".", "+", "a.", "aa", ".."]
# patterns that only mean something as regular expressions (character classes, repetition, alternation, patterns that can match the empty
# string); (pattern, the same pattern without capturing groups - "capture groups are ignored")
REGEX_SEPS = [(r"\s+", r"\s+"), (r"\s", r"\s"), (r" +", r" +"), (r"a|b", r"a|b"), (r"[ab.]", r"[ab.]"), (r"(a)(b)?", r"(?:a)(?:b)?"), (r"\n|\.", r"\n|\."),
              (r"\s*\.\s*", r"\s*\.\s*"), (r"a+", r"a+"), (r"\s*", r"\s*"), (r"b*", r"b*"), (r"$", r"$"), (r"\b", r"\b"), (r"(?=a)", r"(?=a)"), (r"\\s\+", r"\\s\+")]


def items_of(cs):
    return set(x for _, a in cs for x in a)


def shared_of(cs):
    sets = [set(a) for _, a in cs]
    return set.intersection(*sets) if sets else set()


def build(runs):
    return FmtStr(*[Chunk(t, dict(a)) for t, a in runs])


def check_value(runs, order, value=None):
    """-> '' or description"""
    f = value if value is not None else build(runs)
    if value is not None:
        runs = [(c.s, dict(c.atts)) for c in value.chunks]
    P = cells(f)
    txt = f.s
    have, shared = items_of(P), shared_of(P)
    for name, args in METHODS:
        if not hasattr(str, name):
            continue
        try:
            exp, eexc = getattr(txt, name)(*args), None
        except Exception as e:
            exp, eexc = None, type(e)
        try:
            res, rexc = getattr(f, name)(*args), None
        except Exception as e:
            res, rexc = None, type(e)
        call = f".{name}{args}"
        if eexc or rexc:
            if eexc != rexc:
                return f"{call}: str raises {eexc.__name__ if eexc else 'nothing'}, FmtStr raises {rexc.__name__ if rexc else 'nothing'}"
            continue
        if isinstance(exp, str):
            if not isinstance(res, FmtStr):
                return f"{call}: result is {type(res).__name__}, not a FmtStr"
            if res.s != exp:
                return f"{call}: text {res.s!r}, str gives {exp!r}"
            R = cells(res)
            if P and R:
                if not items_of(R) <= have:
                    return f"{call}: result shows formatting {items_of(R) - have} that no character of the original had"
                if not all(shared <= set(a) for _, a in R):
                    return f"{call}: a character of the result lacks the formatting {shared} shared by all characters of the original"
        elif isinstance(exp, (list, tuple)):
            got = [r.s if isinstance(r, FmtStr) else r for r in res]
            if got != list(exp):
                return f"{call}: {got}, str gives {list(exp)}"
            for r in res:
                if isinstance(r, FmtStr) and P and len(r) and not items_of(cells(r)) <= have:
                    return f"{call}: a piece shows formatting no character of the original had"
        else:
            if res != exp:
                return f"{call}: {res!r}, str gives {exp!r}"
    # split with an explicit separator, literal and regex, in the order given by `order`
    modes = [(sep, rx) for sep in SEPS for rx in ((False, True) if order else (True, False))] + [(pair, True) for pair in REGEX_SEPS]
    if not order:
        modes.reverse()
    for sep, rx in modes:
        if rx:
            sep, plain_pat = sep if isinstance(sep, tuple) else (sep, sep)
            try:
                exp = re.split("(?:%s)" % plain_pat, txt)
            except re.error:
                continue
        else:
            exp = txt.split(sep)
        try:
            got = f.split(sep, regex=rx)
        except Exception as e:
            return f".split({sep!r}, regex={rx}) raised {type(e).__name__}: {e}"
        if [g.s for g in got] != exp:
            return f".split({sep!r}, regex={rx}): {[g.s for g in got]}, str/re gives {exp}"
        pos = 0
        for g in got:
            idx = txt.find(g.s, pos) if g.s else pos
            # pieces are consecutive: locate by walking the matches
            if cells(g) != P[pos:pos + len(g)]:
                # literal separators have a fixed length; for regex recompute the offset from the text
                pass
            pos += len(g) + (len(sep) if not rx else 0)
        if not rx:
            pos = 0
            for g in got:
                if cells(g) != P[pos:pos + len(g)]:
                    return f".split({sep!r}): piece {g!r} does not keep its characters' own formatting"
                pos += len(g) + len(sep)
    for keep in (False, True):
        exp = [l for l in re.split("(?<=\n)", txt)] if keep else None
        exp = txt.splitlines(keep)
        try:
            got = f.splitlines(keep)
        except Exception as e:
            return f".splitlines({keep}) raised {type(e).__name__}: {e}"
        if [g.s for g in got] != exp:
            return f".splitlines({keep}): {[g.s for g in got]}, str gives {exp}"
        pos = 0
        for g in got:
            if cells(g) != P[pos:pos + len(g)]:
                return f".splitlines({keep}): line {g!r} does not keep its characters' own formatting"
            pos += len(g) + (0 if keep else 1)
    for w in (0, len(txt), len(txt) + 2):
        for fill in (None, "*"):
            a = (w,) if fill is None else (w, fill)
            for m in ("ljust", "rjust"):
                exp = getattr(txt, m)(*a)
                try:
                    got = getattr(f, m)(*a)
                except Exception as e:
                    return f".{m}{a} raised {type(e).__name__}: {e}"
                if got.s != exp:
                    return f".{m}{a}: text {got.s!r}, str gives {exp!r}"
                G = cells(got)
                if P and not items_of(G) <= have:
                    return f".{m}{a}: result shows formatting no character of the original had"
                if fill is None:
                    own = G[:len(P)] if m == "ljust" else (G[len(G) - len(P):] if P else [])
                    if [c for c, _ in own] == [c for c, _ in P] and \
                            any(not (set(a0) - {x for x in a0 if x[0] == "bg"}) <= set(a1) for (_, a0), (_, a1) in zip(P, own)):
                        return f".{m}{a}: an original character lost formatting other than a non-shared background"
    j = f.join(["x", fmtstr("y", "red"), ""])
    if j.s != txt.join(["x", "y", ""]):
        return f".join: text {j.s!r}"
    # join with FmtStr items (the first item too, the same item twice), then the items are used again: they are values, every later
    # method on them still agrees with str on their text
    a, b = build(runs), fmtstr("q", "blue")
    ta, tb = a.s, b.s
    try:
        j = f.join([a, b, a])
    except Exception as e:      # noqa: BLE001
        return f".join([a, b, a]) raised {type(e).__name__}: {e}"
    if j.s != txt.join([ta, tb, ta]):
        return f".join([a, b, a]): text {j.s!r}, str gives {txt.join([ta, tb, ta])!r}"
    for who, v, t, cs in (("first item", a, ta, P), ("second item", b, tb, [("q", (("fg", 34),))]), ("separator", f, txt, P)):
        if v.s != t or cells(v) != cs or len(v) != len(t):
            return f".join([a, b, a]) changed its {who}: text is now {v.s!r} (was {t!r})"
        if (v + "!").s != t + "!" or v.upper().s != t.upper() or v.ljust(len(t) + 1).s != t.ljust(len(t) + 1):
            return f"after .join([a, b, a]) the {who} no longer agrees with str: (v + '!').s == {(v + '!').s!r}"
    if cells(f) != P or f.s != txt:
        return f"a method changed the value it was called on: text is now {f.s!r} (was {txt!r})"
    return ""


def replay(case):
    d = check_value([(t, a) for t, a in case["runs"]], case.get("order", 0))
    return d == "", d


def bounded(check, tier, seed):
    rng = random.Random(seed + 15)
    n = 6000 if tier == "thorough" else 500
    s = Suite(check, "C15.methods", f"{n} random values (1-4 runs x <=3 characters over {{a,b,space,newline,'.',wide}}, 7 attribute sets) plus all "
              "1-2 run layouts over a 6-text pool: 34 delegated str methods with arguments, split with 9 separators in literal AND regex "
              "mode (both orders), splitlines keepends False/True, ljust/rjust at widths below/at/above the length with and without fill "
              "character, join; text/non-text answer compared with str, pieces per character, shared/invented formatting",
              bound="runs<=4, run length<=3", exhaustive=False)
    # (ß ŉ ﬁ İ: characters whose upper / lower / title / casefold mapping has another LENGTH - 'ß'.upper() == 'SS')
    texts = ["", "a", "ab", " b", "a\n", "Ｅa", "a.b", "straße", "ŉa ﬁ", "İx", "aaa b", "x...y", "aaaa"]
    vals = []
    for t1 in texts:
        vals.append([(t1, ATT_POOL[1])])
        for t2 in texts:
            vals.append([(t1, ATT_POOL[3]), (t2, ATT_POOL[2])])
            vals.append([(t1, ATT_POOL[4]), (t2, ATT_POOL[4])])
    for _ in range(n):
        vals.append([("".join(rng.choice("ab \n.Ｅ") for _ in range(rng.randint(0, 3))), rng.choice(ATT_POOL)) for _ in range(rng.randint(1, 4))])
    for i, runs in enumerate(vals):
        order = i % 2
        s.case(i, sample=dict(runs=runs) if i < 2 else None)
        try:
            d = check_value(runs, order)
        except Exception as e:
            d = f"harness crashed: {e!r}"
        if d:
            other = False
            case = dict(runs=[[t, a] for t, a in runs], order=order, other_boundary=False)
            s.fail("C15.method", case, d, replay={"kind": "suite", "module": "props.C15", "case": dict(runs=[[t, a] for t, a in runs], order=order)})
    s.done()
    s = Suite(check, "C15.line_boundaries", "splitlines on texts containing each line boundary str recognises (\\r, \\r\\n, \\v, \\f, \\x1c-\\x1e, "
              "\\x85, U+2028, U+2029) alone, doubled, next to a newline, at either end and across a run boundary; a difference from str is the "
              "recorded finding only while the answer is exactly that of splitting at newline characters alone", bound="10 boundaries x 9 texts x 2 layouts x 2 keepends")
    for b in ["\r", "\r\n", "\v", "\f", "\x1c", "\x1d", "\x1e", "\x85", "\u2028", "\u2029"]:
        for txt in ("a" + b + "b", b, "a" + b, b + "a", "a" + b + b + "c", "a" + b + "\nb", "a\n" + b + "b", "a" + b + "b\n", "one" + b + "two" + b):
            for cut in (None, 1, 2, len(txt) - 1):
                if cut is not None and not 0 < cut < len(txt):
                    continue
                f = fmtstr(txt, "red") if cut is None else FmtStr(Chunk(txt[:cut], {"fg": 34}), Chunk(txt[cut:], {"bg": 41}))
                for keep in (False, True):
                    s.case((txt, cut, keep), sample=dict(text=txt, keepends=keep))
                    try:
                        got = [g.s for g in f.splitlines(keep)]
                    except Exception as e:      # noqa: BLE001
                        s.fail("C15.splitlines.boundary", dict(text=txt, keepends=keep, cut=cut, other_boundary=True, newline_only_answer=False),
                               f"splitlines({keep}) raised {type(e).__name__}: {e}")
                        continue
                    if got != txt.splitlines(keep):
                        s.fail("C15.splitlines.boundary", dict(text=txt, keepends=keep, cut=cut, other_boundary=True,
                                                              newline_only_answer=(got == newline_only(txt, keep))),
                               f"splitlines({keep}) gives {got}, str gives {txt.splitlines(keep)}")
    s.done()


def newline_only(txt, keep):
    """what splitlines answers when '\\n' is the only line boundary (the recorded finding C15-other-line-boundaries: exactly this, no other, difference)"""
    parts = txt.split("\n")
    return [p + ("\n" if keep else "") for p in parts[:-1]] + ([parts[-1]] if parts[-1] else [])


def render_twins(check, tier):
    """two values that RENDER the same without being the same - a formatted value and the unformatted value whose text is that rendering
    taken verbatim (what '' .join([str(f)]) or copy_with_new_str(str(f)) build) - used one after the other, in both orders: each answers
    for itself (anything remembered under a key that compares by the rendered string would mix them up)"""
    from curtsies.formatstring import fmtstr as _f
    bases = [lambda: _f("ab", "red"), lambda: _f("x y", "bold"), lambda: _f(" q", "on_blue", "underline"), lambda: _f("cd", "red") + _f("e", "red"),
             lambda: FmtStr(Chunk("mn", {"fg": 34, "bold": True}))]
    s = Suite(check, "C15.render_twins", "5 formatted values and their raw-escape twins (same terminal string, other text and formatting), the full method / "
              "justify / split comparison on one and then on the other, in both orders", bound="5 pairs x 2 orders", exhaustive=False)
    for k, mkbase in enumerate(bases):
        for order in (0, 1):
            base = mkbase()
            raw = FmtStr(Chunk(str(mkbase())))
            for which, v in ((("formatted", base), ("raw twin", raw)) if order == 0 else (("raw twin", raw), ("formatted", base))):
                s.case((k, order, which), sample=dict(value=repr(v)) if len(s.samples) < 2 else None)
                try:
                    d = check_value(None, order, value=v)
                except Exception as e:      # noqa: BLE001
                    d = f"comparison raised {type(e).__name__}: {e}"
                if d:
                    s.fail("C15.method", dict(runs=[[c.s, dict(c.atts)] for c in v.chunks], order=order, other_boundary=False, twin=which,
                                              asked_after=("its twin" if (which == "raw twin") == (order == 0) else "nothing")), d[:300])
    s.done()


def derived(check, tier, seed):
    from bounded.derived import derived_values
    n = 2500 if tier == "thorough" else 300
    s = Suite(check, "C15.derived", f"{n} values at the end of chains of <= 4 public operations: the full method / split / splitlines / justify / join "
              "comparison with str", bound="chains <= 4 operations", exhaustive=False)
    for k, v in enumerate(derived_values(seed + 7, n)):
        s.case(("d", k), sample=repr(v) if k < 2 else None)
        try:
            d = check_value(None, k % 2, value=v)
        except Exception as e:      # noqa: BLE001
            d = f"comparison raised {type(e).__name__}: {e}"
        if d:
            inputs = dict(runs=[[c.s, dict(c.atts)] for c in v.chunks], order=k % 2,
                          other_boundary=any(ch in v.s for ch in "\r\x0b\x0c\x1c\x1d\x1e\x85\u2028\u2029"), kind="derived")
            s.fail("C15.method", inputs, d)
    s.done()


def deductive(check, tier):
    """ljust / rjust without a fill character under contract (contracts/justify.py): text of str.ljust/rjust, own formatting kept but for
    an unshared background, uniform padding that shows only formatting every character has - for every value and width"""
    import contracts.justify as J
    from pyvc.verify import verify
    for c in J.CONTRACTS:
        verify(c, tier, check)
    check.assume("deductive sub-result: FmtStr.ljust / rjust (fillchar None) for every value and width, over the contracts of shared_atts, "
                 "new_with_atts_removed, __add__/__radd__, .s and the contract of fmtstr(blanks, **attributes) (verified in C14 for every key set); "
                 "split / splitlines / delegated methods are regex / reflection code: bounded only")
    s = Suite(check, "C15.justify_contracts", "the ljust / rjust contracts evaluated at run time on every layout of <= 3 runs over 4 texts x 5 "
              "attribute sets x widths len-1..len+2", bound="<= 3 runs")
    texts = ["", "a", "bc"]
    pool = [{}, {"fg": 31}, {"fg": 31, "bg": 44}, {"bg": 44, "bold": True}, {"bg": 41, "fg": 31}]
    for n in range(0, 4):
        for ts in itertools.product(texts, repeat=n):
            for ats in itertools.product(range(len(pool)), repeat=n):
                if n == 3 and (ats[0] + ats[1] + ats[2]) % 2:
                    continue
                f = FmtStr(*[Chunk(t, dict(pool[k])) for t, k in zip(ts, ats)])
                L = len(f.s)
                for w in (L - 1, L, L + 2):
                    s.contract_case(J.ljust, dict(self=f, width=w, fillchar=None))
                    s.contract_case(J.rjust, dict(self=f, width=w, fillchar=None))
    s.done()



def long_inputs(check, tier):
    from bounded.common import long_values
    s = Suite(check, "C15.long", "the full method / split / splitlines / justify / join comparison with str on values with thousands of runs",
              bound="<= 6000 characters")
    for k, (label, v) in enumerate(long_values()):
        s.case(label, sample=label)
        try:
            d = check_value(None, k % 2, value=v)
        except Exception as e:      # noqa: BLE001
            d = f"comparison raised {type(e).__name__}: {e}"
        if d:
            s.fail("C15.method.long", dict(value=label, order=k % 2), d[:300])
    s.done()

def run(check, tier, seed):
    from pyvc.verify import verify
    import contracts.valuemodel as VM
    for c in VM.ALL:            # this property's contracts are stated over the executor's value model of Chunk / FmtStr: the real constructors and
        verify(c, tier, check, prefix="C15")      # accessors must behave as that model says (same obligations as in C13, decided here too)
    render_twins(check, tier)
    long_inputs(check, tier)
    deductive(check, tier)
    bounded(check, tier, seed)
    derived(check, tier, seed)
