"""C19 - equality, hashing and repr of FmtStr are coherent with what it displays."""
import itertools
import random
import contracts.formatstring as F
from pyvc.verify import verify
from bounded.common import Suite, FmtStr, Chunk, fmtstr, cells, ATT_POOL

LEVEL = "exploration"
CONTRACTS = [F.fmt_eq, F.fmt_hash, F.chunk_eq, F.chunk_hash]
ASSUMPTIONS = [
    "the terminal string determines the display (C01); FmtStr.__str__ used through its contract (body verified in C13)",
    "reflected comparison `str == FmtStr` relies on Python's data-model rule for NotImplemented (confirmed in the bounded suite)",
    "hash() of equal builtin strs is equal within a process",
    "repr is string building over reflection (fmtfuncs namespace): decided by the bounded suite only",
]


def pool(rng, n):
    texts = ["", "a", "ab", "b", "a'b", "\\", "\n", "a\"", "Ｅ"]
    out = []
    for _ in range(n):
        runs = []
        for _ in range(rng.randint(0, 3)):
            runs.append(Chunk(rng.choice(texts), dict(rng.choice(ATT_POOL))))
        out.append(FmtStr(*runs))
    # same display, different run boundaries / same text, different formatting / formatted empty runs
    out += [FmtStr(Chunk("ab")), FmtStr(Chunk("a"), Chunk("b")), FmtStr(Chunk("a"), Chunk(""), Chunk("b")), FmtStr(Chunk("ab", {"fg": 31})),
            FmtStr(Chunk("a", {"fg": 31}), Chunk("b", {"fg": 31})), FmtStr(Chunk("ab", {"bold": False})), FmtStr(Chunk("", {"bg": 44}), Chunk("x")),
            FmtStr(Chunk("x")), FmtStr(), FmtStr(Chunk("")), FmtStr(Chunk("", {"fg": 34}))]
    # values derived through the public API from values that were already rendered / compared (caches filled)
    from bounded.common import fill_caches
    derived = []
    for f in out[:60] + out[-11:]:
        fill_caches(f)
        for mk in (lambda f: f.copy_with_new_atts(bold=True), lambda f: fmtstr(f, "blue"), lambda f: f.new_with_atts_removed("fg"),
                   lambda f: f + "x", lambda f: f[0:1], lambda f: f.copy(), lambda f: fmtstr(f, underline=False),
                   # every public operation that builds a value FROM a rendered one (a result must not inherit what its operand displayed)
                   lambda f: f.append("c"), lambda f: f.append(FmtStr(Chunk("", {"fg": 31}), Chunk("y", {"fg": 34}))), lambda f: f.append(FmtStr(Chunk("", {"bg": 41}))),
                   lambda f: f.splice("q", 0), lambda f: f.splice("", 0, 1), lambda f: f.join([f, "z"]), lambda f: f * 2, lambda f: "x" + f,
                   lambda f: f.ljust(len(f) + 1), lambda f: f.copy_with_new_str("nn"), lambda f: f.setslice_with_length(0, 1, "k", len(f) + 1)):
            try:
                derived.append(mk(f))
            except Exception:
                pass
    return out + derived


def fresh_copy_of(x):
    return FmtStr(*[Chunk(c.s, dict(c.atts)) for c in x.chunks])


def bounded(check, tier, seed):
    from curtsies import fmtfuncs
    rng = random.Random(seed + 11)
    n = 1200 if tier == "thorough" else 260
    P = pool(rng, n)
    from bounded.derived import derived_values
    P = P + derived_values(seed + 4, n // 4)        # values at the end of chains of operations, partly rendered on the way
    # every colour code of both planes, alone and together with a style (repr goes through the number -> name tables)
    for k in range(8):
        P += [FmtStr(Chunk("c", {"fg": 30 + k})), FmtStr(Chunk("c", {"bg": 40 + k})), FmtStr(Chunk("cd", {"fg": 30 + k, "bg": 47 - k, "bold": True}))]
    n_repr = len(P)
    # the same terminal string from texts of DIFFERENT LENGTHS: a run whose text holds escape sequences verbatim (what str + FmtStr,
    # copy_with_new_str(str(g)) and FmtStr(Chunk(str(g))) build) next to the value that displays the same through formatting
    raw = []
    for g in [P[k] for k in range(0, min(len(P), 120), 3)] + P[n - 0:n + 11]:
        t = str(fresh_copy_of(g))
        if "\x1b" in t:
            raw += [FmtStr(Chunk(t)), "" + FmtStr(Chunk(t[:3])) + t[3:], fmtstr("q").copy_with_new_str(t)]
    P = P + raw
    # attribute values that compare equal as Python objects but render differently (0 == False, 31 == 31.0): what
    # fmtstr('a', bold=flags & 1) or a computed colour builds (style values are not type-checked: C14's listed finding)
    for t in ("a", "ab"):
        P += [FmtStr(Chunk(t, {"bold": 0})), FmtStr(Chunk(t, {"bold": False})), FmtStr(Chunk(t, {"bold": 1})), FmtStr(Chunk(t, {"bold": True})),
              FmtStr(Chunk(t, {"fg": 31})), FmtStr(Chunk(t, {"fg": 31.0})), FmtStr(Chunk(t, {"underline": 0, "fg": 32}))]
    s = Suite(check, "C19.pairs", f"all ordered pairs of a {len(P)}-value pool (random runs over 9 texts x 7 attribute sets, plus same-display/"
              "different-boundary, same-text/different-formatting and empty-run values): ==, !=, hash, set/dict membership against "
              "'same terminal string'; each value against its own terminal string and text as plain str, both operand orders",
              bound=f"pool {len(P)}, runs<=3", exhaustive=False)
    def fresh_copy(x):
        return FmtStr(*[Chunk(c.s, dict(c.atts)) for c in x.chunks])
    strs = [str(fresh_copy(f)) for f in P]
    # == is asked BEFORE either side was rendered for pairs with (i + j) % 3 == 0 (an answer must not depend on what was displayed),
    # after rendering for the others
    for i, f in enumerate(P):
        for j, g in enumerate(P):
            if (i + j) % 3 == 0:
                e = strs[i] == strs[j]
                a, b = fresh_copy(f), fresh_copy(g)
                s.evaluations += 1
                if (a == b) != e or (a != b) == e:
                    s.fail("C19.eq", dict(f=repr(f), g=repr(g), f_runs=str(f.chunks), g_runs=str(g.chunks), rendered=False),
                           f"f == g is {a == b} for values never rendered, same terminal string is {e}")
                if (a == b) != (fresh_copy(f) == fresh_copy(g)) or (str(a), str(b), a == b)[2] != e:
                    s.fail("C19.eq", dict(f=repr(f), g=repr(g), rendered="both ways"), "the answer of == changed after the values were rendered")
    hashes = [hash(f) for f in P]
    for i, f in enumerate(P):
        for j, g in enumerate(P):
            e = strs[i] == strs[j]
            s.evaluations += 1
            if (f == g) != e or (f != g) == e:
                s.fail("C19.eq", dict(f=repr(f), g=repr(g), f_runs=str(f.chunks), g_runs=str(g.chunks)), f"f == g is {f == g}, same terminal string is {e}")
            if e and hashes[i] != hashes[j]:
                s.fail("C19.hash", dict(f=repr(f), g=repr(g)), "equal values hash differently")
        for t in (f.s, strs[i], "a", ""):
            e = strs[i] == t
            s.evaluations += 1
            if (f == t) != e or (t == f) != e or (f != t) == e or (t != f) == e:
                s.fail("C19.eq_str", dict(f=repr(f), f_runs=str(f.chunks), s=t), f"f == s: {f == t}, s == f: {t == f}, terminal string equals s: {e}")
            if e and (hash(f) != hash(t) or {f: 1}.get(t) != 1 or len({f, t}) != 1):
                s.fail("C19.hash_str", dict(f=repr(f), s=t), "a FmtStr and its terminal string do not work as the same dict/set key")
    s.nontrivial = set(range(s.evaluations))
    s.samples = [dict(f=repr(P[0]), g=repr(P[1]))]
    s.done()
    ns = {k: getattr(fmtfuncs, k) for k in dir(fmtfuncs) if not k.startswith("_")}
    s = Suite(check, "C19.repr", "eval(repr(f)) in the fmtfuncs namespace compared per character, for every pool value with at least one run",
              bound=f"pool {len(P)}", exhaustive=False)
    esc_runs = [FmtStr(Chunk("\x1b[1mx", {"fg": 31})), FmtStr(Chunk("a\x1b[", {"bold": True})), FmtStr(Chunk("p", {}), Chunk("\x1b[44mq", {"underline": True})),
                FmtStr(Chunk("\x1b[1mx")), fmtstr("a", "red") + "\x1b[44mq"]      # (the last two: escape text in UNformatted runs)
    # a style switched on with a truthy value that is not the object True (bold=1, underline=2: what `flags & 1` or a count gives; accepted
    # by fmtstr - C14's listed finding): it displays as on and repr spells it as on
    for val in (1,):
        esc_runs += [FmtStr(Chunk("x", {"fg": 31, "bold": val}), Chunk(" tail", {})), FmtStr(Chunk("u", {"underline": val})), fmtstr("k", "blue", invert=val)]
    # text that holds an ESC / 0x9b WITHOUT the 'ESC[' introducer (two-character escapes, a lone ESC, the 8-bit CSI), formatted and not:
    # the helpers take such text verbatim, so these round-trip
    # one text per character class (zero-width characters OUTSIDE the BMP included: a \\uXXXX spelling cannot hold them), quotes, backslashes
    from bounded.common import CHAR_CLASSES, ODD_CODEPOINTS
    for ch in CHAR_CLASSES + ODD_CODEPOINTS + ["\U000e0100", "\U0001d167", "\U00011046", "\U000e0001", "'", '"', "\\", "\\u0041", "\N{BELL}"]:
        esc_runs += [FmtStr(Chunk("a" + ch + "!", {"fg": 31})), FmtStr(Chunk(ch)), FmtStr(Chunk("p" + ch, {"bold": True}), Chunk(ch + "q", {"bg": 44}))]
    for t in ("\x1bM", "key \x1bOP", "\x1b", "a\x1b", "\x1b7x", "\x9b", "\x9b1m", "\x1b\x1b", "\x1bc", "\x1b]0;t\x07"):
        esc_runs += [FmtStr(Chunk(t, {"fg": 31})), FmtStr(Chunk(t)), FmtStr(Chunk("p", {"bold": True}), Chunk(t, {"bg": 44, "underline": True}))]
    for f in P[:n_repr] + esc_runs:
        if not f.chunks:
            continue
        s.case(repr(f), sample=repr(f))
        try:
            r = eval(repr(f), dict(ns))
            if isinstance(r, str):
                r = FmtStr(Chunk(r))        # a plain string literal: its characters, unformatted (NOT fmtstr(r), which would parse it)
            esc_fmt = any("\x1b[" in c.s and dict(c.atts) for c in f.chunks)
            if cells(r) != cells(f):
                s.fail("C19.repr", dict(runs=str(f.chunks), repr=repr(f), escape_in_formatted_run=esc_fmt), f"evaluates to {r.chunks}")
            elif str(r) != str(f) and all(len(c.s) for c in f.chunks):
                s.fail("C19.repr", dict(runs=str(f.chunks), repr=repr(f), escape_in_formatted_run=esc_fmt), f"evaluates to a different terminal string {str(r)!r}")
        except Exception as e:
            s.fail("C19.repr", dict(runs=str(f.chunks), repr=repr(f), escape_in_formatted_run=False), f"does not evaluate: {type(e).__name__}: {e}")
    s.done()



def long_inputs(check, tier):
    from bounded.common import long_values
    s = Suite(check, "C19.long", "== / != / hash / dict membership of values with thousands of runs against their terminal strings", bound="<= 6000 characters")
    vals = long_values()
    for label, v in vals:
        w = fresh_copy_of(v)
        t = str(fresh_copy_of(v))
        s.case(label, sample=label)
        try:
            if not (v == w) or v != w or hash(v) != hash(w) or {v: 1}.get(w) != 1:
                s.fail("C19.eq.long", dict(value=label), "a value and a structurally equal copy are not equal / do not hash alike")
            if not (v == t and t == v) or hash(v) != hash(t):
                s.fail("C19.eq_str.long", dict(value=label), "a value does not equal / hash like its own terminal string")
            if v == w + "x" or (v[:-1] == v):
                s.fail("C19.eq.long", dict(value=label), "values with different terminal strings compare equal")
        except Exception as e:      # noqa: BLE001
            s.fail("C19.eq.long", dict(value=label), f"raised {type(e).__name__}: {e}")
    for (la, a), (lb, b) in itertools.combinations(vals, 2):
        s.case((la, lb))
        if (a == b) != (str(fresh_copy_of(a)) == str(fresh_copy_of(b))):
            s.fail("C19.eq.long", dict(f=la, g=lb), "== disagrees with the terminal strings")
    s.done()

def repr_all_dicts(check, tier):
    """repr over the COMPLETE space of attribute dicts (every style absent / False / True, every colour of both planes or none): the
    expression evaluates in the fmtfuncs namespace to one run with the same text and the same displayed formatting"""
    import contracts.render as R
    from curtsies import fmtfuncs
    ns = {k: getattr(fmtfuncs, k) for k in dir(fmtfuncs) if not k.startswith("_")}
    full = tier == "thorough"
    s = Suite(check, "C19.repr_all_dicts", f"eval(repr(FmtStr(Chunk(text, d)))) for every attribute dict d of the split ({59049 if full else 6561}) and the "
              "texts 'tx' / \"q'\\\\n\": same characters, same displayed formatting (an attribute that is False displays like an absent one)",
              bound="one run per dict")
    shown = lambda at: tuple(sorted((k, v) for k, v in at if v))
    for i, d in enumerate(R.all_dicts(full)):
        t = "tx" if i % 3 else "q'\\\n"
        f = FmtStr(Chunk(t, dict(d)))
        s.case(i, sample=dict(text=t, atts=d) if i < 2 else None)
        try:
            r = eval(repr(f), dict(ns))
            r = FmtStr(Chunk(r)) if isinstance(r, str) else r
            got = [(c, shown(a)) for c, a in cells(r)]
            want = [(c, shown(a)) for c, a in cells(f)]
            if got != want:
                s.fail("C19.repr", dict(runs=str(f.chunks), repr=repr(f), escape_in_formatted_run=False), f"evaluates to {r.chunks}")
        except Exception as e:      # noqa: BLE001
            s.fail("C19.repr", dict(runs=str(f.chunks), repr=repr(f), escape_in_formatted_run=False), f"does not evaluate: {type(e).__name__}: {e}")
    s.done()


def repr_of_library_vocabulary(check, tier):
    """values built through the public constructors from the library's OWN vocabulary, read from the live tables: every style / colour name
    the library knows (positional and keyword), every SGR parameter 0..110 parsed from text - whatever formatting the library is able to
    put on a character, repr must be able to spell in the fmtfuncs namespace"""
    from curtsies import fmtfuncs, termformatconstants as TC
    import curtsies.formatstring as FS
    ns = {k: getattr(fmtfuncs, k) for k in dir(fmtfuncs) if not k.startswith("_")}
    shown = lambda at: tuple(sorted((k, v) for k, v in at if v))
    s = Suite(check, "C19.repr_vocabulary", "eval(repr(f)) for f = fmtstr('x', name) for every name in the live STYLES / FG_COLORS / BG_COLORS tables and "
              "every key of the rendering tables, fmtstr('x', **{style: True}), and fmtstr('a ESC[<n>m b ESC[0m c') for n = 0..110: same "
              "characters, same displayed formatting", bound="names of the live tables + 111 SGR parameters")
    vals = []
    names = list(TC.STYLES) + list(TC.FG_COLORS) + ["on_" + c for c in TC.BG_COLORS] + list(FS.one_arg_xforms)
    for nm in dict.fromkeys(names):
        vals.append((f"fmtstr('x', {nm!r})", lambda nm=nm: FS.fmtstr("x", nm)))
        if nm in TC.STYLES or nm in FS.one_arg_xforms:
            vals.append((f"fmtstr('x', {nm}=True)", lambda nm=nm: FS.fmtstr("x", **{nm: True})))
            vals.append((f"FmtStr(Chunk('x', {{{nm!r}: True}}))", lambda nm=nm: FmtStr(Chunk("x", {nm: True}))))
    for n in range(0, 111):
        vals.append((f"fmtstr('a\\x1b[{n}mb\\x1b[0mc')", lambda n=n: FS.fmtstr("a\x1b[%dmb\x1b[0mc" % n)))
    for label, mkv in vals:
        s.case(label, sample=label)
        try:
            f = mkv()
        except Exception:      # noqa: BLE001  (a name the constructor does not accept: nothing to spell)
            continue
        try:
            r = eval(repr(f), dict(ns))
            r = FmtStr(Chunk(r)) if isinstance(r, str) else r
            if [(c, shown(a)) for c, a in cells(r)] != [(c, shown(a)) for c, a in cells(f)]:
                s.fail("C19.repr", dict(value=label, runs=str(f.chunks), repr=repr(f), escape_in_formatted_run=False), f"evaluates to {r.chunks}")
        except Exception as e:      # noqa: BLE001
            s.fail("C19.repr", dict(value=label, runs=str(f.chunks), repr=repr(f), escape_in_formatted_run=False), f"does not evaluate: {type(e).__name__}: {e}")
    s.done()


def run(check, tier, seed):
    from pyvc.verify import verify
    import contracts.valuemodel as VM
    for c in VM.ALL:            # this property's contracts are stated over the executor's value model of Chunk / FmtStr: the real constructors and
        verify(c, tier, check, prefix="C19")      # accessors must behave as that model says (same obligations as in C13, decided here too)
    repr_all_dicts(check, tier)
    repr_of_library_vocabulary(check, tier)
    long_inputs(check, tier)
    for c in CONTRACTS:
        verify(c, tier, check)
    bounded(check, tier, seed)
