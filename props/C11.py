"""C11 - width_aware_splitlines wraps to the column limit without losing anything."""
import itertools
from bounded.common import Suite, FmtStr, Chunk, fmtstr, cells
from cwcwidth import wcwidth, wcswidth

LEVEL = "proof"
ASSUMPTIONS = [
    "ChunkSplitter.request is proved against its contract (next unread characters plus at most one pad, width <= max_width, greedy, "
    "offset/width bookkeeping, non-empty chunk, reported width = width of the chunk) for all runs and widths; the generator "
    "_width_aware_splitlines that drives it across runs and lines is proved over that contract (nested loop invariants, yields as a ghost "
    "output sequence, a ghost trace of what was taken from the source and what was emitted): every character is taken exactly once in order "
    "with its formatting, the lines hold exactly what was emitted, a pad is always the last thing on its line, no line is empty or wider "
    "than `columns`, every line but the last is exactly `columns` wide; ChunkSplitter.reinit and the public wrapper (ValueError iff "
    "columns < 2 or unmeasurable text) are verified too",
    "generator semantics: the body runs to completion and the yielded values are observed as a sequence (the values are immutable FmtStr; "
    "interleaved consumption of several iterators is covered by the bounded suite)",
    "cwcwidth.wcswidth is additive over concatenation and single characters have width 0, 1 or 2",
    "cwcwidth.wcwidth of the three alphabet characters is 1, 2, 0 (probed on every run)",
    "zero-width characters: compared up to placement (they must not be lost, invented or re-formatted)",
]
N, W, Z = "a", "Ｅ", "́"
A1, A2, A3 = {"fg": 31}, {"fg": 32, "bold": True}, {"bg": 44}


def width(cs):
    return sum(wcwidth(c) for c, _ in cs)


def layouts(s):
    n = len(s)
    for i in range(n + 1):
        for j in range(i, n + 1):
            yield ("3", s, i, j)
    yield ("1", s, 0, 0)
    if s:
        yield ("rep", s, 0, 0)      # the same run twice (equal text and attributes)
        yield ("rep3", s, 0, 0)
        yield ("same2", s, 0, 0)    # the very same Chunk OBJECT in consecutive positions (what f * n and f + f build)
        yield ("mul3", s, 0, 0)
    else:
        yield ("none", s, 0, 0)


def build(lay):
    kind, s, i, j = lay
    if kind == "3":
        return FmtStr(Chunk(s[:i], A1), Chunk(s[i:j], A2), Chunk(s[j:], A3))
    if kind == "1":
        return FmtStr(Chunk(s, A1))
    if kind == "rep":
        return FmtStr(Chunk(s, A1), Chunk(s, A1))
    if kind == "rep3":
        return FmtStr(Chunk(s, A2), Chunk(s, A1), Chunk(s, A1))
    if kind == "same2":
        c = Chunk(s, A1)
        return FmtStr(c, c)
    if kind == "mul3":
        return FmtStr(Chunk(s, A3)) * 3
    return FmtStr()


def judge(f, cols, lines):
    ref = cells(f)
    lc = [cells(l) for l in lines]
    ws = [width(l) for l in lc]
    if any(w > cols for w in ws):
        return f"a line is wider than {cols}: widths {ws}"
    if any(w != cols for w in ws[:-1]):
        return f"a line other than the last is not exactly {cols} wide: widths {ws}"
    if any(len(l) == 0 for l in lc):
        return "an empty line was produced"
    flat = []
    refbase = [x for x in ref if wcwidth(x[0]) > 0]
    nb = 0
    for i, l in enumerate(lc):
        l = list(l)
        if i + 1 < len(lc) and l and l[-1][0] == " " and lc[i + 1] and wcwidth(lc[i + 1][0][0]) == 2 \
                and l[-1][1] == lc[i + 1][0][1] and width(l[:-1]) == cols - 1:
            # the one permitted addition: padding before a double-width character, formatted like it - unless the value itself
            # has that blank at this position (a real blank that happens to end the line)
            p = nb + sum(1 for x in l if wcwidth(x[0]) > 0) - 1
            if not (p < len(refbase) and refbase[p] == l[-1]):
                l = l[:-1]
        nb += sum(1 for x in l if wcwidth(x[0]) > 0)
        flat += l
    if flat != ref:
        base = lambda cs: [x for x in cs if wcwidth(x[0]) > 0]
        zw = lambda cs: [x for x in cs if wcwidth(x[0]) == 0]
        if base(flat) != base(ref) or zw(flat) != zw(ref):
            return f"lines hold {flat}, the value is {ref}"
    return ""


def case(lay, cols):
    f = build(lay)
    try:
        lines = list(f.width_aware_splitlines(cols))
    except Exception as e:
        return f"raised {type(e).__name__}: {e}"
    return judge(f, cols, lines)


def interleaved(lay, c1, c2):
    """two lazily consumed iterators over values sharing their runs, advanced alternately"""
    f = build(lay)
    g = f.copy()
    try:
        want1 = [str(x) for x in f.width_aware_splitlines(c1)]
        want2 = [str(x) for x in g.width_aware_splitlines(c2)]
        it1, it2 = f.width_aware_splitlines(c1), g.width_aware_splitlines(c2)
        got1, got2 = [], []
        done1 = done2 = False
        while not (done1 and done2):
            if not done1:
                try:
                    got1.append(str(next(it1)))
                except StopIteration:
                    done1 = True
            if not done2:
                try:
                    got2.append(str(next(it2)))
                except StopIteration:
                    done2 = True
    except Exception as e:
        return f"raised {type(e).__name__}: {e}"
    if got1 != want1 or got2 != want2:
        return f"interleaved consumption gives {got1} / {got2}, sequential gives {want1} / {want2}"
    return ""


def replay(c):
    lay = tuple(c["layout"])
    d = interleaved(lay, c["cols"], c["cols2"]) if c.get("cols2") else case(lay, c["cols"])
    return d == "", d


def bounded(check, tier):
    maxlen = 6 if tier == "thorough" else 5
    maxcols = 5 if tier == "thorough" else 4
    assert (wcwidth(N), wcwidth(W), wcwidth(Z)) == (1, 2, 0)
    s = Suite(check, "C11.wrap", f"every string of length <= {maxlen} over {{narrow, double-width, combining}} x every 3-run split, the one-run value, "
              f"the run repeated (equal adjacent runs), the run-less value x columns 2..{maxcols}; lines judged against the statement (none wider, "
              "all but the last exactly `columns`, none empty, all characters in order with formatting, only the permitted pad); plus two "
              "iterators over values sharing runs consumed alternately", bound=f"length<={maxlen}, columns<={maxcols}")
    for n in range(0, maxlen + 1):
        for p in itertools.product([N, W, Z], repeat=n):
            st = "".join(p)
            for lay in layouts(st):
                for cols in range(2, maxcols + 1):
                    s.case((lay, cols), sample=dict(layout=list(lay), cols=cols))
                    d = case(lay, cols)
                    if d:
                        c = dict(layout=list(lay), cols=cols)
                        s.fail("C11.width_aware_splitlines", c, d, replay={"kind": "suite", "module": "props.C11", "case": c})
                if lay[0] in ("1", "rep") and 2 <= n <= 4:
                    s.case((lay, "interleaved"))
                    d = interleaved(lay, 2, 3)
                    if d:
                        c = dict(layout=list(lay), cols=2, cols2=3)
                        s.fail("C11.width_aware_splitlines.interleaved", c, d, replay={"kind": "suite", "module": "props.C11", "case": c})
    for bad in (1, 0, -1):
        s.case(("cols", bad))
        try:
            list(fmtstr("abc").width_aware_splitlines(bad))
            s.fail("C11.columns_lt_2", dict(cols=bad), "no ValueError for columns < 2")
        except ValueError:
            pass
    s.done()


def derived(check, tier, seed):
    from bounded.derived import derived_values
    from cwcwidth import wcswidth as _wcs
    n = 5000 if tier == "thorough" else 600
    s = Suite(check, "C11.derived", f"{n} values at the end of chains of <= 4 public operations, wrapped at 2, 3 and 5 columns: the statement's oracle",
              bound="chains <= 4 operations", exhaustive=False)
    for k, v in enumerate(derived_values(seed + 5, n)):
        if _wcs(v.s) < 0:
            continue
        for cols in (2, 3, 5):
            s.case(("d", k, cols), sample=repr(v) if k < 2 else None)
            try:
                lines = list(v.width_aware_splitlines(cols))
            except Exception as e:      # noqa: BLE001
                s.fail("C11.width_aware_splitlines", dict(value=repr(v), runs=str(v.chunks), cols=cols, kind="derived"), f"raised {type(e).__name__}: {e}")
                continue
            d = judge(v, cols, lines)
            if d:
                s.fail("C11.width_aware_splitlines", dict(value=repr(v), runs=str(v.chunks), cols=cols, kind="derived"), d)
    s.done()



def characters(check, tier):
    """wrapping is about wcwidth and nothing else: characters that some other classification singles out (combining marks that DO take
    columns, wide whitespace, variation selectors, emoji modifiers, jamo, format characters) wrap like any character of their width"""
    from bounded.common import CHAR_CLASSES
    s = Suite(check, "C11.characters", f"{len(CHAR_CLASSES)} characters of different classes (spacing combining marks, wide blanks, joiners, selectors, emoji, "
              "jamo ...) behind a full line, at the start of a run, doubled, behind a double-width character, in one run and cut into two "
              "runs at every position x columns 2, 3: the statement's oracle", bound="5 texts x every 2-run cut x 2 widths")
    for ch in CHAR_CLASSES:
        if wcwidth(ch) < 0:
            continue
        for txt in ("aa" + ch + "a", ch + "a" + ch, W + ch + "a", ch * 3, "a" + ch + ch + "aa", "aaa" + ch):
            for cut in range(0, len(txt)):
                f = FmtStr(Chunk(txt, A1)) if cut == 0 else FmtStr(Chunk(txt[:cut], A1), Chunk(txt[cut:], A2))
                for cols in (2, 3):
                    s.case((ch, txt, cut, cols), sample=dict(char=f"U+{ord(ch):04X}", cols=cols) if len(s.samples) < 2 else None)
                    try:
                        lines = list(f.width_aware_splitlines(cols))
                        d = judge(f, cols, lines)
                    except Exception as e:      # noqa: BLE001
                        d = f"raised {type(e).__name__}: {e}"
                    if d:
                        s.fail("C11.width_aware_splitlines.characters", dict(char=f"U+{ord(ch):04X}", text=txt, cut=cut, cols=cols), d[:300])
    s.done()


def fresh_process_failures():
    """(runs in a brand-new interpreter) FIRST every other public read-only operation on one-character values of each width class - among
    them the ones that measure a prefix of length 0 (width_at_offset(0), empty column ranges) -, THEN a sample of wraps judged by the
    statement: whatever the earlier operations leave behind in the process, wrapping is what it is.  -> [[layout, cols, detail], ...]"""
    for ch in (N, W, Z, "\u4e2d", "\U0001F600", "\u3000"):
        for f in (fmtstr(ch), FmtStr(Chunk(ch, A1))):
            for use in (lambda: f.width_at_offset(0), lambda: f.width_at_offset(1), lambda: f.width_aware_slice(slice(0, 0)), lambda: f.width_aware_slice(0),
                        lambda: f.width, lambda: f[0:0], lambda: len(f), lambda: str(f), lambda: f.ljust(0), lambda: f.splice("", 0)):
                try:
                    use()
                except Exception:      # noqa: BLE001
                    pass
    out = []
    for st in ("aa" + W + "b", W + W + "a", "a" + Z + W + W, W, "ab" + W + "cd" + W, N + W + Z + W + N):
        for lay in layouts(st):
            if lay[0] not in ("1", "3") or (lay[0] == "3" and (lay[2] + lay[3]) % 2):
                continue
            for cols in (2, 3):
                d = case(lay, cols)
                if d:
                    out.append([list(lay), cols, d[:300]])
                    if len(out) >= 4:
                        return out
    return out


def fresh_process(check, tier):
    from bounded.common import run_in_environment
    s = Suite(check, "C11.fresh_process", "in a brand-new interpreter: width_at_offset(0), empty column ranges and the other read-only operations on one-character "
              "values of every width class first, then a sample of wraps (6 texts x run layouts x columns 2, 3) judged by the statement",
              bound="one child interpreter", exhaustive=False)
    ran, res = run_in_environment("props.C11", "fresh_process_failures", {})
    for k in range(6):
        s.case(("fresh", k))
    if not ran:
        check.note(f"C11.fresh_process: the child did not run: {res}")
    else:
        for lay, cols, d in res:
            s.fail("C11.width_aware_splitlines.fresh_process", dict(layout=lay, cols=cols), d)
    s.done()


def long_inputs(check, tier):
    from bounded.common import long_values
    s = Suite(check, "C11.long", "values with thousands of runs / characters wrapped at 2, 3 and 80 columns: the statement's oracle", bound="<= 6000 characters")
    for label, v in long_values():
        for cols in (2, 3, 80):
            s.case((label, cols), sample=label)
            try:
                lines = list(v.width_aware_splitlines(cols))
                d = judge(v, cols, lines)
            except Exception as e:      # noqa: BLE001
                d = f"raised {type(e).__name__}: {e}"
            if d:
                s.fail("C11.width_aware_splitlines.long", dict(value=label, cols=cols), d[:300])
    s.done()

def run(check, tier, seed):
    from pyvc.verify import verify
    import contracts.valuemodel as VM
    for c in VM.ALL:            # this property's contracts are stated over the executor's value model of Chunk / FmtStr: the real constructors and
        verify(c, tier, check, prefix="C11")      # accessors must behave as that model says (same obligations as in C13, decided here too)
    long_inputs(check, tier)
    import contracts.splitter as SP
    from pyvc.verify import verify
    for c in SP.GENERATOR_CONTRACTS:
        verify(c, tier, check)
    bounded(check, tier)
    fresh_process(check, tier)
    characters(check, tier)
    derived(check, tier, seed)
