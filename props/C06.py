"""C06 - indexing, slicing, +, * and join act like str and carry formatting along."""
import itertools
import contracts.formatstring as F
import contracts.atts  # noqa: F401  (callee contract of copy_with_new_atts, used by fmtstr#plain)
from pyvc.verify import verify
from bounded.common import Suite, mk, layouts, FmtStr, Chunk, fmtstr, cells, describe

LEVEL = "proof"
CONTRACTS = [F.normalize_slice, F.getitem, F.add, F.radd, F.mul, F.join, F.from_str_plain, F.fmtstr_plain_body]
ASSUMPTIONS = [
    "fmtstr(s) == FmtStr(Chunk(s)) for a str free of 'ESC[' is no longer assumed: the real bodies of fmtstr (no formatting arguments, "
    "parse_args inlined) and FmtStr.from_str are verified against it here (fmtstr#plain, FmtStr.from_str#plain); join takes str items "
    "verbatim whatever they contain (the contract used to REQUIRE them free of 'ESC[' - a precondition read off the code that hid a "
    "defect: str items were parsed for escape sequences; repaired, see known_findings.json)",
    "PLAIN(s) := 'ESC[' does not occur in s; the lemma PLAIN(blanks ++ y) == PLAIN(y) == PLAIN(y ++ blanks) used for padded rows is "
    "validated by exhaustive evaluation (blanks <= 3, y <= 5 over {ESC, '[', ' ', 'a'}) on every run, not proved",
    "FmtStr.__len__/.s are used through their contracts here; their bodies are verified under the memo invariant in C13",
    "list-homomorphism lemma schemas (VIEW/TEXT/TOTLEN over ++, unit, filter-nonempty; CELLS over slice/concat) - lean/Lemmas.lean",
    "Python ints are mathematical integers; CPython semantics of the supported constructs (DESIGN 2.2)",
]


def bounded(check, tier):
    deep = tier == "thorough"
    lay = list(layouts(4 if deep else 3, 2))
    s = Suite(check, "C06.slices", "every run layout (<=%d runs, run lengths 0..2, plus the run-less value) x every int index and "
              "every slice bound pair in [-len-2, len+2] + None; non-trivial = distinct (layout, index); oracle = the sidecar "
              "contract of FmtStr.__getitem__ evaluated at run time + memo coherence of the result" % (4 if deep else 3),
              bound="runs<=%d, run length<=2" % (4 if deep else 3))
    for lens in lay:
        f = mk(lens)
        L = len(f.s)
        bounds = list(range(-L - 2, L + 3)) + [None]
        for i in range(-L - 2, L + 3):
            s.contract_case(F.getitem, dict(self=f, index=i), key=(lens, i))
        for a in bounds:
            for b in bounds:
                s.contract_case(F.getitem, dict(self=f, index=slice(a, b)), key=(lens, a, b))
    from bounded.common import mk_twins
    for n in (2, 3):
        for l in (1, 2):
            for same in (False, True):
                f = mk_twins(n, l, same)
                L = len(f.s)
                bounds = list(range(-L - 1, L + 2)) + [None]
                for i in range(-L - 1, L + 2):
                    s.contract_case(F.getitem, dict(self=f, index=i), key=("twins", n, l, same, i))
                for a in bounds:
                    for b in bounds:
                        s.contract_case(F.getitem, dict(self=f, index=slice(a, b)), key=("twins", n, l, same, a, b))
    s.done()
    s = Suite(check, "C06.normalize_slice", "lengths 0..5 x every int / slice bound in [-len-2, len+2] + None",
              bound="length<=5")
    for n in range(0, 6):
        bounds = list(range(-n - 2, n + 3)) + [None]
        for i in range(-n - 2, n + 3):
            s.contract_case(F.normalize_slice, dict(length=n, index=i), key=(n, i))
        for a in bounds:
            for b in bounds:
                s.contract_case(F.normalize_slice, dict(length=n, index=slice(a, b)), key=(n, a, b))
    s.done()
    s = Suite(check, "C06.ops", "operand pairs over all layouts <=2 runs (FmtStr+FmtStr, FmtStr+str, str+FmtStr), repeat counts -1..4, "
              "join of every item list of length <=3 over {run-less, '', 'ab', 1-run, 2-run} (and <=4 in thorough)",
              bound="runs<=2, items<=%d" % (4 if deep else 3))
    small = [mk(l) for l in layouts(2, 2)]
    strs = ["", "x", "xy", "\x1b[1mz", "x\ud83d\ude00y", "caf\udce9", "\ufeffab", "\x00", "c\td", "\tq\x0b"]      # (a str operand is text, whatever it contains)
    for f in small:
        for g in small:
            s.contract_case(F.add, dict(self=f, other=g))
        for t in strs:
            s.contract_case(F.add, dict(self=f, other=t))
            s.contract_case(F.radd, dict(self=f, other=t))
        for n in range(-1, 5):
            s.contract_case(F.mul, dict(self=f, other=n))
    s.contract_case(F.add, dict(self=mk((1,)), other=3))
    s.contract_case(F.radd, dict(self=mk((1,)), other=None))
    s.contract_case(F.mul, dict(self=mk((1,)), other="a"))
    pool = [FmtStr(), "", "ab", mk((1,), 65, 3), mk((1, 2), 70, 4), fmtstr(""), "\x1b[31mq", "\ufeffx\ud83d\ude00", FmtStr(Chunk("\udce9\ufeff", {"fg": 32}))]
    seps = [mk((1,)), mk(()), mk((1, 1)), fmtstr("")]
    for sep in seps:
        for n in range(0, (5 if deep else 4)):
            for items in itertools.product(pool, repeat=n):
                s.contract_case(F.join, dict(self=sep, iterable=list(items)))
        s.contract_case(F.join, dict(self=sep, iterable=["a", 3]))
    s.done()
    # join takes any iterable (its annotation; the repository's examples pass generator expressions): a one-pass iterator, a tuple
    # and a map object must give what the list form - judged by the contract above - gives
    s = Suite(check, "C06.join_iterables", "join over a tuple, iter(list), a generator expression, map and reversed of every item list of "
              "length <= 3: the same runs as the list form", bound="items<=3")
    forms = [("tuple", tuple), ("iter", iter), ("generator", lambda xs: (x for x in xs)), ("map", lambda xs: map(lambda x: x, xs)),
             ("reversed", lambda xs: reversed(xs[::-1]))]
    def sizes():
        return [len(x.chunks) for x in seps + pool if hasattr(x, "chunks")]
    size0 = sizes()
    for sep in seps:
        for n in range(0, 4):
            for items in itertools.product(pool, repeat=n):
                if sizes() != size0:
                    # join changed one of its operands (they are shared by all cases of this suite and may keep growing): the suite
                    # has its verdict and stops here
                    s.fail("C06.FmtStr.join.frame", dict(sep=describe(sep), items=[describe(x) for x in items][:3]),
                           f"an operand of an earlier join was changed in place: run counts {size0} -> {sizes()}")
                    s.done()
                    return
                want = cells(sep.join(list(items)))
                wanttext = (sep.s).join(x if isinstance(x, str) else x.s for x in items)
                for name, form in forms:
                    s.case((describe(sep), tuple(describe(x) for x in items), name))
                    try:
                        got = sep.join(form(list(items)))
                        d = "" if cells(got) == want and got.s == wanttext and len(got) == len(wanttext) else \
                            f"gives text {got.s!r} (len {len(got)}), runs {got.chunks}; the list form gives {want}"
                    except Exception as e:      # noqa: BLE001
                        d = f"raised {type(e).__name__}: {e}"
                    if d:
                        s.fail("C06.FmtStr.join.iterable", dict(sep=describe(sep), items=[describe(x) for x in items], form=name), d)
    s.done()


def str_lookalikes(text):
    """str operands that are not exactly `str`: a plain subclass, a subclass whose __str__ / __repr__ / __format__ are not its characters,
    and a str-mixin Enum member - each IS the string `text` (len, indexing, ''.join), whatever str() makes of it"""
    import enum

    class SubStr(str):
        pass

    class LoudStr(str):
        def __str__(self):
            return "<<" + "".join(self) + ">>"
        __repr__ = __str__

        def __format__(self, spec):
            return "{{" + "".join(self) + "}}"
    out = [("str subclass", SubStr(text)), ("str subclass with its own __str__", LoudStr(text))]
    if text.isidentifier() or text:
        try:
            E = enum.Enum("Colour", {"MEMBER": text}, type=str)
            out.append(("str-mixin Enum member", E.MEMBER))
        except Exception:      # noqa: BLE001
            pass
    return out


def str_operand_types(check, tier):
    """"a str operand is text": the characters of the operand, whatever class of str it is"""
    s = Suite(check, "C06.str_operand_types", "+, reflected + and join with str operands that are instances of str SUBCLASSES (plain, with an own "
              "__str__/__repr__/__format__, a str-mixin Enum member): the same characters, lengths and slices as with the equal plain str",
              bound="4 texts x 3 operand classes x 5 layouts")
    small = [mk(l) for l in ((), (1,), (2,), (1, 1), (0, 2))]
    for text in ("red", "x", "a b", ""):
        for kind, op in str_lookalikes(text):
            for f in small:
                forms = {"f + s": (lambda: f + op, lambda: f + text), "s + f": (lambda: op + f, lambda: text + f),
                         "f.join([s, f, s])": (lambda: f.join([op, f, op]), lambda: f.join([text, f, text])),
                         "f.join([s])": (lambda: f.join([op]), lambda: f.join([text]))}
                for name, (mkgot, mkwant) in forms.items():
                    s.case((text, kind, describe(f), name), sample=dict(text=text, operand=kind, f=describe(f), form=name))
                    want = mkwant()
                    try:
                        got = mkgot()
                        ok = cells(got) == cells(want) and got.s == want.s and len(got) == len(want) and \
                            all(cells(got[i]) == cells(want[i]) for i in range(len(want))) and cells(got[1:]) == cells(want[1:])
                        d = "" if ok else f"gives text {got.s!r} (len {len(got)}), with the equal plain str: {want.s!r} (len {len(want)})"
                    except Exception as e:      # noqa: BLE001
                        d = f"raised {type(e).__name__}: {e}"
                    if d:
                        s.fail("C06.str_operand", dict(text=text, operand=kind, f=describe(f), form=name), d)
    s.done()


def plain_lemma_selftest(check):
    """PLAIN(' '*k + y) == PLAIN(y) == PLAIN(y + ' '*k): exhaustive small scope (the only string-theory lemma the engine assumes)"""
    bad = 0
    for n in range(0, 6):
        for p in itertools.product("\x1b[ a", repeat=n):
            y = "".join(p)
            for k in range(0, 4):
                pl = "\x1b[" not in y
                if ("\x1b[" not in (" " * k + y)) != pl or ("\x1b[" not in (y + " " * k)) != pl:
                    bad += 1
    if bad:
        check.engine_error(f"PLAIN/blank lemma fails on {bad} small cases")


def derived(check, tier, seed):
    """slicing / + / * / join contracts at run time on derived values (chains of operations), not only on freshly built ones"""
    from bounded.derived import derived_values
    n = 6000 if tier == "thorough" else 700
    s = Suite(check, "C06.derived", f"{n} values at the end of chains of <= 4 public operations: every int index, a sample of slices, + with a str "
              "and with itself, * 2, join - sidecar contracts at run time + memo coherence of the results", bound="chains <= 4 operations", exhaustive=False)
    for k, v in enumerate(derived_values(seed + 1, n)):
        L = len(v.s)
        for i in (0, L - 1, -1, L, -L - 1):
            s.contract_case(F.getitem, dict(self=v, index=i), key=("d", k, i))
        for a, b in ((None, None), (1, None), (None, -1), (1, L), (-2, L + 1), (L, None), (0, 1)):
            s.contract_case(F.getitem, dict(self=v, index=slice(a, b)), key=("d", k, a, b))
        s.contract_case(F.add, dict(self=v, other="!"), key=("d", k, "add"))
        s.contract_case(F.add, dict(self=v, other=v), key=("d", k, "addself"))
        s.contract_case(F.radd, dict(self=v, other="!"), key=("d", k, "radd"))
        s.contract_case(F.mul, dict(self=v, other=2), key=("d", k, "mul"))
        s.contract_case(F.join, dict(self=v, iterable=[v, "x", v]), key=("d", k, "join"))
    s.done()


def long_inputs(check, tier):
    from bounded.common import long_values
    s = Suite(check, "C06.long", "slicing / + / * / join contracts at run time on values with thousands of runs", bound="<= 6000 characters")
    for label, v in long_values():
        L = len(v.s)
        for idx in (slice(1, L - 1), slice(L // 2, None), slice(None, 7), L - 1, -L, slice(-5, -1)):
            s.contract_case(F.getitem, dict(self=v, index=idx), key=(label, repr(idx)))
        s.contract_case(F.add, dict(self=v, other=v), key=(label, "add"))
        s.contract_case(F.add, dict(self=v, other="tail"), key=(label, "addstr"))
        s.contract_case(F.radd, dict(self=v, other="head"), key=(label, "radd"))
    small = FmtStr(Chunk("ab", {"fg": 31}), Chunk("", {"bold": True}), Chunk("c", {}))
    s.contract_case(F.mul, dict(self=small, other=3000), key="mul3000")
    s.contract_case(F.join, dict(self=small, iterable=[small, "x"] * 1500), key="join3000")
    s.done()


def run(check, tier, seed):
    from pyvc.verify import verify
    import contracts.valuemodel as VM
    for c in VM.ALL:            # this property's contracts are stated over the executor's value model of Chunk / FmtStr: the real constructors and
        verify(c, tier, check, prefix="C06")      # accessors must behave as that model says (same obligations as in C13, decided here too)
    long_inputs(check, tier)
    plain_lemma_selftest(check)
    for c in CONTRACTS:
        verify(c, tier, check)
    bounded(check, tier)
    str_operand_types(check, tier)
    derived(check, tier, seed)
