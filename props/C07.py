"""C07 - CursorAwareWindow keeps history intact and accounts for every scroll.

Bounded check (exploration).  A real CursorAwareWindow is driven on the reference terminal spec/terminal.py WITH scrollback: all it
writes to out_stream is interpreted by the model, and the model's answer to the 'ESC[6n' the window really writes is what the
window reads (one character at a time) from in_stream - an object whose fileno() is a pty slave, because entering the context
puts in_stream into cbreak mode with termios.

Oracle (from the statement).  `above` = the lines above the window's first row when the context is entered (scrollback + screen
rows above the cursor row), T = the window's first row.  For a render of n rows: s = max(0, n - (height - T)) lines do not fit;
exactly s scroll-ups must happen; T' = max(0, T - s); off = max(0, s - T) array rows are pushed off the top and `off` is the
value returned; afterwards scrollback ++ screen rows above T' == above ++ the pushed array rows (cell for cell: nothing above the
window was altered, lines only moved up), rows T'.. show array[off:], every row below is blank, the cursor is on screen row
T' + cursor_row - off, column cursor_col (judged when that array row is still on the screen).  Leaving the context must not
raise and must leave `above` intact."""
import io
import os
import random

from vlib.par import pmap
from bounded.common import Suite, FmtStr, Chunk, cells
from spec.terminal import Terminal, BLANK, show, pyte_new, compare_with_pyte, selftest_against_pyte

LEVEL = "proof"
ASSUMPTIONS = [
    "the terminal is the reference model spec/terminal.py (xterm semantics: last-column flag, LF/IND scroll at the bottom row pushing the top "
    "line into scrollback, DECSC/DECRC, DSR 6); thorough cross-checks every stream the window writes against pyte.HistoryScreen",
    "the cursor position report read by the window is exactly the model's reply to the ESC[6n the window wrote; no other input is pending "
    "(a read with no reply pending would block for ever and is reported as a failure)",
    "in_stream's descriptor is a pty slave (termios only); out_stream is not a tty: what is written reaches the terminal unprocessed (no ONLCR)",
    "single-column printable characters, rows no longer than the width; cursor_pos on a cell of the array (row 0 for an empty array); the "
    "cursor clause is not judged when the designated array row has been pushed off the screen (the statement is silent)",
    "what leaving the context does to the window's own rows is not judged (the statement is silent); only: no exception, lines above intact",
    "bounded: terminals <= 5x5, 0..height+3 lines of earlier output, <= 4 renders of 0..height+2 rows",
]
MOD = "props.C07"
ATTS = [{}, {"fg": 31}, {"fg": 32}, {"bg": 44}, {"bold": True}, {"fg": 31, "bold": True}, {"underline": True, "bold": False},
        {"fg": 35, "bg": 41, "invert": True}, {"italic": True}, {"fg": 37, "bg": 40}]
_PTY = {}
_WIN = []


def _slave_fd():
    pid = os.getpid()
    if pid not in _PTY:
        _PTY[pid] = os.openpty()
    return _PTY[pid][1]


class _Out(io.StringIO):
    def __init__(self, sink):
        super().__init__()
        self.sink = sink

    def write(self, s):
        self.sink(s)
        return len(s)

    def fileno(self):
        return 1


class _In:
    """what the terminal sends to the program: only the replies of the reference terminal"""
    encoding = "utf-8"

    def __init__(self, term, fd):
        self.term, self.fd, self.buf, self.starved = term, fd, "", 0

    def fileno(self):
        return self.fd

    def read(self, n=1):
        if not self.buf:
            self.buf = self.term.take_responses()
        if not self.buf:
            self.starved += 1
            return ""
        c, self.buf = self.buf[:n], self.buf[n:]
        return c


def _blessed_sized(t):
    if not _WIN:
        base = t.__class__

        class Sized(base):
            height = property(lambda self: self._hw[0])
            width = property(lambda self: self._hw[1])
        _WIN.append(Sized)
    t.__class__ = _WIN[0]


def mkrow(spec):
    if isinstance(spec, str):
        return spec
    return FmtStr(*[Chunk(t, ATTS[i]) for t, i in spec])


def pre_stream(case):
    """the output that is already on the terminal: `pre` lines (distinct letters, colours), then the cursor `up` rows higher, column `col`"""
    W = case["W"]
    out = []
    for i in range(case["pre"]):
        out.append("\x1b[%dm%s\x1b[0m\r\n" % (31 + i % 6, chr(65 + i % 26) * (1 + (i * 2) % W)))
    if case["up"]:
        out.append("\x1b[%dA" % case["up"])
    if case["col"]:
        out.append("\x1b[%dG" % (case["col"] + 1))
    return "".join(out)


def pad(row, W):
    return list(row[:W]) + [BLANK] * (W - len(row))


def run_history(case, second=False):
    """-> dict(clause, detail, step, engine, disagree, compared); clause '' = the history satisfies the statement"""
    from curtsies.window import CursorAwareWindow
    from curtsies.formatstringarray import fsarray
    H, W = case["H"], case["W"]
    persist = {}
    res = dict(clause="", detail="", step=None, engine="", disagree="", compared=0)
    term = Terminal(H, W)
    term.feed(pre_stream(case))
    if term.unknown or term.responses:
        res["engine"] = f"pre-existing output not understood: {term.unknown}"
        return res
    T = term.row
    above = [list(r) for r in term.scrollback] + [list(r) for r in term.screen[:T]]
    start = f"{H}x{W}, earlier output {show(term.scrollback)} + screen {show(term.screen)}, cursor {term.cursor}"
    chunk = []
    pyt = [None, None]
    sb0 = len(term.scrollback)
    if second:
        term.quirks.clear()
        pyt[0], pyt[1] = pyte_new(term, history=True)

    def sink(s):
        chunk.append(s)
        term.feed(s)
        if pyt[1] is not None:
            pyt[1].feed(s)
    inp = _In(term, _slave_fd())
    w = CursorAwareWindow(out_stream=_Out(sink), in_stream=inp, keep_last_line=case["keep"], hide_cursor=case["hide"])
    _blessed_sized(w.t)
    w.t._hw = (H, W)

    def fail(clause, i, detail):
        res.update(clause=clause, step=i, detail=f"[{start}] step {i}: {detail}; bytes written in this step {''.join(chunk)!r:.300}")

    def intact():
        """'' when nothing above the window was altered (lines may only have moved up into scrollback)"""
        now = [list(r) for r in term.scrollback] + [list(r) for r in term.screen]
        if now[:len(above)] != above:
            k = next(j for j in range(len(above)) if j >= len(now) or now[j] != above[j])
            return (f"line {k} of the output above the window was {show([above[k]])} and is now "
                    f"{show([now[k]]) if k < len(now) else 'gone'} (scrollback {show(term.scrollback)}, screen {show(term.screen)})")
        return ""
    try:
        w.__enter__()
    except Exception as e:
        fail("C07.raises", -1, f"entering the context raised {type(e).__name__}: {e}" + (" (read from in_stream with no reply pending)" if inp.starved else ""))
        return res
    entered = True
    try:
        for i, (rowspecs, cur, kind) in enumerate(case["renders"]):
            del chunk[:]
            rows = [mkrow(r) for r in rowspecs]
            array = fsarray(rows) if kind == "fsarray" else rows
            if kind == "fsassign":
                # an FSArray filled by whole-row assignment a[i] = row: its declared width says nothing about its rows' lengths
                from curtsies.formatstringarray import FSArray
                array = FSArray(len(rows), min([len(r) for r in rows], default=0))
                for k_, r_ in enumerate(rows):
                    array[k_] = r_
            if case.get("reuse"):
                # the caller keeps ONE buffer object and edits it in place between renders (what an application's paint loop does)
                if kind in ("fsarray", "fsassign"):
                    if "fs" in persist:
                        persist["fs"].rows[:] = array.rows
                        persist["fs"].num_columns = array.num_columns
                        array = persist["fs"]
                    else:
                        persist["fs"] = array
                else:
                    if "list" in persist:
                        persist["list"][:] = rows
                        array = persist["list"]
                    else:
                        persist["list"] = array
            want = [pad(cells(array[k]), W) for k in range(len(array))]
            n = len(want)
            cr, cc = cur
            scrolls0 = term.scrolls
            what = f"render of {n} rows {show(want)} cursor_pos {tuple(cur)} with the window's first row at {T}"
            try:
                ret = w.render_to_terminal(array, (cr, cc))
            except Exception as e:
                fail("C07.raises", i, f"{what} raised {type(e).__name__}: {e}" + (" (read from in_stream with no reply pending)" if inp.starved else ""))
                return res
            if term.unknown:
                res["engine"] = f"the window wrote something the reference terminal does not model: {term.unknown[:3]}"
                return res
            s = max(0, n - (H - T))
            T2 = max(0, T - s)
            off = max(0, s - T)
            if term.scrolls - scrolls0 != s:
                fail("C07.scrolls", i, f"{what}: {s} line(s) do not fit but the terminal scrolled {term.scrolls - scrolls0} time(s); "
                     f"scrollback {show(term.scrollback)} screen {show(term.screen)}")
                return res
            d = intact()
            if d:
                fail("C07.above", i, f"{what}: {d}")
                return res
            total = above + want[:off]
            now = [list(r) for r in term.scrollback] + [list(r) for r in term.screen[:T2]]
            if now[:len(above)] != above or len(now) < len(above):
                fail("C07.above", i, f"{what}: lines above the window are {show(now)}, were {show(above)}")
                return res
            exp_win = want[off:] + [[BLANK] * W for _ in range(H - T2 - (n - off))]
            if term.screen[T2:] != exp_win:
                bad = [T2 + r for r in range(H - T2) if term.screen[T2 + r] != exp_win[r]]
                fail("C07.screen", i, f"{what}: screen rows {T2}.. show {show(term.screen[T2:])} but should show the array rows {off}.. and blanks "
                     f"{show(exp_win)} - screen rows {bad} differ (whole screen {show(term.screen)})")
                return res
            if now != total:
                fail("C07.pushed", i, f"{what}: {off} array row(s) were pushed off the top; scrollback + rows above the window hold {show(now)}, "
                     f"expected {show(total)}")
                return res
            if ret != off:
                fail("C07.return", i, f"{what}: returned {ret!r}, but {off} array row(s) were pushed off the top of the screen ({s} scrolls, "
                     f"{T - T2} of them absorbed by rows above the window)")
                return res
            if cr >= off and term.cursor != (T2 + cr - off, cc):
                fail("C07.cursor", i, f"{what}: cursor is at {term.cursor}, the cell cursor_pos designates is at {(T2 + cr - off, cc)} "
                     f"(screen {show(term.screen)})")
                return res
            above, T = total, T2
            if pyt[0] is not None:
                if term.quirks:
                    pyt[0] = pyt[1] = None
                else:
                    res["compared"] += 1
                    d = compare_with_pyte(term, pyt[0], scrollback_from=sb0)
                    if d:
                        res["disagree"] = f"[{start}] step {i} after bytes {''.join(chunk)!r}: {d}"
                        pyt[0] = pyt[1] = None
        del chunk[:]
        entered = False
        try:
            w.__exit__(None, None, None)
        except Exception as e:
            fail("C07.raises", len(case["renders"]), f"leaving the context raised {type(e).__name__}: {e}")
            return res
        d = intact()
        if d:
            fail("C07.above", len(case["renders"]), f"leaving the context (keep_last_line={case['keep']}): {d}")
    finally:
        if entered:
            try:
                w.__exit__(None, None, None)
            except Exception:
                pass
    return res


def replay(case):
    r = run_history(case)
    if r["engine"]:
        return False, "harness problem: " + r["engine"]
    return r["clause"] == "", (f"{r['clause']}: {r['detail']}" if r["clause"] else "")


# ---------------------------------------------------------------------- enumerated family
def _row(k, i, W):
    n = (k * 3 + i * 2 + 1) % (W + 1) if (k + i) % 3 else W
    return [[chr(97 + (k * 7 + i) % 26) * n, (k + i) % len(ATTS)]]


def family():
    idx = 0
    for H in range(1, 6):
        for W in range(1, 6):
            for pre in range(0, H + 4):
                for n1 in range(0, H + 3):
                    for n2 in range(0, H + 3):
                        idx += 1
                        same = idx % 2 == 0          # second array repeats the first one's rows where both have them
                        r1 = [_row(1, i, W) for i in range(n1)]
                        r2 = [(r1[i] if same and i < n1 else _row(2, i, W)) for i in range(n2)]
                        yield dict(H=H, W=W, pre=pre, up=0, col=0, keep=idx % 3 == 0, hide=idx % 4 < 2,
                                   renders=[[r1, [max(0, n1 - 1), (idx // 2) % W], "list"],
                                            [r2, [(idx // 3) % max(1, n2), W - 1], ("fsarray" if idx % 5 == 0 else "fsassign" if idx % 5 == 1 else "list")]])
    # the cursor higher than the end of the earlier output (old lines on and below the window's first row) / in another column
    for H in range(2, 6):
        for W in (2, 5):
            for pre in (H - 1, H, H + 2):
                for up in range(1, min(pre, H - 1) + 1):
                    for n1 in range(0, H + 2):
                        for n2 in (0, 1, H, H + 2):
                            idx += 1
                            yield dict(H=H, W=W, pre=pre, up=up, col=idx % W, keep=idx % 2 == 0, hide=idx % 3 == 0,
                                       renders=[[[_row(3, i, W) for i in range(n1)], [0, 0], "list"],
                                                [[_row(4, i, W) for i in range(n2)], [max(0, n2 - 1), 0], "list"]])


    # rows whose text is what str() makes of a value a cache, a dict.get or a default could hold: on an unknown screen, after a blank row, after
    # another such row
    for H in (1, 2, 3):
        for W in (4, 5):
            for pre in (0, H + 1):
                for k, t in enumerate(SENTINELS):
                    t2 = SENTINELS[(k + 1) % len(SENTINELS)]
                    for first in ([], [""] * H, ["x"] * H, [t2[:W]] * H):
                        idx += 1
                        yield dict(H=H, W=W, pre=pre, up=0, col=0, keep=idx % 2 == 0, hide=idx % 3 == 0,
                                   renders=[[first, [0, 0], "list"], [[t[:W]] * H, [0, 0], "list"], [[[[t[:W], 0]]] + [""] * (H - 1), [0, 0], "list"]])


SENTINELS = ["None", "0", "False", "[]", "-1", "''"]


# ---------------------------------------------------------------------- random histories
def rand_case(seed):
    rng = random.Random(seed)
    H, W = rng.randint(1, 5), rng.randint(1, 5)
    pre = rng.randint(0, H + 3)
    row0 = min(pre, H - 1)
    up = rng.randint(0, row0) if rng.random() < .2 else 0
    col = rng.randrange(W) if rng.random() < .3 else 0
    rowpool = []
    for _ in range(rng.randint(2, 6)):
        n = rng.choice([W, W, 0] + list(range(W + 1)))
        text = "".join(rng.choice("abc ") for _ in range(n))
        if rng.random() < .2:
            rowpool.append(text)
        elif rng.random() < .5:
            rowpool.append([[text, rng.randrange(len(ATTS))]])
        else:
            cut = rng.randint(0, n)
            rowpool.append([[text[:cut], rng.randrange(len(ATTS))], [text[cut:], rng.randrange(len(ATTS))]])
    if rng.random() < .15:      # a row whose text is what str() makes of a value the cache could hold
        t = rng.choice(SENTINELS)[:W]
        rowpool.append(t if rng.random() < .5 else [[t, 0]])
    renders = []
    prev = []
    for _ in range(rng.randint(1, 4)):
        n = rng.choice([0, 1, H, H + 1, H + 2] + list(range(H + 3)))
        mode = rng.random()
        rows = []
        for i in range(n):
            if mode < .3 and i < len(prev):
                rows.append(prev[i])                    # same rows as last time (cache hits)
            elif mode < .45 and i + 1 < len(prev):
                rows.append(prev[i + 1])                # last time's rows moved up by one (what a scroll does to the screen)
            else:
                rows.append(rng.choice(rowpool))
        renders.append([rows, [rng.randrange(max(1, n)), rng.randrange(W)], rng.choice(["fsarray"] * 5 + ["fsassign"] * 3 + ["list"] * 12)])
        prev = rows
    return dict(H=H, W=W, pre=pre, up=up, col=col, keep=rng.random() < .5, hide=rng.random() < .5, renders=renders)


def _judge(case, second):
    try:
        return run_history(case, second)
    except Exception as e:      # a crash of the harness itself is never a violation
        import traceback
        return dict(clause="", detail="", step=None, engine=f"harness crashed: {e!r} {traceback.format_exc()[-400:]}", disagree="", compared=0)


_FAM = []


def FAMILY_CACHE():
    if not _FAM:
        _FAM.extend(family())
    return _FAM


def _scrolled(case):
    """does the statement's arithmetic make some render of this history scroll / push array rows off the top"""
    t = Terminal(case["H"], case["W"])
    t.feed(pre_stream(case))
    T, scrolled, pushed = t.row, False, False
    for rows, _, _ in case["renders"]:
        s = max(0, len(rows) - (case["H"] - T))
        scrolled, pushed = scrolled or s > 0, pushed or s > T
        T = max(0, T - s)
    return scrolled, pushed


def _batch(job):
    kind, lo, hi, second = job
    cases = FAMILY_CACHE()[lo:hi] if kind == "family" else [rand_case(s) for s in range(lo, hi)]
    fails, engines, disagree, compared, kinds, keys = [], [], [], 0, {}, set()
    for n_, c in enumerate(cases):
        if (lo + n_) % 3 == 1:
            c = dict(c, reuse=True)         # one buffer object edited in place between the renders
        r = _judge(c, second)
        compared += r["compared"]
        keys.add(repr(c))
        if r["engine"]:
            engines.append((c, r["engine"]))
        if r["disagree"]:
            disagree.append((c, r["disagree"]))
        if r["clause"]:
            k = (r["clause"], c["up"] > 0)
            kinds[k] = kinds.get(k, 0) + 1
            if kinds[k] <= 12:
                fails.append((c, r))
    return len(cases), fails, kinds, engines[:5], disagree[:5], compared, len(keys)


def _collect(s, check, results, stats):
    distinct = 0
    for cnt, fails, kinds, engines, disagree, compared, nkeys in results:
        s.evaluations += cnt
        distinct += nkeys
        stats["compared"] += compared
        for k, v in kinds.items():
            stats["kinds"][k] = stats["kinds"].get(k, 0) + v
            stats["fails"] += v
        for c, r in fails:
            scrolled, pushed = _scrolled(c)
            inputs = dict(c, step=r["step"], junk_below=c["up"] > 0, scrolled=scrolled, pushed=pushed)
            s.fail(r["clause"], inputs, r["detail"], replay={"kind": "suite", "module": MOD, "case": c})
        for c, e in engines:
            check.engine_error(f"C07 harness: {e} | case {c}")
        for c, d in disagree:
            check.engine_error(f"C07: reference terminal and pyte disagree ({d}) | case {c}")
    s.nontrivial = set(range(distinct))


def contract_probe(n_family=700, n_random=250):
    """concrete histories for the deductive contract of render_to_terminal: when an obligation is refuted (the ghost-terminal proof has no
    model to replay) these histories on the reference terminal supply the failing input, if there is one"""
    fam = FAMILY_CACHE()
    step = max(1, len(fam) // n_family)
    out = []
    for c in fam[::step] + [rand_case(s) for s in range(n_random)]:
        r = _judge(c, False)
        if r["clause"]:
            out.append((r["clause"], dict(history=c), r["detail"], {"kind": "suite", "module": MOD, "case": c}))
            if len(out) >= 3:
                break
    return out


def deductive(check, tier):
    """(1) the inductive screen proof of CursorAwareWindow.render_to_terminal over the tape model (contracts/cursorwindow.py): from ANY
    state satisfying the cache/screen invariant the real body leaves the lines above the window untouched, shows every array row from
    the window's first row (rows pushed off the top stay intact in the scrollback), blanks the rest, scrolls exactly what does not fit,
    returns the rows pushed off, puts the cursor on the designated cell and re-establishes the invariant - hence after every render of
    every history; (2) the older integers-only contract (everything else abstracted) is kept as an independent second derivation of the
    scroll accounting"""
    import contracts.window as W
    import contracts.cursorwindow as CW
    from pyvc.verify import verify
    CW.caw_screen.probe = contract_probe
    W.caw_render.probe = contract_probe
    verify(CW.caw_screen, tier, check)
    verify(W.caw_render, tier, check)
    check.assume("deductive layer: ghost terminal = a tape of rows at row granularity (shows(line) / blank / junk / partial), the screen a "
                 "window [off, off+H) onto it; ASSUMED: blessed/xterm capability semantics at row level (move, write of a line from column 0, "
                 "clear_eol, clear_bol), BaseWindow.scroll_down scrolls exactly one line and what scrolls into view is blank - all validated "
                 "by the bounded suite against spec/terminal.py (+ pyte); lines identified with their terminal strings (C19/C01); induction "
                 "base: after __enter__ the row cache is empty and top_usable_row is the reported cursor row (0 <= row < height)")


def run(check, tier, seed):
    deductive(check, tier)
    thorough = tier == "thorough"
    stats = dict(compared=0, fails=0, kinds={})
    if thorough:
        # the reference model itself against pyte.HistoryScreen on random escape streams (disagreement = harness problem, never a violation)
        tot = 0
        for n, bad in pmap(_selftest, [(1500, seed * 2003 + 77 + k) for k in range(14)]):
            tot += n
            for b in bad[:3]:
                check.engine_error("reference terminal vs pyte on a random escape stream: " + b)
        check.note(f"reference terminal agreed with pyte on {tot} random escape streams")
    fam = FAMILY_CACHE()
    s = Suite(check, "C07.family", "enumerated: every terminal size 1..5 x 1..5 x 0..height+3 lines of earlier output (coloured, the last ones "
              "scrolled into scrollback) x first render of 0..height+2 rows x second render of 0..height+2 rows (alternately repeating the first "
              "array's rows / all new rows; full-width, short and empty rows; list or FSArray), cursor on the last / a varying array row, "
              "keep_last_line and hide_cursor alternating, then leaving the context; plus the cursor 1..height-1 rows above the end of the earlier "
              "output and in other columns.  After each render: scroll count, lines above the window intact cell for cell, window rows == array, "
              "rest blank, pushed rows in scrollback, return value, cursor cell", bound="terminal <= 5x5, 2 renders")
    step = max(100, len(fam) // 56 + 1)
    _collect(s, check, pmap(_batch, [("family", lo, min(lo + step, len(fam)), thorough) for lo in range(0, len(fam), step)]), stats)
    s.samples = [fam[1], fam[len(fam) // 2]]
    s.done()
    n = 100000 if thorough else 6000
    s = Suite(check, "C07.histories", f"{n} random histories (seeds from VERIF_SEED): terminal 1..5 x 1..5, 0..height+3 earlier lines, cursor on the row "
              "after them or (20%) up to the top row, any column (30%), 1..4 renders of 0..height+2 rows drawn from a per-history pool of 2..6 "
              "rows (plain str, one- or two-run FmtStr, lengths 0..width) - repeating the previous rows, the previous rows moved up by one, or "
              "fresh ones - list or FSArray, any cursor cell of the array, keep_last_line / hide_cursor on and off, then leaving the context; "
              "same oracle as C07.family" + ("; every stream also interpreted by pyte.HistoryScreen (second opinion)" if thorough else ""),
              bound="terminal <= 5x5, <= 4 renders, arrays <= height+2 rows", exhaustive=False)
    base = seed * 1000003
    step = max(250, n // 56)
    _collect(s, check, pmap(_batch, [("random", base + lo, base + min(lo + step, n), thorough) for lo in range(0, n, step)]), stats)
    s.samples = [rand_case(base), rand_case(base + 1)]
    s.done()
    kinds = ", ".join(f"{c}[junk_below={j}]x{k}" for (c, j), k in sorted(stats["kinds"].items()))
    check.note(f"C07: {stats['fails']} failing histories ({kinds or 'none'})" + (f"; pyte compared after {stats['compared']} renders" if thorough else ""))


def _selftest(job):
    n, seed = job
    return selftest_against_pyte(n, seed)
