"""C09 - splice replaces exactly the requested range and nothing else."""
import contracts.formatstring as F
from pyvc.verify import verify
from bounded.common import Suite, mk, layouts, FmtStr, Chunk, fmtstr, describe

LEVEL = "proof"
CONTRACTS = [F.divides, F.splice, F.append]
ASSUMPTIONS = [
    "fmtstr(s) == FmtStr(Chunk(s)) for a str free of 'ESC[' (a str `new` value goes through fmtstr): callee contract, verified against the "
    "real fmtstr / FmtStr.from_str bodies in C06 (fmtstr#plain)",
    "FmtStr.__len__/.s through their contracts (bodies verified under the memo invariant in C13)",
    "fold lemma 'sum of run lengths = length of the concatenation' for divides' last element (lean/Lemmas.lean)",
    "list-homomorphism lemma schemas (DESIGN 2.5)",
]


def bounded(check, tier):
    deep = tier == "thorough"
    s = Suite(check, "C09.splice", "every layout <=%d runs (lengths 0..2) x every new value (str '', 'X', 'XY'; FmtStr <=2 runs incl. "
              "empty/run-less) x every 0<=start<=end<=len+2 and end omitted; append of every new value; oracle = sidecar "
              "contract of splice/append at run time, operand unchanged, result memo-coherent" % (4 if deep else 3),
              bound="runs<=%d, run length<=2, new<=2 runs" % (4 if deep else 3))
    news = [mk(l, 65, 4) for l in layouts(2, 2)] + ["", "X", "XY", fmtstr(""), "\x1b[31mq"]
    lay = [(lens, False) for lens in layouts(4 if deep else 3, 2)]
    # the same display cut into runs differently (uniform attributes), after the one-run value was used
    lay += [(lens, True) for lens in layouts(3, 2) if len(lens) >= 2 and sum(lens) > 0]
    lay = [((sum(lens),), True) for lens, u in lay if u][:0] + lay
    seen_uniform = set()
    for lens, uni in lay:
        if uni and sum(lens) not in seen_uniform:
            seen_uniform.add(sum(lens))
            one = mk((sum(lens),), uniform=True)
            s.contract_case(F.splice, dict(self=one, new_str="X", start=1, end=None), key=("uniform-one", sum(lens)))
        f = mk(lens, uniform=uni)
        L = len(f.s)
        lens = (lens, uni)
        for ni, new in enumerate(news):
            for start in range(0, L + 3):
                for end in [None] + list(range(start, L + 3)):
                    s.contract_case(F.splice, dict(self=f, new_str=new, start=start, end=end), key=(lens, ni, start, end))
            s.contract_case(F.append, dict(self=f, string=new), key=(lens, ni, "append"))
        s.contract_case(F.divides, dict(self=f), key=(lens, "divides"))
    # runs that compare equal (twins) and the same run object repeated: positions must not be confused
    from bounded.common import mk_twins
    for n in (2, 3):
        for l in (1, 2):
            for same in (False, True):
                f = mk_twins(n, l, same)
                L = len(f.s)
                for ni, new in enumerate(news[::3] + ["", "X"]):
                    for start in range(0, L + 2):
                        for end in [None] + list(range(start, L + 2)):
                            s.contract_case(F.splice, dict(self=f, new_str=new, start=start, end=end), key=("twins", n, l, same, ni, start, end))
                    s.contract_case(F.append, dict(self=f, string=new), key=("twins", n, l, same, ni, "append"))
    s.done()


def characters(check, tier):
    """positions next to characters that take no column or two (combining marks, joiners, NUL, double-width): offsets count characters"""
    import itertools
    maxlen = 4 if tier == "thorough" else 3
    alph = ["a", "\u0301", "\uff25", "\x00", "\u200d", "\ufeff", "\udce9"]
    s = Suite(check, "C09.characters", f"every text of length <= {maxlen} over {{narrow, combining accent, double-width, NUL, zero-width joiner}} as one run and "
              "cut into two runs at every position x new values 'X', '', a combining accent, a formatted run x every 0<=start<=end<=len and end "
              "omitted: the sidecar contract of splice / append at run time (offsets count characters, whatever their width)",
              bound=f"length<={maxlen}")
    news = ["X", "", "\u0301", FmtStr(Chunk("\uff25\u0301", {"bg": 44})), "\ufeffq", "\ud83d\ude00"]
    for n in range(1, maxlen + 1):
        for p in itertools.product(alph, repeat=n):
            t = "".join(p)
            if not any(ord(c) in (0x301, 0xff25, 0, 0x200d, 0xfeff, 0xdce9) for c in t):
                continue
            for cut in range(0, n):
                f = FmtStr(Chunk(t, {"fg": 31})) if cut == 0 else FmtStr(Chunk(t[:cut], {"fg": 31}), Chunk(t[cut:], {"bold": True}))
                for ni, new in enumerate(news):
                    for start in range(0, n + 1):
                        for end in [None] + list(range(start, n + 1)):
                            s.contract_case(F.splice, dict(self=f, new_str=new, start=start, end=end), key=(t, cut, ni, start, end))
                    s.contract_case(F.append, dict(self=f, string=new), key=(t, cut, ni, "append"))
    s.done()


def str_operand_types(check, tier):
    """"then the characters of new": a plain-str `new` that is an instance of a str SUBCLASS (own __str__ / __format__, a str-mixin Enum
    member) contributes its characters, exactly like the equal plain str"""
    from props.C06 import str_lookalikes
    from bounded.common import cells
    s = Suite(check, "C09.str_operand_types", "splice / append with `new` an instance of a str subclass (plain, with an own __str__, a str-mixin Enum member; "
              "also empty) at every start / end of 4 layouts: the same characters and formatting as with the equal plain str", bound="4 texts x 3 classes x 4 layouts")
    for text in ("red", "x", "a b", ""):
        for kind, op in str_lookalikes(text):
            for f in (mk(()), mk((2,)), mk((1, 2)), mk((2, 0, 1))):
                L = len(f)
                for start in range(0, L + 1):
                    for end in [None] + list(range(start, L + 1)):
                        s.case((text, kind, describe(f), start, end))
                        want = f.splice(text, start, end)
                        try:
                            got = f.splice(op, start, end)
                            d = "" if cells(got) == cells(want) and len(got) == len(want) else f"gives {got.s!r}, with the equal plain str {want.s!r}"
                        except Exception as e:      # noqa: BLE001
                            d = f"raised {type(e).__name__}: {e}"
                        if d:
                            s.fail("C09.str_operand", dict(text=text, operand=kind, f=describe(f), start=start, end=end), d)
                s.case((text, kind, describe(f), "append"))
                try:
                    d = "" if cells(f.append(op)) == cells(f.append(text)) else f"append gives {f.append(op).s!r}, with the equal plain str {f.append(text).s!r}"
                except Exception as e:      # noqa: BLE001
                    d = f"append raised {type(e).__name__}: {e}"
                if d:
                    s.fail("C09.str_operand", dict(text=text, operand=kind, f=describe(f), form="append"), d)
    s.done()


def derived(check, tier, seed):
    from bounded.derived import derived_values
    n = 5000 if tier == "thorough" else 600
    s = Suite(check, "C09.derived", f"{n} values at the end of chains of <= 4 public operations: splice (str and FmtStr replacement, ranges inside, "
              "at the end, past the end, end omitted) and append - sidecar contracts at run time, result memo-coherent", bound="chains <= 4 operations",
              exhaustive=False)
    vals = derived_values(seed + 2, n)
    for k, v in enumerate(vals):
        L = len(v.s)
        g = vals[(k * 7 + 3) % len(vals)]
        for new in ("", "X", g):
            for start, end in ((0, None), (L, None), (0, L), (1, 2), (L // 2, L + 1), (0, 0), (L, L + 2)):
                if end is not None and end < start:
                    continue
                s.contract_case(F.splice, dict(self=v, new_str=new, start=start, end=end), key=("d", k, repr(new)[:8], start, end))
            s.contract_case(F.append, dict(self=v, string=new), key=("d", k, repr(new)[:8], "append"))
    s.done()



def long_inputs(check, tier):
    from bounded.common import long_values
    s = Suite(check, "C09.long", "splice / append contracts at run time on values with thousands of runs (positions at the ends, in the middle, "
              "on and next to run boundaries; str, FmtStr and run-less new values)", bound="<= 6000 characters")
    for label, v in long_values():
        L = len(v.s)
        for new in ("XY", FmtStr(Chunk("N", {"fg": 35}), Chunk("", {}), Chunk("M", {})), FmtStr(), v[:3]):
            for (a, b) in ((0, 0), (0, L), (1, 2), (L // 2, L // 2 + 1), (L // 2, None), (L - 1, L), (L, None), (L + 2, None), (2, L - 2)):
                s.contract_case(F.splice, dict(self=v, new_str=new, start=a, end=b), key=(label, repr(new)[:20], a, b))
    s.done()

def run(check, tier, seed):
    from pyvc.verify import verify
    import contracts.valuemodel as VM
    for c in VM.ALL:            # this property's contracts are stated over the executor's value model of Chunk / FmtStr: the real constructors and
        verify(c, tier, check, prefix="C09")      # accessors must behave as that model says (same obligations as in C13, decided here too)
    long_inputs(check, tier)
    for c in CONTRACTS:
        verify(c, tier, check)
    bounded(check, tier)
    characters(check, tier)
    str_operand_types(check, tier)
    derived(check, tier, seed)
