"""C17 - fmtstr accepts any string: never raises, never loses ordinary text."""
import itertools
from vlib.par import pmap
from bounded.common import Suite, FmtStr, Chunk, fmtstr, cells

LEVEL = "exploration"
ASSUMPTIONS = [
    "deductively proved (all strings): a string in which 'ESC[' does not occur comes back from fmtstr / FmtStr.from_str as one unformatted "
    "run with exactly that text (fmtstr#plain, FmtStr.from_str#plain; copy_with_new_atts through its C14 contract, parse_args inlined)",
    "from_str / parse / peel_off_esc_code / remove_ansi are regex-driven (two competing patterns with lazy prefixes): outside the "
    "deductive subset - both installed solvers leave such string constraints undecided; the property is decided by exhaustive "
    "enumeration of all strings up to a stated length over a 16-symbol escape alphabet, plus real-world samples",
    "the independent scanner (this file) defines what 'part of an escape sequence' means: from an introducer (ESC, 0x9b) through "
    "CSI parameter/intermediate bytes to a final byte, or a two-character ESC sequence",
]
ALPH = ["a", "\n", "\x1b", "\x9b", "[", "3", "1", "8", "4", ";", "m", " ", "A", "?", "H", "~"]
SAMPLES = ["\x1b[38;5;100mhi\x1b[0m", "\x1b[mhi", "\x1b[1;31mhi", "\x1b[2Jhi", "\x1b[?25lhi", "\x1b[1;1Hhi", "\x1b[31mhi\x1b[99m",
           "\x1b[01;34mdir\x1b[0m  \x1b[01;32mexe\x1b[0m\n", "\x1b[38;2;1;2;3mtrue\x1b[48;5;17mcolor\x1b[m", "\x1b[200~paste\x1b[201~",
           "a\x1b[4@b", "x\x1b[38m", "x\x1b[48my", "\x1b[1;48mz", "\x1b[0;1;31mz\n\x1b[0m", "tab\there\x1b[K", "\x1b[10;20H\x1b[2Kline\r\n",
           "\x1b(B\x1b[mplain", "\x1b]0;title\x07after", "caf\xe9 \x1b[31mr\xe9d\x1b[39m Ｅ", "\x1b[31", "\x1b", "\x1b[", "a\x9b31mb", "\x1b[1;;31mx"]


import re as _re
_COMPLETE_CSI = _re.compile("\x1b\\[[0-9;]*[@-~]")


def numeric_csi_strip(s):
    """if every introducer of s starts an ordinary numeric 7-bit CSI sequence ESC [ digits(;digits)* final, return s
    without them; else None"""
    out = []
    i = 0
    while i < len(s):
        c = s[i]
        if c == "\x9b":
            return None
        if c == "\x1b":
            if i + 1 < len(s) and s[i + 1] == "[":
                k = i + 2
                while k < len(s) and (s[k] in "0123456789;"):
                    k += 1
                if k < len(s) and "@" <= s[k] <= "~":
                    i = k + 1
                    continue
            return None
        out.append(c)
        i += 1
    return "".join(out)


def certainly_ordinary(s):
    """characters of s (in order) that cannot be part of any escape sequence: not after an introducer within the span
    of parameter / intermediate bytes and one final byte, not the second character of a two-character ESC sequence"""
    keep = []
    i = 0
    while i < len(s):
        c = s[i]
        if c in "\x1b\x9b":
            j = i + 1
            if c == "\x1b" and j < len(s) and s[j] not in "\x1b\x9b":
                j += 1              # ESC x : x may belong to the sequence ('[' or a two-character sequence)
            elif c == "\x1b" and j < len(s):
                i = j               # ESC followed by another introducer: a lone ESC; the next sequence starts there
                continue
            while j < len(s) and ("0" <= s[j] <= "?" or " " <= s[j] <= "/"):
                j += 1
            if j < len(s) and "@" <= s[j] <= "~":
                j += 1
            i = j
            continue
        keep.append(c)
        i += 1
    return keep


def is_subsequence(t, s):
    it = iter(s)
    return all(c in it for c in t)


def judge(s):
    from curtsies.formatstring import FmtStr as F2
    for name, fn in (("fmtstr", fmtstr), ("from_str", F2.from_str)):
        try:
            r = fn(s)
        except Exception as e:
            return f"{name} raised {type(e).__name__}: {str(e)[:80]}"
        t = r.s
        if "\x1b" not in s and "\x9b" not in s:
            if t != s or any(a for _, a in cells(r)):
                return f"{name}: text without escape sequences came back as {r!r}"
            continue
        if not is_subsequence(t, s):
            return f"{name}: text {t!r} is not obtained from the input by removing characters"
        if not is_subsequence(certainly_ordinary(s), t):
            return f"{name}: text {t!r} lost characters that are not part of an escape sequence ({''.join(certainly_ordinary(s))!r} must be kept)"
        exp = numeric_csi_strip(s)
        if exp is not None and t != exp:
            return f"{name}: text {t!r}, the input without its numeric CSI sequences is {exp!r}"
    return ""


def replay(case):
    d = judge(case["s"])
    return d == "", d


def _batch(args):
    L, prefix = args
    fails = []
    n = 0
    for p in itertools.product(ALPH, repeat=L - len(prefix)):
        s = "".join(prefix) + "".join(p)
        n += 1
        d = judge(s)
        if d:
            fails.append((s, d))
            if len(fails) > 60:
                break
    return n, fails[:60]


def bounded(check, tier):
    maxlen = 6 if tier == "thorough" else 5
    s = Suite(check, "C17.strings", f"every string of length <= {maxlen} over the 16-symbol alphabet {{a, newline, ESC, 0x9b, [, 3, 1, 8, 4, ;, m, space, A, ?, H, ~}} "
              "through fmtstr and FmtStr.from_str, plus 25 real-world samples; oracle = independent escape-sequence scanner: no exception, "
              "verbatim when no introducer, text is a subsequence keeping every certainly-ordinary character, exact when all sequences are "
              "numeric CSI", bound=f"length<={maxlen}")
    jobs = []
    for L in range(0, maxlen + 1):
        if L <= 3:
            jobs.append((L, ()))
        else:
            for pre in itertools.product(ALPH, repeat=2):
                jobs.append((L, pre))
    for n, fails in pmap(_batch, jobs):
        s.evaluations += n
        for st, d in fails:
            s.fail("C17.fmtstr", dict(s=st, has_newline=("\n" in st)), d, replay={"kind": "suite", "module": "props.C17", "case": dict(s=st)})
    # text with code points that text handling tends to normalise or choke on (lone surrogates, a surrogate pair as two code points, the
    # byte order mark, noncharacters, NUL): alone, and next to supported / unsupported / truncated sequences
    from bounded.common import ODD_TEXTS
    odd = [t for t in ODD_TEXTS] + [pre + t + post for t in ODD_TEXTS for pre, post in (("\x1b[31m", "\x1b[39m"), ("\x1b[20m", ""), ("", "\x1b["), ("\x1b[2K", "\x9b"))]
    for st in list(SAMPLES) + odd:
        s.evaluations += 1
        d = judge(st)
        if d:
            s.fail("C17.fmtstr.sample", dict(s=st), d, replay={"kind": "suite", "module": "props.C17", "case": dict(s=st)})
    s.nontrivial = set(range(s.evaluations))
    s.samples = [dict(s="a\x1b[31mb"), dict(s="\x1b[3;")]
    s.done()


def long_inputs(check, tier):
    """size is part of "every str": sequences whose parameters have thousands of digits (int() refuses more than 4300 digits by
    default), thousands of parameters, thousands of sequences, introducers nested thousands deep, very long text"""
    s = Suite(check, "C17.long", "sequences with 1 .. 20000-digit parameters (final bytes m, A, H, ~ and none), 1 .. 5000 parameters, 3000 "
              "sequences in a row, ESC[ repeated 3000 times, 200 000 characters of text around a sequence: no exception, ordinary text kept",
              bound="<= 200 000 characters")
    cases = []
    for n in (1, 18, 19, 20, 100, 640, 4299, 4300, 4301, 5000, 20000):
        for fin in ("m", "A", "H", "~", ""):
            for d in ("1", "9", "0"):
                cases.append("\x1b[" + d * n + fin + "up")
        cases.append("a\x1b[3" + "1" * n + ";4" + "2" * n + "mb")
    for n in (10, 1000, 5000):
        cases.append("\x1b[" + ";".join(["1"] * n) + "mx")
        cases.append("\x1b[" + ";" * n + "mx")
        cases.append("x" + "\x1b[31m" * n + "y" + "\x1b[0m" * n)
        cases.append("\x1b[" * n + "z")
        cases.append("\x1b" * n + "[m")
    cases.append("a" * 100000 + "\x1b[32mb\n" + "c" * 100000)
    for st in cases:
        s.case(hash(st), sample=dict(s=st[:40] + "...", length=len(st)) if len(s.samples) < 2 else None)
        d = judge(st)
        if d:
            s.fail("C17.fmtstr.long", dict(s=st if len(st) < 200 else st[:60] + f"...({len(st)} characters)...", length=len(st)), d[:400])
    s.done()


def parameter_lists(check, tier):
    """every SGR / CSI parameter list of <= 3 parameters over a pool that holds the resets, colours, bright colours and the extended-colour
    introducers 38 / 48 with their selectors 5 and 2 (complete and truncated 38;5;n / 38;2;r;g;b forms arise from it), with finals
    m and H, inside text with a newline: no exception, ordinary text kept"""
    pool = ["", "0", "1", "2", "5", "22", "31", "38", "39", "44", "48", "49", "90", "107", "255"]
    s = Suite(check, "C17.parameter_lists", f"ESC[ p1;p2;p3 m / H for every parameter list of <= 3 parameters over {len(pool)} values (resets, colours, "
              "38 / 48 with selectors 5 and 2, empty fields) inside 'a<seq>b\\nc', and the 4- and 5-parameter extended-colour forms complete and "
              "truncated: no exception, ordinary text kept", bound="<= 3 parameters (extended colours <= 5)")
    lists = [()] + [(p,) for p in pool] + list(itertools.product(pool, repeat=2)) + list(itertools.product(pool, repeat=3))
    lists += [(str(v),) for v in range(0, 301)] + [(str(v), q) for v in range(0, 111) for q in ("0", "1", "31")] + \
             [(q, str(v)) for v in range(0, 111) for q in ("1", "44")]
    lists += [("38", "2", "10", "20"), ("38", "2", "10", "20", "30"), ("48", "2", "1", "2", "3"), ("1", "38", "5"), ("38", "5", "196", "1"),
              ("48", "5"), ("38",), ("38", "2"), ("0", "48", "2", "9")]
    # the arguments of the extended-colour selectors are numbers like any other: out of range (a colour channel of 256, 400, 1000, 99999),
    # absurdly long (hundreds of digits), empty, in every position, for both selectors and both planes
    big = ["256", "383", "400", "893", "1000", "1913", "99999", "9" * 40, "9" * 320, "", "0", "255"]
    for plane in ("38", "48"):
        for sel in ("2", "5"):
            n_args = 3 if sel == "2" else 1
            for pos in range(n_args):
                for v in big:
                    args = ["0"] * n_args
                    args[pos] = v
                    lists.append((plane, sel) + tuple(args))
                    lists.append(("1", plane, sel) + tuple(args) + ("4",))
            lists.append((plane, sel) + tuple(["400"] * n_args))
    for ps in lists:
        for fin in ("m", "H"):
            if fin == "H" and len(ps) == 3 and hash(ps) % 5:
                continue
            st = "a\x1b[" + ";".join(ps) + fin + "b\nc"
            s.case((ps, fin), sample=dict(s=st) if len(s.samples) < 2 else None)
            d = judge(st)
            if d:
                s.fail("C17.fmtstr.parameter_list", dict(s=st), d[:300], replay={"kind": "suite", "module": "props.C17", "case": dict(s=st)})
    s.done()


def stray_introducers(check, tier):
    """an ESC / 0x9b that starts nothing is ordinary text and may stand in front of a real sequence: the real one is still recognised"""
    strays = ["\x1b", "\x1b\x1b", "\x1ba", "\x1b ", "\x1b1", "\x1b\n", "\x9b", "\x9b\x9b", "\x9b\n", "x\x1b", "\x1b\x9b"]
    seqs = ["\x1b[31m", "\x1b[2K", "\x1b[10;20H", "\x1b[0m", "\x1b[1;44m", "\x1b[m"]
    s = Suite(check, "C17.stray_introducers", f"{len(strays)} introducers that start no sequence (ESC / 0x9b alone, doubled, before a blank, digit, "
              f"letter, newline) in front of {len(seqs)} complete numeric CSI sequences, with text before, between and after: no exception, "
              "ordinary text kept, the complete sequence not left in the text", bound=f"{len(strays) * len(seqs) * 4} strings")
    for a in strays:
        for q in seqs:
            # (what follows a stray introducer begins with a newline or with the next ESC: a letter would complete a sequence)
            for pieces in ((a, q, "red"), ("tab", a, "\n", q, "green", "\x1b[39m"), (a, "\nmid", q, "z", a), ("p", q, a, q, "q")):
                st = "".join(pieces)
                s.case(st, sample=dict(s=st) if len(s.samples) < 2 else None)
                d = judge(st)
                if not d:
                    # the sequences of this string are exactly the complete numeric CSI pieces put into it (an introducer that
                    # starts nothing is not a sequence; no piece after it begins with '['): the text is the string without them
                    want = "".join(x for x in pieces if not _COMPLETE_CSI.fullmatch(x))
                    for name, fn in (("fmtstr", fmtstr), ("from_str", FmtStr.from_str)):
                        got = fn(st).s
                        if got != want:
                            d = f"{name}: text {got!r}, the string without its complete CSI sequences is {want!r}"
                            break
                if d:
                    s.fail("C17.fmtstr.stray_introducer", dict(s=st), d[:300], replay={"kind": "suite", "module": "props.C17", "case": dict(s=st)})
    s.done()
    # a TRUNCATED sequence (introducer, perhaps some parameters, no final byte) directly in front of a complete one, and ordinary text
    # behind it that looks like the tail of a sequence: the complete sequence goes, everything else stays - even though what stays then
    # reads like a sequence ('ESC[' + '31m')
    truncated = ["\x1b[", "\x1b[3", "\x1b[1;", "\x9b", "\x9b4", "\x1b[\x1b["]
    seqs2 = seqs + ["\x1b[20m", "\x1b[90m", "\x1b[21m", "\x1b[38;5;100m"]
    tails = ["31mb", "0m", "2Ay", "m", "z", ";5H", ""]
    s = Suite(check, "C17.truncated_introducers", f"{len(truncated)} truncated sequences directly in front of {len(seqs2)} complete ones (supported and "
              f"unsupported SGR, other CSI) followed by {len(tails)} texts that look like sequence tails, alone / after text / twice: no exception, "
              "only characters removed, and every character that cannot belong to a sequence - the tail behind the complete one in particular - kept", bound=f"{len(truncated) * len(seqs2) * len(tails) * 3} strings")
    for a in truncated:
        for q in seqs2:
            for t in tails:
                for pieces in ((a, q, t), ("ab", a, q, t, "\n"), (a, q, t, " ", a, q, t)):
                    st = "".join(pieces)
                    s.case(st, sample=dict(s=st) if len(s.samples) < 2 else None)
                    # (a truncated sequence is itself "part of an escape sequence": it may go or stay; what must stay is every character
                    # that cannot belong to any sequence - in particular the tail behind the complete sequence)
                    d = judge(st)
                    if d:
                        s.fail("C17.fmtstr.truncated_introducer", dict(s=st), d[:300], replay={"kind": "suite", "module": "props.C17", "case": dict(s=st)})
    s.done()


def deductive(check, tier):
    """the clause "text without introducers is returned unchanged and unformatted" for the larger class of strings free of 'ESC[':
    the real bodies of fmtstr (no formatting arguments) and FmtStr.from_str, all such strings (contracts/formatstring.py)"""
    import contracts.formatstring as F
    import contracts.atts  # noqa: F401  (callee contract of copy_with_new_atts)
    from pyvc.verify import verify
    for c in (F.from_str_plain, F.fmtstr_plain_body):
        verify(c, tier, check, prefix="C17")


def run(check, tier, seed):
    from pyvc.verify import verify
    import contracts.valuemodel as VM
    for c in VM.ALL:            # this property's contracts are stated over the executor's value model of Chunk / FmtStr: the real constructors and
        verify(c, tier, check, prefix="C17")      # accessors must behave as that model says (same obligations as in C13, decided here too)
    deductive(check, tier)
    bounded(check, tier)
    long_inputs(check, tier)
    parameter_lists(check, tier)
    stray_introducers(check, tier)
