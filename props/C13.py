"""C13 - FmtStr values are immutable and their memoised views never go stale."""
import inspect
import random
import contracts.memo as MEMO
from pyvc import frame
from pyvc.verify import verify, load_module
from vlib.report import Obligation
from vlib.par import pmap
from bounded.common import Suite, FmtStr, Chunk, fmtstr, cells

LEVEL = "proof"
ASSUMPTIONS = [
    "frame analysis is flow-insensitive may-alias on locals (DESIGN 9/C13-F1); a call is taken to return a new object "
    "(no function returns an operand-owned list - checked), list/str/BinOp expressions build new objects",
    "parse_args mutates the keyword dict it is handed; every call site passes a dict created for that call (documented exception)",
    "functools.cached_property computes Chunk.color_str once per run object; runs are immutable by F3/F4, so it cannot go stale",
    "private fields (_s, _atts, chunks, memo slots) are not assigned from outside formatstring.py (Python cannot prevent it)",
    "Chunk.width does not raise for runs of characters with wcwidth >= 0 and at least one column (C10 quantifier); cwcwidth.wcswidth additive",
]


def deductive(check, tier):
    for c in MEMO.ALL:
        verify(c, tier, check)
    import contracts.valuemodel as VM
    for c in VM.ALL:            # the constructors / accessors behave as the executor's value model of Chunk and FmtStr says
        verify(c, tier, check)
    mod = load_module("formatstring")
    path = inspect.getsourcefile(mod)
    import time
    t0 = time.time()
    res = frame.analyse(path)
    dt = (time.time() - t0) / max(1, len(res))
    n_bad = 0
    for name, qual, ok, detail in res:
        oid = f"C13.{name}"
        if ok is None:
            check.add_obligation(Obligation(oid, "formatstring:" + qual, "frame", "pyvc.frame (static, all paths)", "undecided", round(dt, 4), detail))
        elif ok:
            check.add_obligation(Obligation(oid, "formatstring:" + qual, "frame", "pyvc.frame (static, all paths)", "discharged", round(dt, 4)))
        else:
            n_bad += 1
            check.add_obligation(Obligation(oid, "formatstring:" + qual, "frame", "pyvc.frame (static, all paths)", "refuted", round(dt, 4), detail))
            check.refuted_without_input(oid, dict(function="formatstring:" + qual), detail, {"kind": "obligation", "contract": qual},
                                        {"analysis": "pyvc.frame", "finding": detail})
    check.functions["formatstring:*#frame"] = {"obligations": len(res), "discharged": len(res) - n_bad, "paths": "all (flow-insensitive)",
                                               "status": "ok" if not n_bad else "refuted", "shapes": 1}


# ------------------------------------------------------------------------------------------ bounded: straight-line programs
ALPH = "ab \nＥ"
STRS = ["x", "", "Ｅ!", "é", "a b"]
OPS = ["add", "addstr", "raddstr", "mul", "slice", "anyslice", "index", "splice", "splicestr", "append", "join", "split", "splitlines",
       "ljust", "rjust", "cwna", "nwar", "cwns", "was", "wasl", "upper", "fmtstr", "copy", "linesplit", "strip", "fmtwrap",
       # ranges that reach past the end / start beyond it (legal for splice and the FSArray row primitive), repeated values
       "splice_past", "splicestr_past", "setslice", "setslice_pad", "mul3", "joinself", "wasmid", "wasint"]
OBS = {"s": lambda f: f.s, "len": len, "str": str, "width": lambda f: f.width, "repr": repr, "hash": hash}


def _rand_atts(rng):
    d = {}
    if rng.random() < .5:
        d["fg"] = rng.choice([31, 32, 34])
    if rng.random() < .3:
        d["bg"] = rng.choice([41, 44])
    for k in ("bold", "underline"):
        r = rng.random()
        if r < .2:
            d[k] = True
        elif r < .3:
            d[k] = False
    return d


def _rand_fs(rng):
    return FmtStr(*[Chunk("".join(rng.choice(ALPH) for _ in range(rng.randint(0, 3))), _rand_atts(rng)) for _ in range(rng.randint(1, 3))])


def _snap(f):
    return (tuple(cells(f)), tuple((c.s, tuple(sorted(c.atts.items()))) for c in f.chunks))


def _fresh(f):
    return FmtStr(*[Chunk(c.s, dict(c.atts)) for c in f.chunks])


def _stale(p):
    """every memoised view of p against the same view of a BRAND-NEW structurally equal value on which nothing else was observed
    before (an answer must not depend on which other views were computed earlier - on either side)"""
    def w(x):
        try:
            return ("value", x.width)
        except ValueError:
            return ("raises ValueError",)
    # (an unmeasurable value - a control character in some run - must keep raising: a failed observation leaves nothing behind)
    views = (("s", lambda f: f.s), ("len", len), ("str", str), ("repr", repr), ("width", w))
    for name, fn in views:
        a, b = fn(p), fn(_fresh(p))
        if a != b:
            return f"memoised {name}={a!r} but a fresh equal value gives {b!r}"
    for first, second in (("s", "width"), ("width", "s"), ("str", "len"), ("len", "width")):
        fr = _fresh(p)
        d = dict(views)
        d[first](fr)
        a, b = d[second](fr), d[second](_fresh(p))
        if a != b:
            return f"{second} computed after {first} is {a!r}, computed first it is {b!r}"
    return ""


def run_program(seed, steps=8):
    """-> (program, problem or '')"""
    from curtsies.formatstring import linesplit
    rng = random.Random(seed)
    pool = [_rand_fs(rng) for _ in range(3)]
    snaps = [_snap(p) for p in pool]
    prog = [("pool", [repr(p) for p in pool])]
    for step in range(steps):
        if rng.random() < .4:
            i = rng.randrange(len(pool))
            o = rng.choice(sorted(OBS))
            prog.append(("observe", i, o))
            try:
                OBS[o](pool[i])
            except ValueError:
                pass
        else:
            op = rng.choice(OPS)
            i, j = rng.randrange(len(pool)), rng.randrange(len(pool))
            f, g = pool[i], pool[j]
            t = rng.choice(STRS)
            a = rng.randint(0, len(f))
            b = rng.randint(a, len(f))
            n = rng.randint(0, 2)           # ("mul" uses n, or n - 2 when flag_ is set: negative counts give the empty value)
            lo_, hi_, flag_ = rng.randint(-len(f) - 2, len(f) + 2), rng.randint(-len(f) - 2, len(f) + 2), rng.random() < .5
            wa_, wb_ = rng.randint(0, 3), rng.randint(0, 6)
            prog.append((op, i, j, t, a, b, n, lo_, hi_, flag_, wa_, wb_))

            def apply(f, g):
                return {"add": lambda: [f + g], "addstr": lambda: [f + t], "raddstr": lambda: [t + f], "mul": lambda: [f * (n - 2 * flag_ * (n > 0))],
                        "slice": lambda: [f[a:b]], "anyslice": lambda: [f[lo_:hi_]], "index": lambda: [f[a]], "splice": lambda: [f.splice(g, a, b)],
                        "splicestr": lambda: [f.splice(t, a)], "append": lambda: [f.append(g)], "join": lambda: [f.join([g, t, f])],
                        "split": lambda: f.split("a"), "splitlines": lambda: f.splitlines(), "ljust": lambda: [f.ljust(len(f) + 2)],
                        "rjust": lambda: [f.rjust(len(f) + 2)], "cwna": lambda: [f.copy_with_new_atts(bold=flag_)],
                        "nwar": lambda: [f.new_with_atts_removed("fg")], "cwns": lambda: [f.copy_with_new_str("zz")],
                        "was": lambda: [f.width_aware_slice(slice(0, b))], "wasl": lambda: list(f.width_aware_splitlines(2)),
                        "wasmid": lambda: [f.width_aware_slice(slice(wa_, wa_ + wb_))], "wasint": lambda: [f.width_aware_slice(wa_)],
                        "upper": lambda: [f.upper()], "fmtstr": lambda: [fmtstr(f, "red")], "copy": lambda: [f.copy()],
                        "linesplit": lambda: linesplit(f, 3), "strip": lambda: [f.strip()], "fmtwrap": lambda: [fmtstr(f, bold=False)],
                        "splice_past": lambda: [f.splice(g, a, len(f) + 1 + n)], "splicestr_past": lambda: [f.splice(t, a, len(f) + 2)],
                        "setslice": lambda: [f.setslice_with_length(a, b, t, len(f) + 3)],
                        "setslice_pad": lambda: [f.setslice_with_length(len(f) + 1, len(f) + 2, t, len(f) + 4)],
                        "mul3": lambda: [f * 3], "joinself": lambda: [f.join([f, g, f])]}[op]()

            def outcome(f, g):
                try:
                    return ("values", [(_snap(x) if isinstance(x, FmtStr) else repr(x)) for x in apply(f, g)])
                except (ValueError, IndexError, AssertionError) as e:
                    return ("raises", type(e).__name__)
            # the answer of an operation is a function of the VALUES of its operands: the same operation on fresh, structurally equal
            # copies (never sliced, measured or rendered before) must give the same result
            ff = _fresh(f)
            gf = ff if g is f else _fresh(g)
            want = outcome(ff, gf)
            try:
                r = apply(f, g)
                got = ("values", [(_snap(x) if isinstance(x, FmtStr) else repr(x)) for x in r])
            except (ValueError, IndexError, AssertionError) as e:
                r = []
                got = ("raises", type(e).__name__)
            if got != want:
                return prog, (f"step {step}: {op} on value #{i} (and #{j}) gives {str(got)[:300]}, the same operation on fresh equal values gives "
                              f"{str(want)[:300]}: the answer depends on what was done with the operand before")
            for x in r:
                if isinstance(x, FmtStr) and len(pool) < 12:
                    pool.append(x)
                    snaps.append(_snap(x))
        for k, (p, s0) in enumerate(zip(pool, snaps)):
            if _snap(p) != s0:
                return prog, f"value #{k} changed after step {step}: was {s0[1]}, now {_snap(p)[1]}"
            st = _stale(p)
            if st:
                return prog, f"value #{k} after step {step}: {st}"
    return prog, ""


def _batch(args):
    lo, hi = args
    out = []
    ops = set()
    for seed in range(lo, hi):
        try:
            prog, prob = run_program(seed)
        except Exception as e:      # a crash of the harness itself, not of the library operation
            prog, prob = [("seed", seed)], f"harness crashed: {e!r}"
        for st in prog[1:]:
            ops.add(st[0] if st[0] != "observe" else "observe:" + st[2])
        if prob:
            out.append((seed, prog, prob))
    return hi - lo, sorted(ops), out[:5], len(out)


def replay(case):
    prog, prob = run_program(case["seed"])
    return (prob == ""), prob


def sealed_cases(s):
    from curtsies.fmtfuncs import red
    f = red("x") + "y"
    str(f)
    atts = f.chunks[0].atts
    attempts = {"FmtStr.__setitem__": lambda: f.__setitem__(0, "z"), "atts[k]=v": lambda: atts.__setitem__("fg", 32),
                "atts.update": lambda: atts.update(fg=32), "atts.pop": lambda: atts.pop("fg"), "atts.clear": lambda: atts.clear(),
                "atts.setdefault": lambda: atts.setdefault("bold", True), "del atts[k]": lambda: atts.__delitem__("fg"),
                "atts.popitem": lambda: atts.popitem(), "atts|=": lambda: atts.__ior__({"bold": True})}
    before = (str(f), _snap(f))
    for name, fn in attempts.items():
        s.case(("sealed", name), sample=name)
        try:
            fn()
            s.fail("C13.sealed." + name, dict(attempt=name), f"in-place edit {name} succeeded; str now {str(f)!r}, runs {f.chunks}")
        except Exception:
            pass
        if (str(f), _snap(f)) != before:
            s.fail("C13.sealed." + name, dict(attempt=name), "value changed by a rejected in-place edit")


def bounded(check, tier, seed):
    n = 30000 if tier == "thorough" else 8000
    s = Suite(check, "C13.programs", f"{n} random straight-line programs (<=8 steps) over a pool of FmtStr values: 25 operations of the public "
              "API incl. str operands with wide/combining characters, observations (s, len, str, width, repr, hash) interleaved at every "
              "position; after every step every pool value is compared with its snapshot and its memoised views with a fresh copy; "
              "non-trivial = programs run; seeds derive from VERIF_SEED", bound="<=8 steps, pool<=12, runs<=3, run length<=3", exhaustive=False)
    base = seed * 1000003
    step = max(100, n // 28)
    jobs = [(base + lo, base + min(lo + step, n)) for lo in range(0, n, step)]
    ops = set()
    for cnt, o, fails, nf in pmap(_batch, jobs):
        s.evaluations += cnt
        ops.update(o)
        for sd, prog, prob in fails:
            s.fail("C13.program", dict(seed=sd, program=prog), prob, replay={"kind": "suite", "module": "props.C13", "case": {"seed": sd}})
    s.nontrivial = set(range(s.evaluations))
    s.samples = [run_program(base)[0]]
    s.rule += f"; operations exercised: {len(ops)}"
    sealed_cases(s)
    s.done()


def interrupted(check, tier, seed):
    """an observation aborted half-way (asynchronous exception) must leave no partly computed view behind"""
    from bounded.common import interrupted_then
    rng = random.Random(seed + 31)
    vals = [_rand_fs(rng) for _ in range(12 if tier == "thorough" else 5)]
    s = Suite(check, "C13.interrupted", f"each observation (s, len, str, width, repr, hash) of {len(vals)} values aborted at each of its executed lines, "
              "then every memoised view against a fresh, structurally equal value", bound="every abort point", exhaustive=False)
    for v in vals:
        runs = [(c.s, dict(c.atts)) for c in v.chunks]
        for o in sorted(OBS):
            def observe(f, o=o):
                try:
                    OBS[o](f)
                except ValueError:
                    pass
            for k, d in interrupted_then(lambda: FmtStr(*[Chunk(t, dict(a)) for t, a in runs]), observe, _stale, max_k=300):
                s.case((str(runs), o, k), sample=dict(runs=runs, observation=o, aborted_at_line_event=k) if k == 2 else None)
                if d:
                    s.fail("C13.interrupted_observation", dict(runs=[[t, a] for t, a in runs], observation=o, aborted_at_line_event=k),
                           f"after {o} was aborted at its line event #{k}: {d}")
    s.done()


def slice_mix(check, tier):
    """a slice by columns and a slice by characters of the SAME object, in both orders, each against the same slice of a fresh equal
    value: reading a value one way must not change what reading it the other way returns (strings with double-width and zero-width
    characters, so that the two units differ)"""
    import itertools
    s = Suite(check, "C13.slice_mix", "every string of length 3..4 over {narrow, double-width, combining} x every split into 3 runs x every "
              "column range x every character range (lengths 1..2), the two slices taken from one object in both orders: each equals the "
              "same slice of a fresh structurally equal value", bound="length <= 4, 3 runs")
    A3 = [{"fg": 31}, {"bold": True}, {"bg": 44}]
    lens = (3, 4) if tier == "thorough" else (3,)
    for n in lens:
        for p in itertools.product("aＥ́", repeat=n):
            st = "".join(p)
            for i in range(n + 1):
                for j in range(i, n + 1):
                    mk = lambda: FmtStr(Chunk(st[:i], A3[0]), Chunk(st[i:j], A3[1]), Chunk(st[j:], A3[2]))
                    w = mk().width
                    for ca in range(0, w + 1):
                        for cl in (1, 2):
                            for ka in range(0, n):
                                for kl in (1, 2):
                                    want_c = _snap(mk().width_aware_slice(slice(ca, ca + cl)))
                                    want_k = _snap(mk()[ka:ka + kl])
                                    for order in (0, 1):
                                        s.evaluations += 1
                                        x = mk()
                                        if order == 0:
                                            got_c = _snap(x.width_aware_slice(slice(ca, ca + cl)))
                                            got_k = _snap(x[ka:ka + kl])
                                        else:
                                            got_k = _snap(x[ka:ka + kl])
                                            got_c = _snap(x.width_aware_slice(slice(ca, ca + cl)))
                                        if got_c != want_c or got_k != want_k:
                                            s.fail("C13.slice_order", dict(text=st, runs=[i, j], columns=[ca, ca + cl], characters=[ka, ka + kl],
                                                                           first="columns" if order == 0 else "characters"),
                                                   f"x.width_aware_slice({ca}:{ca + cl}) = {got_c[1]} (fresh value: {want_c[1]}), x[{ka}:{ka + kl}] = "
                                                   f"{got_k[1]} (fresh value: {want_k[1]})")
    s.nontrivial = set(range(s.evaluations))
    s.samples = [dict(text="Ｅab", runs=[1, 2], columns=[2, 3], characters=[1, 2])]
    s.done()


def run(check, tier, seed):
    deductive(check, tier)
    bounded(check, tier, seed)
    interrupted(check, tier, seed)
    slice_mix(check, tier)
