"""C08 - Input returns every byte and triggered event exactly once, in order.

Bounded check (exploration level).  Deterministic single-threaded histories are run against a real
`curtsies.input.Input` reading from a real pipe or pty.  The clock (`time.time` as seen by curtsies.input)
and `select.select` are substituted, so that time only passes inside a wait and callbacks / byte arrivals /
SIGINTs can be injected "between the queue check and the wait" (phase "entry") or "while the request is
blocked" (phase "blocked").  `os.read` as seen by curtsies.input is observed (never altered): what the
Input has taken from the stream is an observation of its interface with the OS, not of its internals.

The oracle is a reference queue model written from the statement of C08 (properties.jsonl):
  * bytes   : one sequence `handed to the Input (read or unget, in that order) ++ still in the stream`;
              every returned keypress (a PasteEvent: each of its keypresses) must be exactly the next
              bytes of that sequence  -> exactly once, never dropped, arrival order;
  * events  : one FIFO per trigger; a returned event must be the head of its trigger's FIFO;
  * scheduled events: returned only when `when <= now`, never while another pending one has a smaller time;
  * SIGINT  : every delivered SIGINT yields exactly one SigIntEvent (sigint_event=True);
  * None    : only when nothing is deliverable (bytes, thread-safe events, SIGINTs, events queued before
              the request, scheduled events due before the end of the time-out) and - with nothing
              scheduled - no earlier than the time-out;  a request never blocks for ever while something
              is deliverable;
  * paste   : when the first read of a request returns more bytes than paste_threshold the request must
              return one PasteEvent holding at least those bytes, in order; never a paste for threshold None.
A small separate suite runs REAL two-thread scenarios with generous time-outs.
"""
import array
import fcntl
import itertools
import os
import random
import select as _real_select
import signal
import termios
import threading
import time as _real_time

from vlib.par import pmap
from bounded.common import Suite

LEVEL = "exploration"
ASSUMPTIONS = [
    "C08 is decided on deterministic single-threaded histories only: callbacks, byte arrivals and SIGINTs 'during' a request are "
    "injected at the two points where the request yields control (entry of select = between the queue check and the wait; inside "
    "the wait).  Pre-emptive interleavings of a second thread between two arbitrary bytecodes (e.g. inside the unsynchronised list "
    "operations on queued_interrupting_events) and signal delivery between two arbitrary bytecodes are NOT covered (DESIGN 10)",
    "time.time and select.select seen by curtsies.input are substituted by a simulated clock (time passes only inside a wait, by "
    "the requested time-out plus 2**-10 s); the handful of real two-thread runs (suite C08.threads) use generous real time-outs",
    "every byte arrival consists of whole keypresses (complete UTF-8 characters / complete escape sequences); characters are split "
    "only by the READ_SIZE read boundary.  A small, separately labelled group splits a character across two arrivals "
    "(inputs['split']=='arrival')",
    "keypresses are compared at byte level (keynames=BYTES, or CURTSIES names mapped back through the key table); the naming of "
    "keys is property C03",
    "scheduled_event_trigger callbacks are only called between requests (they are not documented as usable during a request); "
    "event_trigger callbacks fired during a wait only have to be returned by a LATER request",
    "liveness is checked as 'the substituted select is not entered with an infinite time-out and nothing to wake it' and 'select "
    "is not entered more than 2000 times by one request'; no termination proof",
]

BASE = 1000.0
EPS = 2.0 ** -10
SMALL = 0.25
UTF = {"e2": "é".encode(), "e3": "€".encode(), "e4": "😀".encode()}
ESCS = [b"\x1b[A", b"\x1b[15~", b"\x1bOP", b"\x1b[1;5A"]
MIX = [b"a", b"b", UTF["e2"], b"c", UTF["e3"], b"\x1b[A", b"d", UTF["e4"], b"e", b"\x1bOP", b"f", b"\x1b[15~", b"g"]


class HarnessError(Exception):
    pass


class WouldBlockForever(BaseException):
    """the substituted select was entered with timeout None and nothing can ever wake it"""


class Spin(BaseException):
    """one request entered select more than 2000 times"""


# ----------------------------------------------------------------------------------- byte material
def hx(b):
    return bytes(b).hex()


def fill(n, style, phase=0):
    """exactly n bytes made of whole keypresses (style 'ascii' or 'mixed'); deterministic"""
    out = bytearray()
    if style == "ascii":
        i = phase
        while len(out) < n:
            out.append(97 + i % 26)
            i += 1
        return bytes(out)
    i = phase
    while True:
        t = MIX[i % len(MIX)]
        if len(out) + len(t) > n:
            break
        out += t
        i += 1
    while len(out) < n:
        out.append(65 + len(out) % 26)
    return bytes(out)


def material(op):
    """bytes of an arrival op: ["bytes", hex] or ["burst", total, tokhex, at, style] (token placed at offset `at`)"""
    if op[0] in ("bytes", "unget"):
        return bytes.fromhex(op[1])
    _, total, tokhex, at, style = op
    tok = bytes.fromhex(tokhex)
    return fill(at, style) + tok + fill(total - at - len(tok), style, phase=3)


def ends_mid_char(data):
    """does data end inside a (well-formed so far) multi-byte UTF-8 character?"""
    for back in range(1, min(4, len(data)) + 1):
        b = data[-back]
        if b & 0xC0 == 0x80:
            continue
        if b & 0xE0 == 0xC0:
            return back < 2
        if b & 0xF0 == 0xE0:
            return back < 3
        if b & 0xF8 == 0xF0:
            return back < 4
        return False
    return False


# ----------------------------------------------------------------------------------- events
def _event_classes(falsy=False):
    from curtsies import events

    class Ev(events.Event):
        def __init__(self, kind="ev", src=0, n=0):
            self.kind, self.src, self.n = kind, src, n

        def __repr__(self):
            return f"<{self.kind}{self.src}#{self.n}>"

    class SEv(events.ScheduledEvent):
        def __init__(self, when, src=0, n=0):
            self.when, self.src, self.n = when, src, n

        def __repr__(self):
            return f"<sched{self.src}#{self.n}@{self.when - BASE:+g}>"

    if falsy:
        # an application's own event class may well be falsy (an event that carries a - possibly empty - sequence and defines __len__):
        # it is an event all the same
        Ev.__len__ = lambda self: 0
        SEv.__len__ = lambda self: 0
    return Ev, SEv


# ----------------------------------------------------------------------------------- reference model
class Model:
    def __init__(self):
        self.bytes = bytearray()    # handed to the Input and not yet returned  ++  still in the stream
        self.handed = 0
        self.fifo = {}              # (kind, src) -> [serial]
        self.queued_at = {}         # serial -> request number during/after which it was queued
        self.sched = []             # [when, serial]
        self.sigints = 0
        self.done = set()
        self.ever_sched = []
        self.log = []

    def kernel(self):
        return len(self.bytes) - self.handed

    def pending_any(self):
        return bool(self.bytes) or any(self.fifo.values()) or bool(self.sched) or self.sigints > 0

    def describe(self):
        evs = {f"{k}{s}": v for (k, s), v in self.fifo.items() if v}
        return (f"pending: {len(self.bytes)} bytes {bytes(self.bytes[:12])!r}{'...' if len(self.bytes) > 12 else ''}, events {evs}, "
                f"scheduled {[(round(w - BASE, 4), n) for w, n in self.sched]}, sigints {self.sigints}")

    def equal_times(self):
        ws = [w for w, _ in self.ever_sched]
        return len(set(ws)) < len(ws)


# ----------------------------------------------------------------------------------- substituted modules
class FakeTime:
    def __init__(self, rig):
        self._rig = rig

    def time(self):
        return self._rig.now

    def __getattr__(self, name):
        return getattr(_real_time, name)


class FakeSelect:
    error = _real_select.error

    def __init__(self, rig):
        self._rig = rig

    def __getattr__(self, name):
        return getattr(_real_select, name)

    def select(self, r, w, x, timeout=None):
        rig = self._rig
        rig.select_calls += 1
        if rig.select_calls > 2000:
            raise Spin()
        if not rig.hooks_fired:             # first select of this request: "between the queue check and the wait"
            rig.hooks_fired = True
            for ph, op in rig.hooks:
                if ph == "entry":
                    rig.inject(op, during=True)
        ready = _real_select.select(r, [], [], 0)[0]
        if ready:
            return ready, [], []
        # the request is blocked now.  Hooks of phase "blocked" fire during the first such wait of the request, "blocked2" during the
        # second (the request was woken by something that did not end it and waits again), "blocked3" during the third: part of the
        # waiting time of THIS wait passes, then the injection happens
        blocked = []
        if not rig.blocked_fired and timeout != 0:
            rig.block_no += 1
            phase = "blocked" if rig.block_no == 1 else f"blocked{rig.block_no}"
            blocked = [op for ph, op in rig.hooks if ph == phase]
            if not any(ph.startswith("blocked") and ph > phase for ph, _ in rig.hooks if ph != phase):
                rig.blocked_fired = True
        if blocked:
            dt = timeout / 2 if timeout is not None else 1.0
            rig.now += dt
            for op in blocked:
                rig.inject(op, during=True)
            ready = _real_select.select(r, [], [], 0)[0]
            if ready:
                return ready, [], []
            if timeout is not None:
                rig.now += timeout - dt + EPS
                return [], [], []
        if timeout is None:
            raise WouldBlockForever()
        rig.now += timeout + EPS
        return [], [], []


class OsProxy:
    def __init__(self, rig):
        self._rig = rig

    def __getattr__(self, name):
        return getattr(os, name)

    def read(self, fd, n):
        data = os.read(fd, n)
        rig = self._rig
        if fd == rig.in_fd:
            m = rig.model
            if bytes(m.bytes[m.handed:m.handed + len(data)]) != data:
                raise HarnessError(f"the stream delivered {data[:20]!r}..., the model expected {bytes(m.bytes[m.handed:m.handed + 20])!r}")
            m.handed += len(data)
            rig.reads.append(len(data))
            if rig.first_read is None:
                rig.first_read = len(data)
            if data:
                rig.read_mid_char = ends_mid_char(data)
            if rig.hooks:
                # hooks of phase "read1", "read2", ...: something happens right after the k-th read of the input stream within this
                # request (inside the paste loop: while the request is putting a paste together)
                rig.read_no += 1
                for ph, op in list(rig.hooks):
                    if ph == f"read{rig.read_no}":
                        rig.inject(op, during=True)
        return data


class _Stream:
    def __init__(self, fd):
        self.fd = fd

    def fileno(self):
        return self.fd


def _open_fds():
    out = set()
    for f in os.listdir("/proc/self/fd"):
        try:
            os.fstat(int(f))
            out.add(int(f))
        except OSError:
            pass
    return out


# ----------------------------------------------------------------------------------- the rig
class Rig:
    def __init__(self, case):
        self.case = case
        self.pt = case["pt"]
        self.transport = case["transport"]
        self.now = BASE
        self.model = Model()
        self.req_no = 0
        self.hooks, self.hooks_fired, self.select_calls, self.first_read = [], True, 0, None
        self.blocked_fired = True
        self.block_no = 0
        self.read_no = 0
        self.reads = []
        self.read_mid_char = False
        self.serial = 0
        self.evaluated_requests = 0

    # -- set-up / tear-down
    def __enter__(self):
        import curtsies.input as ci
        from curtsies import events
        self.ci, self.events = ci, events
        self.Ev, self.SEv = _event_classes(bool(self.case.get("falsy_events")))
        self.fds_before = _open_fds()
        if self.transport == "pty":
            self.wfd, self.in_fd = os.openpty()
        else:
            self.in_fd, self.wfd = os.pipe()
        kn = events.Keynames.BYTES if self.case.get("keynames", "bytes") == "bytes" else events.Keynames.CURTSIES
        self.rev = {}
        for k, v in events.CURTSIES_NAMES.items():
            self.rev.setdefault(v, []).append(k)
        self.saved = (ci.time, ci.select, ci.os, ci.getpreferredencoding)
        ci.time, ci.select, ci.os = FakeTime(self), FakeSelect(self), OsProxy(self)
        ci.getpreferredencoding = lambda: "utf-8"
        self.old_winch = signal.signal(signal.SIGWINCH, lambda *a: None) if "signal" in repr(self.case["ops"]) else None
        self.inp = ci.Input(in_stream=_Stream(self.in_fd), keynames=kn, paste_threshold=self.pt,
                            sigint_event=bool(self.case.get("sigint_event")))
        self.entered = False
        if self.transport == "pty":
            if self.case.get("typeahead"):
                # keys typed BEFORE the program enters the Input (type-ahead on a cooked tty: held by the line discipline, handed over
                # when the tty goes to cbreak mode) have arrived on the input stream like any others
                self._type_while_cooked(self.case["typeahead"].encode())
            self.inp.__enter__()
            self.entered = True
            self._settle()
        # triggers are created up front (a trigger created during a wait could not wake that wait)
        self.trig = {}
        for kind, src in sorted(self._triggers_used()):
            if kind == "ev":
                self.trig[(kind, src)] = self.inp.event_trigger(self._factory(kind, src))
            elif kind == "ts":
                self.trig[(kind, src)] = self.inp.threadsafe_event_trigger(self._factory(kind, src))
            else:
                self.trig[(kind, src)] = self.inp.scheduled_event_trigger(self._sfactory(src))
            self.model.fifo.setdefault((kind, src), [])
        return self

    def __exit__(self, *exc):
        ci = self.ci
        try:
            if self.entered:
                try:
                    self.inp.__exit__(None, None, None)
                except Exception:
                    pass
        finally:
            if getattr(self, "old_winch", None) is not None:
                signal.signal(signal.SIGWINCH, self.old_winch)
            ci.time, ci.select, ci.os, ci.getpreferredencoding = self.saved
            for fd in _open_fds() - self.fds_before:
                try:
                    os.close(fd)
                except OSError:
                    pass
        return False

    def _triggers_used(self):
        used = set()

        def scan(op):
            if op[0] in ("ev", "ts"):
                used.add((op[0], op[1]))
            elif op[0] == "sched":
                used.add(("sched", op[1]))
            elif op[0] == "req":
                for _, h in op[2]:
                    scan(h)
        for op in self.case["ops"]:
            scan(op)
        return used

    def _factory(self, kind, src):
        def make(n=0):
            return self.Ev(kind, src, n)
        return make

    def _sfactory(self, src):
        def make(when):
            return self.SEv(when, src, self.serial)
        return make

    def _type_while_cooked(self, data):
        assert all(48 <= b < 127 or b == 0x1b for b in data), "only bytes the cooked line discipline passes through unchanged"
        self.model.bytes += data
        os.write(self.wfd, data)
        _real_time.sleep(0.002)

    def _settle(self):
        """after the tty went to cbreak mode: wait (bounded) for the held bytes to become readable; if they never do they were
        discarded - the oracle will then find them undelivered"""
        t_end = _real_time.time() + 2.0
        while self._fionread() != self.model.kernel() and _real_time.time() < t_end:
            _real_time.sleep(0.0005)

    def suspend(self, data):
        """the program leaves the Input (suspend / shell-out), keys are typed meanwhile, the program enters it again"""
        if not self.entered:
            return
        self.inp.__exit__(None, None, None)
        self.entered = False
        self._type_while_cooked(data)
        self.inp.__enter__()
        self.entered = True
        self._settle()

    # -- injections
    def _fionread(self):
        b = array.array("i", [0])
        fcntl.ioctl(self.in_fd, termios.FIONREAD, b)
        return b[0]

    def arrive(self, data):
        m = self.model
        limit = 3900 if self.transport == "pty" else 60000
        if m.kernel() + len(data) > limit:
            return False
        m.bytes += data
        view = memoryview(data)
        while view:
            n = os.write(self.wfd, view)
            view = view[n:]
        if self.transport == "pty":       # the line discipline moves the data asynchronously
            t_end = _real_time.time() + 5
            while self._fionread() != m.kernel():
                if _real_time.time() > t_end:
                    raise HarnessError(f"pty: {self._fionread()} bytes readable, expected {m.kernel()}")
                _real_time.sleep(0.0002)
        return True

    def inject(self, op, during=False):
        m = self.model
        k = op[0]
        if k in ("bytes", "burst"):
            self.arrive(material(op))
        elif k == "unget":
            if m.handed > 0 and m.kernel() > 0:
                return      # the Input's last read may have ended inside a keypress: bytes "read by somebody else" cannot sit there
            data = material(op)
            self.inp.unget_bytes(data)
            m.bytes[m.handed:m.handed] = data
            m.handed += len(data)
        elif k in ("ev", "ts"):
            self.serial += 1
            m.fifo[(k, op[1])].append(self.serial)
            m.queued_at[self.serial] = self.req_no + 1      # number of the first request that finds it already queued
            self.trig[(k, op[1])](n=self.serial)
        elif k == "sched":
            self.serial += 1
            when = BASE + op[2]
            m.sched.append([when, self.serial])
            m.sched_src = getattr(m, "sched_src", {})
            m.sched_src[self.serial] = op[1]
            m.ever_sched.append((when, self.serial))
            self.trig[("sched", op[1])](when)
        elif k == "sigint":
            if not (self.entered and self.case.get("sigint_event")):
                return
            m.sigints += 1
            os.kill(os.getpid(), signal.SIGINT)
            for _ in range(50):     # give the interpreter a chance to run the Python-level handler
                _nop()
        elif k == "signal":
            # a signal other than SIGINT with a Python-level handler (SIGWINCH: the terminal was resized): CPython writes its number to the
            # wake-up descriptor, which wakes a blocked request; nothing is to be delivered
            if not (self.entered and getattr(self.inp, "wakeup_read_fd", None) is not None):
                return
            os.kill(os.getpid(), signal.SIGWINCH)
            for _ in range(50):
                _nop()
        elif k == "adv":
            self.now += op[1]
        elif k == "suspend":
            self.suspend(op[1].encode())
        else:
            raise HarnessError(f"unknown op {op}")

    # -- requests
    def step(self, op):
        if op[0] != "req":
            self.inject(op)
            return None
        return self.request(op[1], op[2])

    def request(self, timeout, hooks):
        m = self.model
        if timeout is None:
            wakes = any(h[0] in ("ts", "bytes", "burst") or (h[0] == "sigint" and self.entered and self.case.get("sigint_event"))
                        for _, h in hooks)
            if not m.pending_any() and not wakes:
                return None         # a request with no time-out is only made when something is deliverable
        self.req_no += 1
        self.evaluated_requests += 1
        self.hooks, self.hooks_fired, self.select_calls, self.first_read = [tuple(h) for h in hooks], False, 0, None
        self.blocked_fired = False
        self.block_no = 0
        self.read_no = 0
        t0 = self.now
        sched_seen = bool(m.sched)
        try:
            outcome = ("ret", self.inp.send(timeout))
        except WouldBlockForever:
            outcome = ("blocked", None)
        except Spin:
            outcome = ("spin", None)
        except HarnessError:
            raise
        except KeyboardInterrupt as e:
            outcome = ("raised", e)
        except Exception as e:
            outcome = ("raised", e)
        self.hooks, self.hooks_fired, self.blocked_fired = [], True, True
        return self.judge(timeout, outcome, t0, self.now, sched_seen)

    def drain(self):
        """after the history: everything becomes due; requests with timeout 0 must hand out all that is pending, then None twice"""
        m = self.model
        self.now += 16.0
        budget = len(m.bytes) + sum(len(v) for v in m.fifo.values()) + len(m.sched) + m.sigints + 4
        nones = 0
        while budget > 0 and nones < 2:
            budget -= 1
            was_pending = m.pending_any()
            f = self.request(0, [])
            if f:
                return f
            if not was_pending:
                nones += 1
        if m.pending_any():
            return ("C08.drain", f"still undelivered after draining with {self.evaluated_requests} requests: {m.describe()}", {})
        return None

    # -- the oracle
    def _key_bytes(self, key):
        """candidates for the bytes a returned keypress stands for"""
        if isinstance(key, bytes):
            return [key]
        if isinstance(key, str):
            c = list(self.rev.get(key, []))
            try:
                c.append(key.encode("utf-8"))
            except UnicodeEncodeError:
                pass
            return c
        return []

    def _consume_key(self, key):
        m = self.model
        for cand in self._key_bytes(key):
            if cand and bytes(m.bytes[:len(cand)]) == cand:
                if len(cand) > m.handed:
                    return f"keypress {key!r} returned although only {m.handed} of its bytes had been read or ungot"
                del m.bytes[:len(cand)]
                m.handed -= len(cand)
                return ""
        return (f"keypress {key!r} returned, but the next undelivered bytes are {bytes(m.bytes[:16])!r} "
                f"(lost, duplicated or reordered bytes)")

    def judge(self, timeout, outcome, t0, t1, sched_seen):
        m = self.model
        kind, r = outcome
        what = f"request #{self.req_no} send({timeout})"
        if kind == "raised":
            return ("C08.request.raised", f"{what} raised {type(r).__name__}: {str(r)[:120]}; {m.describe()}; reads of this request: "
                    f"{self.reads[-3:]}", {"exc": type(r).__name__})
        if kind == "spin":
            return ("C08.request.blocks", f"{what} entered select more than 2000 times without returning; {m.describe()}", {})
        if kind == "blocked":
            if m.pending_any():
                return ("C08.request.blocks", f"{what} waits for ever although something is deliverable; {m.describe()}", {})
            raise HarnessError("request without time-out generated although nothing can be delivered")
        ev = self.events
        if r is None:
            if m.bytes:
                return ("C08.none.deliverable", f"{what} returned None while bytes are deliverable; {m.describe()}", {})
            if m.sigints:
                return ("C08.none.deliverable", f"{what} returned None while a SIGINT event is deliverable; {m.describe()}", {})
            for (k, s), q in m.fifo.items():
                if q and (k == "ts" or m.queued_at[q[0]] <= self.req_no):
                    return ("C08.none.deliverable", f"{what} returned None while event {k}{s}#{q[0]} is deliverable; {m.describe()}", {})
            for w, n in m.sched:
                if w <= t0 + (timeout or 0):
                    return ("C08.none.deliverable", f"{what} (clock {t0 - BASE:+g}..{t1 - BASE:+g}) returned None while scheduled event "
                            f"#{n} was due at {w - BASE:+g}; {m.describe()}", {})
            if not sched_seen and not m.sched and (timeout is None or t1 - t0 < timeout):
                return ("C08.none.early", f"{what} returned None after {t1 - t0:g} s < time-out, nothing scheduled", {})
            return None
        if self.first_read is not None and self.pt is not None and self.first_read > self.pt and not isinstance(r, ev.PasteEvent):
            return ("C08.paste.single", f"{what}: the first read returned {self.first_read} bytes > paste_threshold {self.pt} but the "
                    f"request returned {r!r:.80} instead of one PasteEvent", {})
        if isinstance(r, ev.PasteEvent):
            if self.pt is None:
                return ("C08.paste.none_threshold", f"{what} returned a PasteEvent although paste_threshold is None", {})
            total = 0
            for i, key in enumerate(r.events):
                before = len(m.bytes)
                d = self._consume_key(key)
                if d:
                    return ("C08.bytes.order", f"{what}: PasteEvent keypress {i} of {len(r.events)}: {d}", {})
                total += before - len(m.bytes)
            if self.first_read is not None and self.first_read > self.pt and total < self.first_read:
                return ("C08.paste.single", f"{what}: a read of {self.first_read} bytes > paste_threshold {self.pt} came back as a "
                        f"PasteEvent holding only {total} bytes", {})
            if not r.events:
                return ("C08.paste.single", f"{what} returned an empty PasteEvent", {})
            return None
        if isinstance(r, (bytes, str)):
            d = self._consume_key(r)
            return ("C08.bytes.order", f"{what}: {d}", {}) if d else None
        if isinstance(r, ev.SigIntEvent):
            if m.sigints <= 0:
                return ("C08.sigint.duplicate", f"{what} returned a SigIntEvent but every SIGINT had been reported already", {})
            m.sigints -= 1
            return None
        if isinstance(r, self.Ev):
            q = m.fifo.get((r.kind, r.src), [])
            if r.n in m.done:
                return ("C08.event.duplicate", f"{what} returned {r!r} a second time", {})
            if not q or q[0] != r.n:
                return ("C08.event.order", f"{what} returned {r!r}; pending events of that trigger in trigger order: {q}", {})
            q.pop(0)
            m.done.add(r.n)
            return None
        if isinstance(r, self.SEv):
            if r.n in m.done:
                return ("C08.event.duplicate", f"{what} returned {r!r} a second time", {})
            mine = [x for x in m.sched if x[1] == r.n]
            if not mine:
                return ("C08.event.order", f"{what} returned unknown scheduled event {r!r}", {})
            if mine[0][0] > t1:
                return ("C08.scheduled.early", f"{what} returned {r!r} at clock {t1 - BASE:+g}, before its time", {})
            earlier = [x for x in m.sched if x[0] < mine[0][0]]
            if earlier:
                return ("C08.scheduled.order", f"{what} returned {r!r} while scheduled events with smaller times are pending: "
                        f"{[(w - BASE, n) for w, n in earlier]}", {})
            # "events from one trigger in trigger order": among events of the SAME trigger scheduled for the SAME time the one triggered
            # first comes first (different times: time order; different triggers with equal times: any order)
            src = getattr(m, "sched_src", {})
            same = [x for x in m.sched if x[0] == mine[0][0] and x[1] < r.n and src.get(x[1]) == src.get(r.n)]
            if same:
                return ("C08.scheduled.trigger_order", f"{what} returned {r!r} while events of the same trigger scheduled earlier for the same time "
                        f"are pending: {[(w - BASE, n) for w, n in same]}", {})
            m.sched.remove(mine[0])
            m.done.add(r.n)
            return None
        return ("C08.event.order", f"{what} returned an unknown object {r!r:.80}", {})


def _nop():
    return None


def run_history(case):
    """-> [] or [(clause, detail, extra inputs)]   (the history stops at its first failure)"""
    rig = Rig(case)
    with rig:
        for op in case["ops"]:
            f = rig.step(op)
            if f:
                break
        else:
            f = rig.drain()
        if f:
            clause, detail, extra = f
            # the listed finding C08-esc-then-non-ascii: the pending bytes begin with a key prefix (ESC, ESC ESC, ESC [, ...) that is
            # immediately followed by a non-ASCII byte
            from curtsies.events import KEYMAP_PREFIXES
            nb = bytes(rig.model.bytes[:10])
            prefix_then_nonascii = any(nb[:k] in KEYMAP_PREFIXES and nb[k] >= 0x80 for k in range(1, len(nb)))
            extra = dict(extra, equal_times=rig.model.equal_times(), read_ended_mid_char=bool(rig.read_mid_char),
                         split=case.get("split", ""), esc_then_nonascii=prefix_then_nonascii)
            return [(clause, detail, extra)], rig.evaluated_requests
        return [], rig.evaluated_requests


# ----------------------------------------------------------------------------------- real two-thread scenarios
def run_thread_case(case):
    """REAL threads, real clock.  -> '' or description.  Generous margins: the event/byte is produced ~0.3-0.5 s after the request
    started and must come back before 1.6 s of a 2 s (or infinite) time-out."""
    import curtsies.input as ci
    from curtsies import events
    name = case["scenario"]
    fds_before = _open_fds()
    master, slave = os.openpty()
    saved_enc = ci.getpreferredencoding
    ci.getpreferredencoding = lambda: "utf-8"
    threads = []
    try:
        class TEv(events.Event):
            def __init__(self, n=0):
                if case.get("slow_factory"):
                    _real_time.sleep(0.2)
                self.n = n

            def __repr__(self):
                return f"<TEv#{self.n}>"

        def later(delay, fn):
            def body():
                _real_time.sleep(delay)
                fn()
            t = threading.Thread(target=body, daemon=True)
            threads.append(t)
            t.start()
            return t

        def timed(inp, timeout):
            t0 = _real_time.time()
            try:
                r = inp.send(timeout)
            except KeyboardInterrupt:
                r = "KeyboardInterrupt"
            return r, _real_time.time() - t0

        inp = ci.Input(in_stream=_Stream(slave), keynames=events.Keynames.BYTES, paste_threshold=case.get("pt", 8),
                       sigint_event=(name in ("sigint_during", "sigint_between")))
        with inp:
            cb = inp.threadsafe_event_trigger(TEv)
            if name in ("ts_during", "ts_during_none"):
                later(0.3, lambda: cb(n=1))
                if name == "ts_during_none":
                    later(3.0, lambda: os.write(master, b"Z"))       # rescue: never hang the suite
                r, dt = timed(inp, None if name == "ts_during_none" else 2.0)
                if not (isinstance(r, TEv) and r.n == 1):
                    return f"blocked request returned {r!r} after {dt:.2f} s instead of the event fired from the other thread at 0.3 s"
                if dt > 1.6:
                    return f"event fired at 0.3 s (factory {'0.2 s' if case.get('slow_factory') else 'instant'}) came back after {dt:.2f} s"
                r2, dt2 = timed(inp, 0.3)
                if r2 is not None:
                    return f"second request returned {r2!r}: duplicate"
                if dt2 < 0.28:
                    return f"None after {dt2:.3f} s < time-out 0.3"
            elif name == "ts_before":
                t = later(0.0, lambda: (cb(n=1), cb(n=2)))
                t.join(5)
                r, dt = timed(inp, 2.0)
                r2, dt2 = timed(inp, 2.0)
                if not (isinstance(r, TEv) and r.n == 1 and isinstance(r2, TEv) and r2.n == 2):
                    return f"events fired before the requests came back as {r!r}, {r2!r}"
                if dt > 1.0 or dt2 > 1.0:
                    return f"requests took {dt:.2f} s / {dt2:.2f} s although the events were queued"
                r3, dt3 = timed(inp, 0.3)
                if r3 is not None or dt3 < 0.28:
                    return f"third request returned {r3!r} after {dt3:.3f} s (expected None no earlier than 0.3 s)"
            elif name == "ts_two_during":
                later(0.3, lambda: cb(n=1))
                later(0.7, lambda: cb(n=2))
                r, dt = timed(inp, 2.0)
                r2, dt2 = timed(inp, 2.0)
                if not (isinstance(r, TEv) and r.n == 1 and isinstance(r2, TEv) and r2.n == 2):
                    return f"two events fired at 0.3 s and 0.7 s came back as {r!r} ({dt:.2f} s), {r2!r} ({dt2:.2f} s)"
                if dt + dt2 > 1.8:
                    return f"events came back late: {dt:.2f} s + {dt2:.2f} s"
                r3, _ = timed(inp, 0)
                if r3 is not None:
                    return f"third request returned {r3!r}: duplicate"
            elif name == "bytes_during":
                later(0.3, lambda: os.write(master, "é".encode()))
                r, dt = timed(inp, 2.0)
                if r != "é".encode() or dt > 1.6:
                    return f"byte arrival at 0.3 s from another thread came back as {r!r} after {dt:.2f} s"
            elif name == "ts_and_bytes_during":
                later(0.3, lambda: (os.write(master, b"k"), cb(n=1)))
                got = [timed(inp, 2.0) for _ in range(2)]
                rs = [g[0] for g in got]
                if not (b"k" in rs and any(isinstance(x, TEv) for x in rs)) or sum(g[1] for g in got) > 1.8:
                    return f"a key and an event produced at 0.3 s came back as {got!r}"
                r3, _ = timed(inp, 0)
                if r3 is not None:
                    return f"third request returned {r3!r}: duplicate"
            elif name == "sigint_during":
                later(0.3, lambda: os.kill(os.getpid(), signal.SIGINT))
                r, dt = timed(inp, 2.0)
                if not isinstance(r, events.SigIntEvent) or dt > 1.6:
                    return f"SIGINT sent at 0.3 s from another thread: request returned {r!r} after {dt:.2f} s"
                r2, _ = timed(inp, 0.2)
                if r2 is not None:
                    return f"second request returned {r2!r}: duplicate SIGINT event"
            elif name == "sigint_between":
                # a SIGINT between two requests: the next request hands out the event; its wake-up byte is still in the pipe when the
                # request after that starts waiting - with nothing deliverable it must wait its full time-out (real clock)
                os.kill(os.getpid(), signal.SIGINT)
                for _ in range(200):
                    _nop()
                r, dt = timed(inp, 0.5)
                if not isinstance(r, events.SigIntEvent):
                    return f"SIGINT between requests: the next request returned {r!r} after {dt:.2f} s"
                for k, to in enumerate((0.4, 0.3)):
                    r2, dt2 = timed(inp, to)
                    if r2 is not None:
                        return f"request #{k + 2} after the delivered SIGINT returned {r2!r}: duplicate"
                    if dt2 < to - 0.02:         # (two clocks: 20 ms of tolerance)
                        return f"request #{k + 2} after the delivered SIGINT returned None after {dt2:.4f} s < its time-out {to} s, nothing scheduled"
            else:
                raise HarnessError(f"unknown scenario {name}")
        return ""
    except HarnessError:
        raise
    except Exception as e:
        return f"raised {type(e).__name__}: {e}"
    finally:
        for t in threads:
            t.join(6)
        ci.getpreferredencoding = saved_enc
        for fd in _open_fds() - fds_before:
            try:
                os.close(fd)
            except OSError:
                pass


THREAD_CASES = [
    dict(suite="threads", scenario="ts_during", slow_factory=False),
    dict(suite="threads", scenario="ts_during", slow_factory=True),
    dict(suite="threads", scenario="ts_during_none", slow_factory=True),
    dict(suite="threads", scenario="ts_before", slow_factory=False),
    dict(suite="threads", scenario="ts_two_during", slow_factory=True),
    dict(suite="threads", scenario="bytes_during"),
    dict(suite="threads", scenario="ts_and_bytes_during", slow_factory=True),
    dict(suite="threads", scenario="sigint_during"),
    dict(suite="threads", scenario="sigint_between"),
]


# ----------------------------------------------------------------------------------- replay
def replay(case):
    if case.get("suite") == "threads":
        d = run_thread_case(case)
        return d == "", d
    fails, _ = run_history(case)
    if fails:
        return False, f"{fails[0][0]}: {fails[0][1]}"
    return True, ""


# ----------------------------------------------------------------------------------- case generators
def _req(timeout, hooks=()):
    return ["req", timeout, [list(h) for h in hooks]]


def small_alphabet(pt):
    big = (pt if pt is not None else 8) + 1
    return [
        ["bytes", hx(b"a")],
        ["bytes", hx(UTF["e3"])],
        ["bytes", hx(b"\x1b[A")],
        ["bytes", hx(fill(big, "mixed"))],
        ["bytes", hx(fill(max(big - 2, 1), "mixed"))],
        ["unget", hx(b"x" + UTF["e2"])],
        ["ev", 0],
        ["ev", 1],
        ["ts", 0],
        ["sched", 0, -1.0],
        ["sched", 0, 0.5],
        ["sched", 1, 0.5],
        ["adv", 1.0],
        _req(0),
        _req(SMALL),
        _req(None),
        _req(SMALL, [("blocked", ["ts", 0])]),
        _req(0, [("entry", ["ts", 0])]),
        _req(None, [("blocked", ["bytes", hx(UTF["e2"])])]),
    ]


def small_cases(tier):
    maxlen = 4 if tier == "thorough" else 3
    for pt in (None, 0, 8, 100):
        alpha = small_alphabet(pt)
        for L in range(1, maxlen + 1):
            for ops in itertools.product(range(len(alpha)), repeat=L):
                if L == maxlen and tier == "thorough" and not any(alpha[i][0] == "req" for i in ops):
                    continue        # without a request the history equals its drain: covered at length 3
                yield dict(suite="small", transport="pipe", pt=pt, keynames="bytes", sigint_event=False, ops=[alpha[i] for i in ops])


def typeahead_cases():
    typed = ["l", "ls", "abc", "x\x1b[A", "q\x1b[1;5Cz", "0123456789ab"]
    for pt in (None, 8):
        for kn in ("bytes", "curtsies"):
            base = dict(suite="typeahead", transport="pty", pt=pt, keynames=kn, sigint_event=False)
            for t in typed:
                yield dict(base, typeahead=t, ops=[_req(0)])
                yield dict(base, typeahead=t, ops=[["bytes", hx(b"Z")], _req(0), _req(SMALL)])
                yield dict(base, ops=[["bytes", hx(b"yz")], _req(0), ["suspend", t], _req(0)])
                yield dict(base, ops=[_req(0), ["suspend", t], ["bytes", hx(b"w")], _req(SMALL)])
                yield dict(base, typeahead=t, ops=[_req(0), ["suspend", "k" + t]])


def wakeup_cases():
    """a timed request woken once, twice, three times by something that does not end it (a signal other than SIGINT: its number arrives on
    the wake-up descriptor) and then ended by the time-out, a thread-safe callback, a key or a SIGINT: 'None no earlier than its timeout'"""
    sig = ["signal", "SIGWINCH"]
    for pt in (None, 8):
        for se in (True, False):
            base = dict(suite="wakeups", transport="pty", pt=pt, keynames="bytes", sigint_event=se)
            if se:
                # a SIGINT / a thread-safe callback / more bytes arriving WHILE a request is putting a paste together (after its 1st, 2nd, 3rd
                # read of the stream): every byte of the burst still comes out exactly once
                pb = dict(suite="wakeups", transport="pty", pt=8, keynames="bytes", sigint_event=True)
                for k in (1, 2, 3):
                    for what in (["sigint"], ["ts", 0], ["bytes", hx(b"Z")]):
                        yield dict(pb, ops=[["burst", 1500, hx(b"\x1bOP"), 700, "ascii"], _req(None, [(f"read{k}", what)]), _req(0), _req(0), _req(0)])
                        yield dict(pb, ops=[["bytes", hx(fill(40, "mixed"))], _req(SMALL, [(f"read{k}", what)]), _req(0), _req(0)])
                # events of an application class that is FALSY (defines __len__, holds nothing): injected between requests, at the entry of
                # and during a wait, scheduled - delivered exactly once like any other event
                fb = dict(suite="wakeups", transport="pipe", pt=pt, keynames="bytes", sigint_event=False, falsy_events=True)
                for T in (SMALL, 1.0):
                    yield dict(fb, ops=[_req(T, [("blocked", ["ts", 0])]), _req(0)])
                    yield dict(fb, ops=[_req(T, [("entry", ["ts", 0])]), _req(0)])
                    yield dict(fb, ops=[["ts", 0], ["ev", 0], _req(T), _req(0), _req(0)])
                    yield dict(fb, ops=[["sched", 0, -1.0], ["sched", 1, 0.1], _req(T), _req(T)])
                    yield dict(fb, ops=[["bytes", hx(b"k")], _req(T, [("entry", ["ts", 0])]), _req(0), _req(0)])
            for T in (SMALL, 1.0, 8.0):
                for k in (1, 2, 3):
                    hooks = [(("blocked" if i == 0 else f"blocked{i + 1}"), sig) for i in range(k)]
                    yield dict(base, ops=[_req(T, hooks), _req(0)])
                    for last in (["ts", 0], ["bytes", hx(b"k")], ["sigint"]):
                        yield dict(base, ops=[_req(T, hooks + [(f"blocked{k + 1}", last)]), _req(0)])
                    yield dict(base, ops=[["sched", 0, 0.5], _req(T, hooks), _req(T, hooks[:1]), _req(0)])
                    yield dict(base, ops=[["sched", 0, 12.0], _req(T, hooks), _req(0)])
                # two signals during the same wait, and signals between requests
                yield dict(base, ops=[_req(T, [("blocked", sig), ("blocked", sig), ("blocked2", sig)]), _req(0)])
                yield dict(base, ops=[sig, sig, _req(T), sig, _req(T, [("blocked", sig)]), _req(0)])


def burst_cases(tier):
    toks = [UTF["e2"], UTF["e3"], UTF["e4"]] + ESCS
    ks = (0, 1, 5)
    for pt in (None, 0, 8, 100):
        for tok in toks:
            for j in range(1, len(tok)):
                for boundary in (1024, 2048):
                    for k in ks:
                        for pre in ("", "unget", "arrival"):
                            for transport, kn in (("pipe", "bytes"), ("pipe", "curtsies"), ("pty", "bytes")):
                                if tier == "quick" and (k == 1 or (transport == "pty" and pre) or (kn == "curtsies" and pre == "arrival")):
                                    continue
                                shift = 2 if pre else 0
                                at = boundary - j - shift
                                ops = []
                                if pre == "unget":
                                    ops.append(["unget", hx(b"xy")])
                                elif pre == "arrival":
                                    ops.append(["bytes", hx(b"xy")])
                                ops.append(["burst", 2048 + k + len(tok), hx(tok), at, "mixed" if (j + k) % 2 else "ascii"])
                                ops.append(_req(None))
                                ops.append(_req(SMALL))
                                yield dict(suite="bursts", transport=transport, pt=pt, keynames=kn, sigint_event=False, ops=ops,
                                           split="read_boundary")
    # sizes around the threshold, every prefix of requests
    for pt in (None, 0, 8, 100):
        th = pt if pt is not None else 8
        for n in sorted({1, 3, max(th - 1, 1), th, th + 1, th + 2, 1023, 1024, 1025}):
            for style in ("ascii", "mixed"):
                for transport in ("pipe", "pty"):
                    for nreq in (1, 2):
                        ops = [["bytes", hx(fill(n, style))]] + [_req(None if i == 0 else 0) for i in range(nreq)] + \
                              [["bytes", hx(fill(n, style, 5))], _req(SMALL)]
                        yield dict(suite="bursts", transport=transport, pt=pt, keynames="bytes", sigint_event=False, ops=ops)
    # a character split across two ARRIVALS with a request in between / without one (separately labelled)
    for pt in (None, 8):
        for tok in (UTF["e2"], UTF["e3"], UTF["e4"]):
            for j in range(1, len(tok)):
                for between in (False, True):
                    ops = [["bytes", hx(b"a" + tok[:j])]] + ([_req(0), _req(0)] if between else []) + [["bytes", hx(tok[j:] + b"b")], _req(SMALL)]
                    yield dict(suite="bursts", transport="pipe", pt=pt, keynames="bytes", sigint_event=False, ops=ops, split="arrival")


def random_case(seed):
    rng = random.Random(seed)
    transport = rng.choice(["pipe", "pipe", "pty"])
    pt = rng.choice([None, 0, 8, 100])
    sig = transport == "pty" and rng.random() < 0.5
    kn = rng.choice(["bytes", "bytes", "curtsies"])

    def some_bytes():
        r = rng.random()
        if r < 0.35:
            return ["bytes", hx(rng.choice(MIX))]
        if r < 0.6:
            return ["bytes", hx(fill(rng.choice([2, 3, 7, 8, 9, 10, 99, 100, 101, 102]), rng.choice(["ascii", "mixed"]), rng.randint(0, 12)))]
        if r < 0.8:
            tok = rng.choice(list(UTF.values()) + ESCS)
            j = rng.randint(1, len(tok) - 1)
            return ["burst", 1024 + rng.choice([1, 2, 30]) + len(tok), hx(tok), 1024 - j, rng.choice(["ascii", "mixed"])]
        tok = rng.choice(list(UTF.values()) + ESCS)
        j = rng.randint(1, len(tok) - 1)
        return ["burst", 2048 + rng.choice([0, 1, 5]) + len(tok), hx(tok), rng.choice([1024, 2048]) - j, rng.choice(["ascii", "mixed"])]

    def inj(during=False):
        r = rng.random()
        if r < 0.3:
            return some_bytes()
        if r < 0.4 and not during:
            return ["unget", hx(rng.choice([b"x", b"xy", UTF["e3"], b"\x1b[A", b"\x1b"]))]
        if r < 0.55:
            return ["ev", rng.randint(0, 1)]
        if r < 0.75:
            return ["ts", rng.randint(0, 1)]
        if r < 0.9 and not during:
            return ["sched", rng.randint(0, 1), rng.choice([-1.0, 0.0, 0.5, 0.5, 1.0, 2.0])]
        if sig:
            return ["sigint"]
        return ["ts", 0]

    ops = []
    for _ in range(rng.randint(2, 8)):
        r = rng.random()
        if r < 0.45:
            ops.append(inj())
        elif r < 0.52:
            ops.append(["adv", rng.choice([0.25, 1.0])])
        else:
            hooks = []
            if rng.random() < 0.4:
                hooks.append((rng.choice(["entry", "blocked"]), inj(during=True)))
                if rng.random() < 0.25:
                    hooks.append((rng.choice(["entry", "blocked"]), inj(during=True)))
            ops.append(_req(rng.choice([0, 0, SMALL, SMALL, None]), hooks))
    return dict(suite="random", transport=transport, pt=pt, keynames=kn, sigint_event=sig, ops=ops, seed=seed)


# ----------------------------------------------------------------------------------- batch runners
def _run_cases(cases):
    out = []
    n_req = 0
    for case in cases:
        try:
            fails, nr = run_history(case)
            n_req += nr
            for clause, detail, extra in fails:
                out.append(("fail", case, clause, detail, extra))
        except HarnessError as e:
            out.append(("harness", case, "", str(e), {}))
        except BaseException as e:         # noqa: BLE001 - a crash of the rig must never pass silently
            out.append(("harness", case, "", f"rig crashed: {type(e).__name__}: {e}", {}))
    return len(cases), n_req, out


def _batch_small(args):
    tier, lo, hi = args
    return _run_cases(list(itertools.islice(small_cases(tier), lo, hi)))


def _batch_list(cases):
    return _run_cases(cases)


def _batch_random(args):
    lo, hi = args
    return _run_cases([random_case(s) for s in range(lo, hi)])


def _batch_thread(case):
    try:
        return case, run_thread_case(case), None
    except BaseException as e:     # noqa: BLE001
        return case, "", f"{type(e).__name__}: {e}"


def _inputs(case, extra):
    d = {k: v for k, v in case.items() if k != "ops"}
    d["ops"] = case["ops"]
    d.update(extra)
    return d


def _collect(s, check, results, clause_prefix=""):
    for n, n_req, out in results:
        s.evaluations += n
        for kind, case, clause, detail, extra in out:
            if kind == "harness":
                check.engine_error(f"{s.name}: {detail} | case {str(case)[:300]}")
            else:
                s.fail(clause, _inputs(case, extra), detail, replay={"kind": "suite", "module": "props.C08", "case": case})


def _chunks(n, parts):
    step = max(1, -(-n // parts))
    return [(lo, min(lo + step, n)) for lo in range(0, n, step)]


def deductive(check, tier):
    """the one sequential piece of the statement that a contract can carry: the byte accounting of Input._send.find_key (every buffered
    byte is consumed exactly once and in order, or the buffer is empty, or nothing is recognised - contracts/findkey.py).  Queues,
    clocks, select and threads stay with the bounded histories."""
    import contracts.findkey as FK
    import props.C03 as C03
    from pyvc.verify import verify
    FK.find_key.probe = C03.find_key_probe
    verify(FK.find_key, tier, check, prefix="C08")
    for c in FK.WRITERS:
        c.probe = C03.writers_probe
        verify(c, tier, check, prefix="C08")
    check.assume("deductive sub-result: Input._send.find_key's byte accounting for every buffer (the decoder as an uninterpreted function "
                 "of the bytes taken so far and `full`); everything else of C08 (queues, time, select, threads) is bounded only")


def run(check, tier, seed):
    deductive(check, tier)
    # (1) exhaustive small histories
    n_small = sum(1 for _ in small_cases(tier))
    maxlen = 4 if tier == "thorough" else 3
    s = Suite(check, "C08.small", f"every history of <= {maxlen} operations over 19 operations (arrivals of 1 byte / a 3-byte character / an "
              "escape sequence / paste_threshold+1 and -1 bytes, unget_bytes, two event_trigger callbacks, a threadsafe_event_trigger callback, "
              "scheduled callbacks in the past / future / two triggers with EQUAL times, clock advance, requests with timeout 0 / 0.25 / None, "
              "a thread-safe callback fired between the queue check and the wait and while the request is blocked, bytes arriving while a "
              "request without time-out is blocked) x paste_threshold None/0/8/100, each followed by a drain; real pipe, simulated clock; "
              "oracle = reference queue model of the statement", bound=f"<= {maxlen} operations + drain")
    _collect(s, check, pmap(_batch_small, [(tier, lo, hi) for lo, hi in _chunks(n_small, 56)]))
    s.nontrivial = set(range(s.evaluations))
    s.samples = list(itertools.islice(small_cases(tier), 5000, 5002))
    s.done()

    # (2) bursts around the read size and the paste threshold
    bc = list(burst_cases(tier))
    s = Suite(check, "C08.bursts", "bursts of 2*READ_SIZE+k bytes (k=0,1,5) in which every multi-byte character (2,3,4 bytes) and escape "
              "sequence (3-6 bytes) straddles the 1024- or 2048-byte read boundary at every inner offset, alone / after unget_bytes / after an "
              "earlier unread arrival, over pipe and pty, BYTES and CURTSIES key names; arrivals of 1, 3, threshold-1..+2, 1023..1025 bytes; "
              "a character split across two arrivals (labelled split='arrival'); x paste_threshold None/0/8/100",
              bound="one or two arrivals, <= 2058 bytes")
    per = max(1, len(bc) // 42)
    _collect(s, check, pmap(_batch_list, [bc[i:i + per] for i in range(0, len(bc), per)]))
    s.nontrivial = set(range(s.evaluations))
    s.samples = bc[:2]
    s.done()

    # (2b) keys typed before the Input is entered / while the program has left it for a moment
    tc = list(typeahead_cases())
    s = Suite(check, "C08.typeahead", "keys typed on the (cooked) pty BEFORE the Input is entered and between leaving and re-entering it "
              "(1, 2, 3, 4 and 12 printable bytes / an arrow key; with and without keys already buffered by an earlier request), then "
              "requests and a drain: every such byte is returned exactly once, in order", bound=f"{len(tc)} histories")
    _collect(s, check, pmap(_batch_list, [tc[i::8] for i in range(8)]))
    s.nontrivial = set(range(s.evaluations))
    s.samples = tc[:2]
    s.done()

    # (2c) requests woken by something that does not end them
    wc = list(wakeup_cases())
    s = Suite(check, "C08.wakeups", "a timed request (0.25 / 1 / 8 s) on a pty woken 1, 2 or 3 times by a signal other than SIGINT (SIGWINCH with a "
              "Python handler: its number arrives on the wake-up descriptor) at half of each remaining wait, then ended by the time-out, a "
              "thread-safe callback, a key or a SIGINT; with a scheduled event pending before / after the time-out; two signals in one wait; "
              "signals between requests; sigint_event on (wake-up descriptor installed) and off: None never before the time-out, everything "
              "else as in the reference model", bound=f"{len(wc)} histories")
    _collect(s, check, pmap(_batch_list, [wc[i::8] for i in range(8)]))
    s.nontrivial = set(range(s.evaluations))
    s.samples = wc[:2]
    s.done()

    # (3) seeded random histories
    n = 300000 if tier == "thorough" else 6000
    base = 1 + seed * 1000003
    s = Suite(check, "C08.random", f"{n} seeded random histories of 2..8 operations (all of the above plus SIGINT delivered between and "
              "during requests on a pty with sigint_event, bursts straddling the read size, two triggers of every kind, one or two "
              "injections per request at the entry of / inside the wait), pipe and pty, BYTES and CURTSIES key names; seeds derive from "
              "VERIF_SEED", bound="<= 8 operations + drain", exhaustive=False)
    _collect(s, check, pmap(_batch_random, [(base + lo, base + hi) for lo, hi in _chunks(n, 56)]))
    s.nontrivial = set(range(s.evaluations))
    s.samples = [random_case(base), random_case(base + 1)]
    s.done()

    # (4) a few REAL two-thread runs (kept few and with wide margins so that the check stays deterministic)
    s = Suite(check, "C08.threads", "REAL threads and clock: a threadsafe_event_trigger callback (instant and 0.2 s event factory) / a byte "
              "arrival / os.kill(SIGINT) fired from another thread 0.3 s into a request blocked with timeout 2 s or None must come back "
              "within 1.6 s, exactly once; callbacks fired before the request; two callbacks during consecutive requests",
              bound=f"{len(THREAD_CASES)} scenarios", exhaustive=False)
    for case, d, crash in pmap(_batch_thread, THREAD_CASES):
        s.case(tuple(sorted(case.items())), sample=case)
        if crash:
            check.engine_error(f"C08.threads: {crash} | case {case}")
        elif d:
            s.fail("C08.threads", dict(case), d, replay={"kind": "suite", "module": "props.C08", "case": case})
    s.done()
