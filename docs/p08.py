import os, signal, time, termios, fcntl, sys
from curtsies.input import Input
from curtsies import events
m,s=os.openpty()
ins=os.fdopen(s,'r')
class SE(events.ScheduledEvent): pass
class E(events.Event):
    def __init__(self, n=0): self.n=n
    def __repr__(self): return 'E%d'%self.n
def nfds(): return len(os.listdir('/proc/self/fd'))
# 1 equal scheduled times
with Input(ins) as inp:
    cb=inp.scheduled_event_trigger(SE)
    t=time.time()-1
    cb(t); cb(t)
    try: print('sched', inp.send(0), inp.send(0))
    except Exception as e: print('SCHED EXC', repr(e))
# 2 wakeup fd restore
r,w=os.pipe(); os.set_blocking(w,False)
signal.set_wakeup_fd(w)
with Input(ins) as inp: pass
old=signal.set_wakeup_fd(-1)
print('wakeup fd before', w, 'after', old)
# nested
with Input(ins) as a:
    with Input(ins) as b: pass
    cur=signal.set_wakeup_fd(-1); print('outer wakeup after inner exit', cur, 'outer expects', a.wakeup_write_fd)
# 3 fd leak
n0=nfds()
for i in range(5):
    with Input(ins) as inp:
        cb=inp.threadsafe_event_trigger(E)
print('fd growth with threadsafe trigger per cycle', nfds()-n0)
n0=nfds()
for i in range(5):
    with Input(ins) as inp: inp.send(0)
print('fd growth plain', nfds()-n0)
# ordering: bytes buffered + event queued
with Input(ins) as inp:
    os.write(m,b'ab'); 
    print(inp.send(1)); 
    cb=inp.event_trigger(E); cb(n=1)
    print(inp.send(0), inp.send(0), inp.send(0))
# tty attrs restore incl. exception
a0=termios.tcgetattr(ins)
try:
    with Input(ins, sigint_event=True, disable_terminal_start_stop=True) as inp:
        raise RuntimeError
except RuntimeError: pass
print('attrs restored', termios.tcgetattr(ins)==a0, 'sigint', signal.getsignal(signal.SIGINT))
# paste
with Input(ins) as inp:
    os.write(m, ('é'*20).encode()+b'\x1b[A'+b'xyz'); time.sleep(.05)
    print(inp.send(1))
# utf8 ESC + é
import locale; print(locale.getpreferredencoding())
with Input(ins) as inp:
    os.write(m, b'\x1b'+'é'.encode()); time.sleep(.05)
    try: print(repr(inp.send(1)), repr(inp.send(0)))
    except Exception as e: print('EXC', repr(e), inp.unprocessed_bytes)
