from common import *
import collections, io, pyte
from curtsies.window import FullscreenWindow
from curtsies.formatstringarray import FSArray, fsarray
fails = collections.Counter(); ex = {}
def rec(kind, msg):
    fails[kind]+=1; ex.setdefault(kind, msg)
rng=random.Random(17)
class Out(io.StringIO):
    def fileno(self): return 1
def mkwin(H,Wd,hide=True):
    out=Out()
    w=FullscreenWindow(out_stream=out, hide_cursor=hide)
    w.__class__=type('W',(FullscreenWindow,),{'height':property(lambda s: s._H),'width':property(lambda s:s._W)})
    w._H=H; w._W=Wd
    return w,out
def screen_cells(scr):
    g=[]
    for y in range(scr.lines):
        row=[]
        for x in range(scr.columns):
            ch=scr.buffer[y][x]
            a=[]
            if ch.fg!='default': a.append(('fg',ch.fg))
            if ch.bg!='default': a.append(('bg',ch.bg))
            for k,n in [('bold','bold'),('italics','italic'),('underscore','underline'),('reverse','invert'),('blink','blink')]:
                if getattr(ch,k): a.append((n,True))
            row.append((ch.data,tuple(sorted(a))))
        g.append(row)
    return g
names={v:k for k,v in FG_COLORS.items()}
bnames={v:k for k,v in BG_COLORS.items()}
def exp_cell(c,a):
    out=[]
    for k,v in a:
        if k=='fg': out.append(('fg',{'gray':'white','yellow':'brown'}.get(names[v],names[v])))
        elif k=='bg': out.append(('bg',{'gray':'white','yellow':'brown'}.get(bnames[v],bnames[v])))
        elif k=='dark': pass
        else: out.append((k,True))
    return (c,tuple(sorted(out)))
def rrow(n):
    chunks=[]; left=n
    while left>0:
        l=rng.randint(1,left); d=rand_atts(rng); d.pop('dark',None)
        chunks.append(Chunk(''.join(rng.choice('xyz') for _ in range(l)), d)); left-=l
    return FmtStr(*chunks) if chunks else fmtstr('')
for it in range(4000):
    H=rng.randint(1,4); Wd=rng.randint(1,5)
    w,out=mkwin(H,Wd, hide=rng.random()<.5)
    scr=pyte.Screen(Wd,H); st=pyte.Stream(scr)
    hist=[]
    with w:
        for step in range(rng.randint(1,4)):
            if rng.random()<.2:
                # resize + junk
                H=rng.randint(1,4); Wd=rng.randint(1,5)
                if (H,Wd)==(w._H,w._W): continue
                w._H=H; w._W=Wd
                st.feed(out.getvalue()); out.seek(0); out.truncate()
                scr.resize(H,Wd)
                for y in range(H):
                    for x in range(Wd):
                        scr.cursor_position(y+1,x+1); scr.draw('#')
                hist.append(('resize',H,Wd)); continue
            maxh=H+1 if rng.random()<.2 else H
            maxw=Wd+1 if rng.random()<.2 else Wd
            nrows=rng.randint(0,maxh)
            rows=[rrow(rng.randint(0,maxw)) for _ in range(nrows)]
            cur=(rng.randint(0,H-1),rng.randint(0,Wd-1))
            hist.append(('render',[r.chunks for r in rows],cur))
            w.render_to_terminal(rows,cur)
            st.feed(out.getvalue()); out.seek(0); out.truncate()
            got=screen_cells(scr)
            exp=[[(' ',())]*Wd for _ in range(H)]
            for y,r in enumerate(rows[:H]):
                for x,(c,a) in enumerate(cells(r)[:Wd]): exp[y][x]=exp_cell(c,a)
            over = 'tall' if nrows>H else ('wide' if any(len(r)>Wd for r in rows) else 'fits')
            if got!=exp: rec(('screen',over),(H,Wd,hist,[''.join(c[0] for c in r) for r in got],[''.join(c[0] for c in r) for r in exp])); break
            if (scr.cursor.y,scr.cursor.x)!=cur: rec(('cursor',over),(H,Wd,hist,(scr.cursor.y,scr.cursor.x))); break
for k,v in sorted(fails.items(), key=str): print(k, v, str(ex[k])[:900])
print('----')
H,Wd=1,4
w,out=mkwin(H,Wd); scr=pyte.Screen(Wd,H); st=pyte.Stream(scr)
with w:
    w.render_to_terminal([FmtStr(Chunk('yy', {'bg': 40, 'fg': 36, 'italic': True}))],(0,0)); print(repr(out.getvalue()))
    st.feed(out.getvalue()); out.seek(0); out.truncate(); print(screen_cells(scr))
    w.render_to_terminal([FmtStr(Chunk('xy', {'bg': 46, 'fg': 33, 'underline': False}))],(0,3)); print(repr(out.getvalue()))
    st.feed(out.getvalue()); print(screen_cells(scr))
