from common import *
import collections, io, pyte, os, sys
from curtsies.window import CursorAwareWindow
fails = collections.Counter(); ex = {}
def rec(kind, msg):
    fails[kind]+=1; ex.setdefault(kind, msg)
rng=random.Random(19)
class Out(io.StringIO):
    def fileno(self): return 1
master,slave=os.openpty()
instream=os.fdopen(slave,'r',buffering=1)
def text_rows(scr): return [''.join(scr.buffer[y][x].data for x in range(scr.columns)).rstrip() for y in range(scr.lines)]
def hist_rows(scr): return [''.join(l[x].data for x in range(scr.columns)).rstrip() for l in scr.history.top]
N=0
for it in range(3000):
    H=rng.randint(1,5); Wd=rng.randint(2,5)
    scr=pyte.HistoryScreen(Wd,H,history=1000,ratio=.001); st=pyte.Stream(scr)
    scr.set_mode(pyte.modes.LNM)
    pre=rng.randint(0,H+3)
    prelines=[('p%d'%i)[:Wd] for i in range(pre)]
    for l in prelines: st.feed(l+'\n')
    all_before=hist_rows(scr)+text_rows(scr)[:scr.cursor.y]
    out=Out()
    keep=rng.random()<.3; hide=rng.random()<.5
    w=CursorAwareWindow(out_stream=out,in_stream=instream,keep_last_line=keep,hide_cursor=hide)
    w.t.__class__=type('T',(w.t.__class__,),{'height':property(lambda s:H),'width':property(lambda s:Wd)})
    os.write(master,('\x1b[%d;%dR'%(scr.cursor.y+1,scr.cursor.x+1)).encode())
    hist=[('pre',pre)]
    with w:
        T=w.top_usable_row
        if T!=scr.cursor.y: rec('enter-top',(H,Wd,hist))
        above=list(all_before)   # lines above the window (scrollback + screen rows < T)
        for step in range(rng.randint(1,4)):
            n=rng.randint(0,H+2)
            rows=[fmtstr(('r%d%d'%(step,i))[:rng.randint(0,Wd)]) for i in range(n)]
            cur=(rng.randint(0,max(0,n-1)),rng.randint(0,Wd-1))
            hist.append(('render',[r.s for r in rows],cur,'T=%d'%T))
            ret=w.render_to_terminal(rows,cur)
            st.feed(out.getvalue()); out.seek(0); out.truncate(); N+=1
            s=max(0,n-(H-T)); T2=max(0,T-s); off=max(0,s-T)
            if ret!=off: rec('ret',(H,Wd,hist,ret,off)); break
            if w.top_usable_row!=T2: rec('top',(H,Wd,hist,w.top_usable_row,T2)); break
            total=above+[r.s for r in rows]
            # screen should show: rows 0..T2-1 = last T2 of above ; then array rows from off
            exp_screen=(above[len(above)-T2:] if T2 else [])+[r.s for r in rows][off:]
            exp_screen=exp_screen+['']*(H-len(exp_screen))
            got=text_rows(scr)
            if got!=exp_screen: rec(('screen','scroll' if s else 'noscroll'),(H,Wd,hist,got,exp_screen)); break
            exp_hist=above[:len(above)-T2]+[r.s for r in rows][:off]
            gh=hist_rows(scr)
            if gh!=exp_hist[-len(gh):] if gh else (len(exp_hist)!=0 and False): rec('history',(H,Wd,hist,gh,exp_hist)); break
            expcur=(max(0,cur[0]-off+T2),cur[1])
            if (scr.cursor.y,scr.cursor.x)!=expcur: rec(('cursor','scroll' if s else 'noscroll'),(H,Wd,hist,(scr.cursor.y,scr.cursor.x),expcur)); break
            # array rows pushed off go to scrollback: become part of 'above' permanently
            above=above+[r.s for r in rows][:off]
            T=T2
    st.feed(out.getvalue())
print(N)
for k,v in sorted(fails.items(), key=str): print(k, v, str(ex[k])[:900])
