import itertools, random, re
from curtsies.formatstring import FmtStr, Chunk, fmtstr, normalize_slice, linesplit, width_aware_slice, interval_overlap
from curtsies.termformatconstants import FG_COLORS, BG_COLORS, STYLES
STY = list(STYLES)
def norm(atts):
    return tuple(sorted((k, v) for k, v in atts.items() if v is not False and (k in STYLES or k in ('fg','bg'))))
def cells(f):
    if isinstance(f, str): return [(c, ()) for c in f]
    out = []
    for ch in f.chunks:
        a = norm(ch.atts)
        out.extend((c, a) for c in ch.s)
    return out
def sgr_interp(s):
    """independent: returns (cells, final_state, only_sgr)"""
    fg = bg = None; sty = set(); out = []; i = 0; ok = True
    while i < len(s):
        if s[i] == '\x1b':
            m = re.compile(r'\x1b\[([0-9;]*)m').match(s, i)
            if not m: ok = False; i += 1; continue
            ps = m.group(1).split(';') if m.group(1) else ['0']
            for p in ps:
                p = int(p) if p else 0
                if p == 0: fg = bg = None; sty = set()
                elif p in (1,2,3,4,5,7): sty.add({1:'bold',2:'dark',3:'italic',4:'underline',5:'blink',7:'invert'}[p])
                elif 30 <= p <= 37: fg = p
                elif p == 39: fg = None
                elif 40 <= p <= 47: bg = p
                elif p == 49: bg = None
                else: ok = False
            i = m.end()
        else:
            a = []
            if bg is not None: a.append(('bg', bg))
            if fg is not None: a.append(('fg', fg))
            a += [(k, True) for k in sty]
            out.append((s[i], tuple(sorted(a)))); i += 1
    return out, (fg, bg, frozenset(sty)), ok
def all_atts(vals=(None, True, False)):
    for fg in [None] + list(FG_COLORS.values()):
        for bg in [None] + list(BG_COLORS.values()):
            for st in itertools.product(vals, repeat=6):
                d = {}
                if fg: d['fg'] = fg
                if bg: d['bg'] = bg
                for k, v in zip(STY, st):
                    if v is not None: d[k] = v
                yield d
def rand_atts(rng):
    d = {}
    if rng.random() < .5: d['fg'] = rng.choice(list(FG_COLORS.values()))
    if rng.random() < .5: d['bg'] = rng.choice(list(BG_COLORS.values()))
    for k in STY:
        r = rng.random()
        if r < .2: d[k] = True
        elif r < .3: d[k] = False
    return d
def rand_fs(rng, alphabet='ab \n', maxchunks=4, maxlen=3):
    return FmtStr(*[Chunk(''.join(rng.choice(alphabet) for _ in range(rng.randint(0, maxlen))), rand_atts(rng)) for _ in range(rng.randint(0, maxchunks))])
