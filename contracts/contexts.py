"""C12: leaving any curtsies context restores terminal, tty and signal state.
For each context manager the REAL __enter__ body and then the REAL __exit__ body are executed from an arbitrary symbolic OS
state and an arbitrary object state (protocol run); the postcondition is that every component of the ghost OS state equals
its value before entering.  _nonblocking_read and send are verified on every exit (normal, BlockingIOError, other OSError,
exceptions escaping _send)."""
import z3
from pyvc import terms as T
from pyvc.spec import And, Or, Not, Implies, If
from pyvc.contract import Contract, Shape, IntT, BoolT, ConstT, ObjT, TypeSpec, NoneT
from pyvc.values import Sym, AbsV, ObjV, Ref, fresh
import contracts.osmodel as OSM
from contracts.osmodel import init_os, same, OS_KEYS

ALL = ("os.tty", "os.flags", "os.sigint", "os.wakeup", "os.fds", "os.cursor", "os.alt", "os.main_dirty")


class AbsT(TypeSpec):
    def __init__(self, kind="opaque"):
        self.kind = kind

    def fresh(self, name, st):
        return st.alloc(AbsV(fresh(name, T.I), kind=self.kind))


class AnyT(TypeSpec):
    """an arbitrary value that is not None (a handler, an old attribute list ...)"""

    def fresh(self, name, st):
        return Sym("int", fresh(name, T.I))


STREAM = ObjT("Stream", {})


def all_restored(a, r):
    st = a.final_state
    entry = st.ghost["os.entry"]
    out = []
    if a.outcome[0] != "return":
        out.append(("no_exception_escapes", False))
    for k in ALL:
        out.append((f"restored.{k.split('.')[1]}", same(st.ghost[k], entry[k])))
    return out


def _setup(st, values):
    init_os(st)


def protocol(key, cls, fields, shapes_over=None, inline=None, doc=""):
    """enter-then-exit protocol contract for context manager class `cls`"""
    shapes = []
    for name, extra in (shapes_over or [("any", {})]):
        f = dict(fields)
        f.update(extra)
        shapes.append(Shape(name, dict(self=ObjT(cls, f))))
    c = Contract(key + "#protocol", "C12", ["self"], kind="method", shapes=shapes, ensures=all_restored, doc=doc)
    c.then = [f"{cls}.__exit__"]
    c.setup = _setup
    c.inline = inline or {}
    return c


TH = "termhelpers:"
nonblocking = protocol(TH + "Nonblocking.__enter__", "Nonblocking", dict(stream=STREAM, fd=IntT(), orig_fl=IntT()))
termmode = protocol(TH + "Termmode.__enter__", "Termmode", dict(stream=STREAM, attrs=AbsT("attrs"), original_stty=AbsT("old attrs")))
cbreak = protocol(TH + "Cbreak.__enter__", "Cbreak", dict(stream=STREAM, original_stty=AbsT("old attrs")), inline={"Termmode": "termhelpers:Termmode"})

IN = "input:"
replaced_sigint = protocol(IN + "ReplacedSigIntHandler.__enter__", "ReplacedSigIntHandler", dict(handler=AnyT(), orig_sigint_handler=AnyT()))

_BOOLS = [(f"sig{int(s)}_stop{int(d)}_{w}", dict(sigint_event=s, disable_terminal_start_stop=d,
                                               wakeup_read_fd=(None if w == "fresh" else IntT()), wakeup_write_fd=(None if w == "fresh" else IntT())))
          for s in (False, True) for d in (False, True) for w in ("fresh", "reused")]
input_ctx = protocol(IN + "Input.__enter__", "Input",
                     dict(in_stream=STREAM, original_stty=AbsT("old attrs"), orig_sigint_handler=AnyT(), prev_wakeup_fd=IntT()), shapes_over=_BOOLS,
                     doc="Input object in an arbitrary state: fresh (wake-up fds None) or used before (stale fds)")
input_ctx.callees = {"is_main_thread": "ext:input.is_main_thread"}


# ---------------------------------------------------------------------------------------------- Input._nonblocking_read / send
def _flags_kept(a, r):
    st = a.final_state
    e = st.ghost["os.entry"]
    return [(f"on_every_exit.{k.split('.')[1]}", same(st.ghost[k], e[k])) for k in ("os.flags", "os.tty", "os.sigint", "os.wakeup")]


nonblocking_read = Contract(
    IN + "Input._nonblocking_read", "C12", ["self"], kind="method",
    shapes=[Shape("any", dict(self=ObjT("Input", dict(in_stream=STREAM, unprocessed_bytes=AbsT("byte buffer")))))],
    raises={"OSError": "may"}, ensures=_flags_kept)
nonblocking_read.setup = _setup
nonblocking_read.inline = {"Nonblocking": "termhelpers:Nonblocking"}

# _send as a callee: may return anything or let any exception escape; by nonblocking_read's contract it leaves the flags alone
_send = Contract(IN + "Input._send", "C12", ["self", "timeout"], kind="method", shapes=[], result=lambda a, st: Sym("int", fresh("event", T.I)),
                 raises={"OSError": "may", "KeyboardInterrupt": "may", "ValueError": "may"},
                 doc="ASSUMED here (C08 decides its behaviour): returns or raises, without touching the SIGINT handler itself")
_send.assumed = True

send = Contract(
    IN + "Input.send", "C12", ["self", "timeout"], kind="method", defaults={"timeout": None},
    shapes=[Shape(f"sigint_event_{b}", dict(self=ObjT("Input", dict(sigint_event=b)), timeout=NoneT)) for b in (False, True)],
    raises={"OSError": "may", "KeyboardInterrupt": "may", "ValueError": "may"}, ensures=_flags_kept,
    callees={"is_main_thread": "ext:input.is_main_thread"})
send.setup = _setup
send.inline = {"ReplacedSigIntHandler": "input:ReplacedSigIntHandler"}


# ---------------------------------------------------------------------------------------------- windows
WN = "window:"


def _term_obj():
    return ObjT("BlessedTerminal", dict(hide_cursor=OSM.HIDE, normal_cursor=OSM.NORMAL))


window_write = OSM.window_write

# blessed's Terminal.fullscreen() context manager (assumed): writes enter_fullscreen / exit_fullscreen
fs_enter = Contract("ext:FullscreenCtx.__enter__", "C12", ["self"], shapes=[], doc="ASSUMED blessed: writes enter_fullscreen")
fs_enter.effect = lambda a, st, res: OSM.feed(st, OSM.ENTER_FS)
fs_exit = Contract("ext:FullscreenCtx.__exit__", "C12", ["self", "t", "v", "tb"], shapes=[], doc="ASSUMED blessed: writes exit_fullscreen")
fs_exit.effect = lambda a, st, res: OSM.feed(st, OSM.EXIT_FS)


def _win_restored(a, r):
    st = a.final_state
    e = st.ghost["os.entry"]
    out = []
    if a.outcome[0] != "return":
        out.append(("no_exception_escapes", False))
    hide = a.self.hide_cursor
    # the cursor is visible again (if the window hid it; a window that never hides it leaves it as it was)
    out.append(("cursor_visible_again", same(st.ghost["os.cursor"], True) if hide is True else same(st.ghost["os.cursor"], e["os.cursor"])))
    out.append(("alternate_screen_left", same(st.ghost["os.alt"], e["os.alt"])))
    out.append(("main_screen_untouched", same(st.ghost["os.main_dirty"], e["os.main_dirty"])))
    for k in ("os.tty", "os.flags", "os.sigint", "os.wakeup", "os.fds"):
        out.append((f"restored.{k.split('.')[1]}", same(st.ghost[k], e[k])))
    return out


def _win_protocol(key, cls, fields):
    shapes = [Shape(f"hide_cursor_{h}", dict(self=ObjT(cls, dict(fields, hide_cursor=h, t=_term_obj())))) for h in (True, False)]
    c = Contract(key + "#protocol", "C12", ["self"], kind="method", shapes=shapes, ensures=_win_restored)
    c.then = [f"{cls}.__exit__"]
    c.setup = lambda st, values: (init_os(st), st.ghost.__setitem__("os.alt", z3.BoolVal(False)), st.ghost["os.entry"].__setitem__("os.alt", z3.BoolVal(False)))
    return c


base_window = _win_protocol(WN + "BaseWindow.__enter__", "BaseWindow", {})
# callee forms used by FullscreenWindow's super() calls: the real bodies again (inlined through their AST)
fullscreen_window = _win_protocol(WN + "FullscreenWindow.__enter__", "FullscreenWindow", dict(fullscreen_ctx=ObjT("FullscreenCtx", {})))

# blessed capabilities that take arguments (assumed: they only produce text for the terminal)
for _cap in ("move_x", "move", "move_down", "clear_eos", "clear_eol"):
    Contract("ext:BlessedTerminal." + _cap, "C12", ["self", "*args"], shapes=[], result=lambda a, st: __import__("pyvc.values", fromlist=["OpaqueV"]).OpaqueV("capability text"))


def _caw_term():
    return ObjT("BlessedTerminal", dict(hide_cursor=OSM.HIDE, normal_cursor=OSM.NORMAL, move_down="\n", clear_eos="\x1b[J", clear_eol="\x1b[K"))


def _caw_restored(a, r):
    st = a.final_state
    e = st.ghost["os.entry"]
    out = []
    if a.outcome[0] != "return":
        out.append(("no_exception_escapes", False))
    hide = a.self.hide_cursor
    out.append(("cursor_visible_again", same(st.ghost["os.cursor"], True) if hide is True else same(st.ghost["os.cursor"], e["os.cursor"])))
    out.append(("alternate_screen_not_entered", same(st.ghost["os.alt"], e["os.alt"])))
    for k in ("os.tty", "os.flags", "os.sigint", "os.wakeup", "os.fds"):
        out.append((f"restored.{k.split('.')[1]}", same(st.ghost[k], e[k])))
    return out


import contracts.window  # noqa: F401  (assumed contract of get_cursor_position)
cursor_aware_window = Contract(
    WN + "CursorAwareWindow.__enter__#protocol", "C12", ["self"], kind="method",
    shapes=[Shape(f"hide{int(h)}_keep{int(k)}", dict(self=ObjT("CursorAwareWindow", dict(
        hide_cursor=h, keep_last_line=k, _use_blessed=False, in_stream=STREAM, t=_caw_term(), cbreak=ConstT(None), top_usable_row=IntT(),
        _orig_top_usable_row=IntT(), another_sigwinch=BoolT(), in_get_cursor_diff=False, ghost_reported_row=0, ghost_moved=IntT(), ghost_queries=IntT(0)))))
            for h in (True, False) for k in (True, False)],
    ensures=_caw_restored)
cursor_aware_window.then = ["CursorAwareWindow.__exit__"]
cursor_aware_window.setup = _setup
cursor_aware_window.inline = {"Cbreak": "termhelpers:Cbreak", "Termmode": "termhelpers:Termmode"}

PROTOCOLS = [cursor_aware_window, nonblocking, termmode, cbreak, replaced_sigint, input_ctx, nonblocking_read, send, base_window, fullscreen_window]
