"""C05: escseqparse.token_type - SGR numbers -> attribute updates.
For command 'm' and a parameter list of integers the returned updates, applied in order to a format state, must equal
what the reference SGR interpreter (spec/sgr.py, ECMA-48) does with those parameters; ValueError iff no parameter is
supported.  Decided (a) for a one-element list with a SYMBOLIC integer (all integers), (b) for every pair of
representatives (each supported code and one unsupported) - a complete finite split given (a), (c) the empty list."""
import z3
from pyvc import terms as T
from pyvc.contract import Contract, Shape, TypeSpec, IntT, ConstT
from pyvc.values import Sym, DictV, ListV, fresh
from spec import sgr

M = "escseqparse:"
SUPPORTED = [0, 1, 2, 3, 4, 5, 7] + list(range(30, 38)) + [39] + list(range(40, 48)) + [49]
COLORNAME = dict(zip(range(30, 38), ("black", "red", "green", "yellow", "blue", "magenta", "cyan", "gray")))


def expected_updates(v):
    """what one SGR parameter does to the format, in token_type's vocabulary (from ECMA-48, not from the code)"""
    if v == 0:
        d = {k: None for k in sgr.STYLE_OF.values()}
        d.update(fg=None, bg=None)
        return [d]
    if v in sgr.STYLE_OF:
        return [{sgr.STYLE_OF[v]: True}]
    if 30 <= v <= 37:
        return [{"fg": COLORNAME[v]}]
    if v == 39:
        return [{"fg": None}]
    if 40 <= v <= 47:
        return [{"bg": COLORNAME[v - 10]}]
    if v == 49:
        return [{"bg": None}]
    return []


def fold(updates):
    st = {}
    for u in updates:
        st.update(u)
    return st


class InfoT(TypeSpec):
    """the token dict {'command': c, 'numbers': [...]} with symbolic or concrete numbers"""

    def __init__(self, command, numbers):
        self.command, self.numbers = command, numbers

    def fresh(self, name, st):
        nums = [Sym("int", fresh(f"{name}_n{i}", T.I)) if n is None else n for i, n in enumerate(self.numbers)]
        return st.alloc(DictV({"command": self.command, "numbers": st.alloc(ListV(items=nums)) if not isinstance(self.numbers, str) else self.numbers}))


def _plain(x):
    """result value (list of dicts of python constants) or None if not fully concrete"""
    if z3.is_expr(x) and z3.is_seq(x) and z3.simplify(z3.Length(x)).eq(z3.IntVal(0)):
        return []
    if not isinstance(x, list):
        return None
    out = []
    for d in x:
        if not isinstance(d, dict) or any(z3.is_expr(v) for v in d.values()):
            return None
        out.append(dict(d))
    return out


def _tt_ensures(a, r):
    nums = a.info["numbers"]
    nums = list(nums) if not isinstance(nums, str) else []
    got = _plain(r)
    if got is None:
        return [("post.updates", False)]
    vals = nums if nums else [0]
    if all(not z3.is_expr(v) for v in vals):
        exp = [u for v in vals for u in expected_updates(v)]
        return [("post.updates", got == exp)]
    # one symbolic parameter: on this path the result is concrete; it must be the expected one for whatever
    # integer the path allows
    (v,) = vals
    cases = [z3.Implies(v == k, z3.BoolVal(got == expected_updates(k))) for k in SUPPORTED]
    cases.append(z3.Implies(z3.And(*[v != k for k in SUPPORTED]), z3.BoolVal(got == [])))
    return [("post.updates.all_integers", z3.And(*cases))]


def _tt_raises(a):
    nums = a.info["numbers"]
    nums = list(nums) if not isinstance(nums, str) else []
    vals = nums if nums else [0]
    conds = []
    for v in vals:
        if z3.is_expr(v):
            conds.append(z3.And(*[v != k for k in SUPPORTED]))
        else:
            conds.append(v not in SUPPORTED)
    if all(isinstance(c, bool) for c in conds):
        return all(conds)
    return z3.And(*[z3.BoolVal(c) if isinstance(c, bool) else c for c in conds])


def token_type_contract(pairs=True):
    reps = SUPPORTED + [99]
    shapes = [Shape("empty", dict(info=InfoT("m", []))), Shape("one_symbolic", dict(info=InfoT("m", [None])))]
    if pairs:
        shapes += [Shape(f"pair_{x}_{y}", dict(info=InfoT("m", [x, y]))) for x in reps for y in reps]
    shapes += [Shape("cmd_H", dict(info=InfoT("H", [1, 1]))), Shape("cmd_A", dict(info=InfoT("A", [2])))]

    def ens(a, r):
        if a.info["command"] == "H":
            return [("post.H", _plain(r) == [{}])]
        if a.info["command"] != "m":
            return [("post.other_command", r is None)]
        return _tt_ensures(a, r)
    return Contract(M + "token_type", "C05", ["info"], shapes=shapes, ensures=ens,
                    raises={"ValueError": lambda a: _tt_raises(a) if a.info["command"] == "m" else False})
