"""C02 (tier 2): FullscreenWindow.render_to_terminal re-establishes "the screen equals the array" from ANY state that
satisfies the representation invariant, so the property holds after every render of every history (induction).

Ghost terminal (State.ghost): term.rows : Int -> Row (shows(line) | blank | junk | partial(line)), term.r / term.c cursor,
term.bad (a write outside the modelled protocol happened: text not at column 0, text longer than the width, ...).
Lines are identified with their terminal strings (FmtStr.__eq__ compares those, C19): a line is an Int identity with a
length LINELEN and a clipped version CLIPID(line, w).

Representation invariant Inv(w, T), assumed at entry and proved at exit:
   if the window's remembered size is the current size (H, W) then
     for every row r in the cache: 0 <= r < H and T.rows[r] displays cache[r] clipped to W (None = blank row), and
     the cache is empty or holds every row 0..H-1.
   (a resize changes the size and may leave arbitrary junk: then the size clause is false and nothing is assumed.)
Postcondition (the statement): every row r < H displays array[r] clipped to the width if r < len(array), else is blank; the
cursor is at cursor_pos; nothing was written outside the protocol (no wrap, no scroll: no line feed is ever written and all
cursor addresses are on the screen); Inv holds for the new cache.

ASSUMED (blessed/xterm, validated by the bounded suite against spec/terminal.py and pyte): t.move(r, c) addresses the cursor;
writing a line's string at column 0 overwrites len(line) cells and leaves the rest of the row; clear_eol blanks from the
cursor to the end of the row; clear_bol from the start of the row to the cursor; hide/normal cursor do not touch the cells.
The 1-line properties BaseWindow.height/width (return self.t.height/width) are modelled as fields."""
import z3
from pyvc import terms as T
from pyvc.terms import Row, LINELEN, CLIPID, displays
from pyvc.spec import And, Or, Not, Implies, If, Max, Min
from pyvc.contract import Contract, Shape, Loop, IntT, BoolT, ConstT, ObjT, TypeSpec
from pyvc.values import Sym, AbsSeq, SymDict, OpaqueV, Ref, fresh, mk_int
import contracts.osmodel as OSM

M = "window:"
ARR = z3.Function("ARRAYLINE", T.I, T.I)        # identity of the array's i-th row
ROWS = z3.ArraySort(T.I, Row)


class LineSeqT(TypeSpec):
    def fresh(self, name, st):
        n = fresh(name + "_len", T.I)
        st.assume(n >= 0)

        def elem(k):
            return Sym("line", ARR(k))
        return AbsSeq(n, elem)


class SymDictT(TypeSpec):
    def fresh(self, name, st):
        return st.alloc(SymDict(fresh(name + "_present", z3.ArraySort(T.I, T.B)), fresh(name + "_val", z3.ArraySort(T.I, T.I)),
                                fresh(name + "_nonempty", T.B)))


class PairT(TypeSpec):
    def fresh(self, name, st):
        return (Sym("int", fresh(name + "_row", T.I)), Sym("int", fresh(name + "_col", T.I)))


# blessed capabilities as structured tokens for the ghost terminal
Contract("ext:FsTerminal.move", "C02", ["self", "row", "col"], shapes=[], result=lambda a, st: ("move", a._raw["row"], a._raw["col"]))
fs_xform = Contract(M + "FullscreenWindow.fmtstr_to_stdout_xform", "C02", ["self"], kind="method", shapes=[],
                    result=lambda a, st: OpaqueV("for_stdout"), doc="ASSUMED: for_stdout(line) is str(line) (C01)")
fs_xform.assumed = True
CLEAR_EOL, CLEAR_BOL, HIDE, NORMAL = "\x1b[K", "\x1b[1K", "\x1b[?25l", "\x1b[?12l\x1b[?25h"


def _it(v):
    return v.t if isinstance(v, Sym) else z3.IntVal(v)


def term_write(a, st):
    """effect of window.write(msg) on the ghost terminal"""
    if "term.rows" not in st.ghost:
        return
    g = st.ghost
    msg = a._raw["msg"]
    rows, r, c, W, H = g["term.rows"], g["term.r"], g["term.c"], g["term.W"], g["term.H"]
    bad = g["term.bad"]
    # C07: the rows live on a tape that scrolling moves the screen along: screen row r is tape cell r + off (off = 0 for C02)
    off = g.get("term.off")
    tr = r if off is None else z3.simplify(r + off)
    st.add_index(tr)            # quantified facts about the rows are instantiated where the terminal is written
    if isinstance(msg, tuple) and msg and msg[0] == "move":
        nr, nc = _it(msg[1]), _it(msg[2])
        g["term.bad"] = z3.Or(bad, z3.Not(z3.And(nr >= 0, nr < H, nc >= 0, nc < W)))      # every address is on the screen
        g["term.r"], g["term.c"] = nr, nc
        return
    if isinstance(msg, tuple) and msg and msg[0] == "text":
        l = msg[1].t
        L = LINELEN(l)
        st.fact(L >= 0)
        g["term.bad"] = z3.Or(bad, c != 0, L > W)                # text is only ever written from column 0 and never past the margin
        # a full-width line, or a line written onto a blank row, leaves exactly that line on the row
        old_row = z3.Select(rows, tr)
        g["term.rows"] = z3.Store(rows, tr, z3.If(z3.Or(L == W, old_row == Row.blank), Row.shows(l), Row.partial(l)))
        g["term.c"] = L
        return
    if msg == CLEAR_EOL:
        cur = z3.Select(rows, tr)
        # erasing from column 0 blanks the whole row; after a line written from column 0 it completes "shows(line)"
        new = z3.If(c == 0, Row.blank,
                    z3.If(z3.And(Row.is_partial(cur), c == LINELEN(Row.pline(cur))), Row.shows(Row.pline(cur)),
                          z3.If(z3.Or(Row.is_blank(cur), z3.And(Row.is_shows(cur), c >= LINELEN(Row.line(cur)))), cur, Row.junk)))
        g["term.rows"] = z3.Store(rows, tr, new)
        return
    if msg == CLEAR_BOL:
        cur = z3.Select(rows, tr)
        g["term.rows"] = z3.Store(rows, tr, z3.If(z3.And(c == 0, Row.is_blank(cur)), Row.blank, Row.junk))
        return
    if msg in (HIDE, NORMAL):
        return
    g["term.bad"] = z3.BoolVal(True)        # anything else (a line feed, unknown text) is outside the protocol


OSM.WRITE_HOOKS.append(term_write)


def _win():
    return ObjT("FullscreenWindow", dict(
        hide_cursor=BoolT(), height=IntT(1), width=IntT(1), _last_rendered_height=IntT(), _last_rendered_width=IntT(),
        _last_lines_by_row=SymDictT(),
        t=ObjT("FsTerminal", dict(hide_cursor=HIDE, normal_cursor=NORMAL, clear_eol=CLEAR_EOL, clear_bol=CLEAR_BOL))))


def _setup(st, values):
    g = st.ghost
    g["term.rows"] = fresh("ROWS0", ROWS)
    g["term.r"], g["term.c"] = fresh("CUR_R0", T.I), fresh("CUR_C0", T.I)
    g["term.bad"] = z3.BoolVal(False)
    o = st.deref(values["self"])
    g["term.H"], g["term.W"] = o.fields["height"].t, o.fields["width"].t
    g["term.rows0"] = g["term.rows"]


def _sd(x):
    """spec view of a dict value: a concrete empty dict is the everywhere-absent symbolic dict"""
    if isinstance(x, dict):
        if x:
            raise AttributeError("non-empty concrete dict in a symbolic-dict invariant")
        from pyvc.contract import NS
        return NS(dict(present=z3.K(T.I, z3.BoolVal(False)), val=z3.K(T.I, z3.IntVal(-1)), nonempty=z3.BoolVal(False)))
    return x


def cache_inv(cache, rows, H, W, same_size):
    """Inv as ground part + quantified parts (closures over a row index)"""
    return [lambda r: Implies(And(same_size, z3.Select(cache.present, r)),
                              And(r >= 0, r < H, displays(z3.Select(rows, r), z3.Select(cache.val, r), W))),
            lambda r: Implies(And(same_size, cache.nonempty, r >= 0, r < H), z3.Select(cache.present, r)),
            lambda r: Implies(And(same_size, Not(cache.nonempty)), Not(z3.Select(cache.present, r)))]


def _requires(a):
    w = a.self
    st = a._st if hasattr(a, "_st") else None
    rows0 = ROWS0[0]
    same = And(w._last_rendered_height == w.height, w._last_rendered_width == w.width)
    return cache_inv(_sd(w._last_lines_by_row), rows0, w.height, w.width, same) + \
        [lambda i: And(ARR(i) >= 0, LINELEN(ARR(i)) >= 0, LINELEN(CLIPID(ARR(i), w.width)) == Min(LINELEN(ARR(i)), w.width),
                       Implies(LINELEN(ARR(i)) <= w.width, CLIPID(ARR(i), w.width) == ARR(i)))] + \
        [And(a.cursor_pos[0] >= 0, a.cursor_pos[0] < w.height, a.cursor_pos[1] >= 0, a.cursor_pos[1] < w.width)]


ROWS0 = [None]


def _setup2(st, values):
    _setup(st, values)
    ROWS0[0] = st.ghost["term.rows0"]


def _ensures(a, r):
    st = a.final_state
    g = st.ghost
    w, f = a.self, a.final.self
    H, W, n = w.height, w.width, a.array.n
    rows = g["term.rows"]
    cache = _sd(f._last_lines_by_row)
    out = [("post.screen_row_shows_array_row", lambda i: Implies(And(i >= 0, i < H, i < n), displays(z3.Select(rows, i), ARR(i), W))),
           ("post.other_rows_blank", lambda i: Implies(And(i >= 0, i < H, i >= n), z3.Select(rows, i) == Row.blank)),
           ("post.cursor_at_cursor_pos", And(g["term.r"] == a.cursor_pos[0], g["term.c"] == a.cursor_pos[1])),
           ("post.no_wrap_no_scroll_no_stray_write", Not(g["term.bad"])),
           ("post.size_remembered", And(f._last_rendered_height == H, f._last_rendered_width == W))]
    if True:
        inv = cache_inv(cache, rows, H, W, True)
        out += [("post.Inv.cache_rows_displayed", inv[0]), ("post.Inv.cache_complete", inv[1]), ("post.Inv.cache_empty", inv[2])]
    return out


def _loop1(L):
    g = L._st.ghost
    w = L.old.self
    H, W = w.height, w.width
    rows, rows0 = g["term.rows"], g["term.rows0"]
    cur = _sd(L.current_lines_by_row)
    k = L.k
    return [L.height == H, L.width == W, Not(g["term.bad"]), L.self.height == H, L.self.width == W,
            L.self._last_rendered_height == H, L.self._last_rendered_width == W,
            cur.nonempty == (k > 0),
            lambda r: Implies(And(r >= 0, r < k), And(displays(z3.Select(rows, r), ARR(r), W), z3.Select(cur.present, r), z3.Select(cur.val, r) == ARR(r))),
            lambda r: Implies(Or(r < 0, r >= k), And(z3.Select(rows, r) == z3.Select(rows0, r), Not(z3.Select(cur.present, r))))]


def _loop2(L):
    g = L._st.ghost
    w = L.old.self
    H, W, n = w.height, w.width, L.old.array.n
    rows, rows0 = g["term.rows"], g["term.rows0"]
    cur = _sd(L.current_lines_by_row)
    j = L.k
    m = Min(n, H)
    return [L.height == H, L.width == W, Not(g["term.bad"]), L.self.height == H, L.self.width == W,
            L.self._last_rendered_height == H, L.self._last_rendered_width == W,
            cur.nonempty == Or(m > 0, j > 0),
            lambda r: Implies(And(r >= 0, r < m), And(displays(z3.Select(rows, r), ARR(r), W), z3.Select(cur.present, r), z3.Select(cur.val, r) == ARR(r))),
            lambda r: Implies(And(r >= n, r < n + j), And(z3.Select(rows, r) == Row.blank, z3.Select(cur.present, r), z3.Select(cur.val, r) == -1)),
            lambda r: Implies(Or(r < 0, r >= n + j, And(r >= m, r < n)), And(z3.Select(rows, r) == z3.Select(rows0, r), Not(z3.Select(cur.present, r))))]


fs_render = Contract(
    M + "FullscreenWindow.render_to_terminal", "C02", ["self", "array", "cursor_pos"], kind="method",
    shapes=[Shape("any", dict(self=_win(), array=LineSeqT(), cursor_pos=PairT()))],
    requires=_requires, ensures=_ensures,
    loops={0: Loop(inv=_loop1), 1: Loop(inv=_loop2)})
fs_render.symdict = True
fs_render.inline_methods = ("on_terminal_size_change",)
fs_render.setup = _setup2
