"""C01: str(FmtStr) displays exactly its characters and formatting, then resets.
Chunk.color_str is decided by a COMPLETE finite split over the attribute dict (9 x 9 x 3^6 = 59 049 cases: each
colour absent or one of 8, each style absent / False / True) with the run's text an opaque parametric token: the
real body is executed once per dict, the resulting string term is a concatenation of literal pieces and the token,
and the reference SGR interpreter (spec/sgr.py) must display the token exactly once with exactly the dict's
switched-on attributes, return to the default state, and find nothing but SGR sequences."""
import itertools
import z3
from pyvc import terms as T
from pyvc.contract import Contract, Shape, ObjT, StrT, TypeSpec, ConstT
from pyvc.values import Sym, DictV
from spec import sgr
import contracts.formatstring  # noqa: F401

M = "formatstring:"
STY = ("bold", "dark", "italic", "underline", "blink", "invert")


class ConcreteDictT(TypeSpec):
    def __init__(self, d):
        self.d = dict(d)

    def fresh(self, name, st):
        return st.alloc(DictV(self.d))


def flatten(term, token_term):
    """string term -> list of literal str pieces and the marker TOKEN; None if something else occurs"""
    out = []

    def walk(t):
        if t.eq(token_term):
            out.append(TOKEN)
            return True
        k = t.decl().kind()
        if k == z3.Z3_OP_SEQ_CONCAT:
            return all(walk(t.arg(i)) for i in range(t.num_args()))
        if k == z3.Z3_OP_SEQ_EMPTY:
            return True
        if k == z3.Z3_OP_SEQ_UNIT and z3.is_int_value(t.arg(0)):
            out.append(chr(t.arg(0).as_long()))
            return True
        return False
    if not walk(term):
        return None
    merged = []
    for p in out:
        if p is not TOKEN and merged and merged[-1] is not TOKEN:
            merged[-1] += p
        else:
            merged.append(p)
    return merged


class _Tok:
    def __repr__(self):
        return "<TEXT>"


TOKEN = _Tok()


def want_fmt(atts):
    return tuple(sorted((k, v) for k, v in atts.items() if v is not False and v is not None))


def judge(pieces, atts):
    """-> '' or what is wrong with the terminal string `pieces` for a run with attributes `atts`"""
    if pieces is None:
        return "the result is not a concatenation of literal text and the run's text"
    if sum(1 for p in pieces if p is TOKEN) != 1:
        return f"the run's text occurs {sum(1 for p in pieces if p is TOKEN)} times in {pieces}"
    cells, final, only = sgr.run(pieces, token=TOKEN)
    shown = [c for c in cells if c[0] is TOKEN]
    extra = [c for c in cells if c[0] is not TOKEN]
    if extra:
        return f"characters other than the text are displayed: {extra}"
    if not only:
        return f"something other than supported SGR sequences is emitted: {pieces}"
    if shown[0][1] != want_fmt(atts):
        return f"the text is displayed with {shown[0][1]}, the run has {want_fmt(atts)} ({pieces})"
    if final != sgr.DEFAULT:
        return f"the graphic state is left at {final} ({pieces})"
    return ""


def all_dicts(full):
    fgs = [None] + list(range(30, 38)) if full else [None, 31, 36]
    bgs = [None] + list(range(40, 48)) if full else [None, 44, 47]
    for fg in fgs:
        for bg in bgs:
            for st in itertools.product((None, False, True), repeat=6):
                d = {}
                if fg is not None:
                    d["fg"] = fg
                if bg is not None:
                    d["bg"] = bg
                for k, v in zip(STY, st):
                    if v is not None:
                        d[k] = v
                yield d


def color_str_contract(dicts, name="split"):
    def ensures(a, r):
        atts = a.self._atts
        if z3.is_expr(r):
            pieces = flatten(z3.simplify(r), a.self._s)
        elif isinstance(r, str):
            pieces = None       # the token vanished
        else:
            pieces = None
        d = judge(pieces, atts)
        return [("post.displays_exactly_the_run" + (": " + d if d else ""), d == "")]
    shapes = [Shape("d%05d" % i, dict(self=ObjT("Chunk", dict(_s=StrT(plain=False), _atts=ConcreteDictT(d))))) for i, d in dicts]
    c = Contract(M + "Chunk.color_str#" + name, "C01", ["self"], kind="property", shapes=shapes, ensures=ensures)
    c.inline = {"seq": "termformatconstants:seq"}
    return c
