"""Sidecar contracts for curtsies/formatstring.py.  Specification only: the verified bodies
are the ASTs read from /repo on every run.  Top-level postconditions are transcribed from the
property statements (properties.jsonl), never from the code."""
import z3
from pyvc import terms as T
from pyvc import spec as S
from pyvc.spec import And, Or, Not, Implies, If, cells, length, concat, pyslice, is_slice
from pyvc.contract import (Contract, Shape, Loop, IntT, BoolT, StrT, FmtT, ChunkT, SliceT, ConstT, NoneT, OtherT, ObjT,
                           ItemListT, PLAIN)
from pyvc.values import Sym, SliceV, fresh

M = "formatstring:"

# ---------------------------------------------------------------------------------------------
# normalize_slice(length, index)                                                     C06
#   int index  : -length <= i < length -> a slice denoting exactly position i mod length, else IndexError
#   slice index: non-negative bounds denoting the same range as Python's own normalisation
# ---------------------------------------------------------------------------------------------
def _ns_ensures(a, r):
    L = a.length
    if not is_slice(a.index):
        pos = If(a.index < 0, a.index + L, a.index)
        return [("post.int.start", r.start == pos), ("post.int.stop", r.stop == pos + 1), ("post.int.step", r.step is None)]
    ns = S.py_bound(a.index.start, L, 0)
    ne = S.py_bound(a.index.stop, L, L)
    cs, ce = S.clip(r.start, L), S.clip(r.stop, L)
    out = [("post.slice.nonneg", And(r.start >= 0, r.stop >= 0)),
           ("post.slice.range", If(ne > ns, And(cs == ns, ce == ne), ce <= cs)),
           ("post.slice.step", r.step is None)]
    # helper clauses for callers (derived from the code): a bound that is already a non-negative int is returned unchanged
    if a.index.start is not None:
        out.append(("post.slice.start_kept", Implies(a.index.start >= 0, r.start == a.index.start)))
        out.append(("post.slice.start_from_the_end", Implies(a.index.start < 0, r.start == S.Max(0, L + a.index.start))))
    else:
        out.append(("post.slice.start_open", r.start == 0))
    if a.index.stop is not None:
        out.append(("post.slice.stop_kept", Implies(a.index.stop >= 0, r.stop == a.index.stop)))
        out.append(("post.slice.stop_from_the_end", Implies(a.index.stop < 0, r.stop == S.Max(0, L + a.index.stop))))
    else:
        out.append(("post.slice.stop_open", r.stop == L))
    return out


def _ns_result(a, st):
    return SliceV(Sym("int", fresh("ns_start", T.I)), Sym("int", fresh("ns_stop", T.I)), None)


_I = IntT
normalize_slice = Contract(
    M + "normalize_slice", "C06", ["length", "index"],
    shapes=[Shape("int", dict(length=_I(0), index=_I()))] +
           [Shape(f"slice_{'i' if s else 'n'}{'i' if e else 'n'}",
                  dict(length=_I(0), index=SliceT(_I() if s else None, _I() if e else None, None)))
            for s in (0, 1) for e in (0, 1)] +
           [Shape("slice_step", dict(length=_I(0), index=SliceT(_I(), _I(), _I())))],
    raises={"IndexError": lambda a: False if is_slice(a.index) else Not(And(-a.length <= a.index, a.index < a.length)),
            "NotImplementedError": lambda a: is_slice(a.index) and a.index.step is not None},
    ensures=_ns_ensures, result=_ns_result)


# ---------------------------------------------------------------------------------------------
# interval_overlap(a, b, x, y), a <= b, x <= y: length of the intersection              C10
# ---------------------------------------------------------------------------------------------
interval_overlap = Contract(
    M + "interval_overlap", "C10", ["a", "b", "x", "y"],
    shapes=[Shape("ints", dict(a=_I(), b=_I(), x=_I(), y=_I()))],
    requires=lambda a: a.a <= a.b,
    # (helper clause derived from the code, for the cutter when it is asked for an empty range start > end: a character at most
    #  two columns wide never has a < y < x < b, so the reversed request always overlaps by 0)
    ensures=lambda a, r: [("post.overlap", Implies(a.x <= a.y, r == S.Max(0, S.Min(a.b, a.y) - S.Max(a.a, a.x)))),
                          ("post.empty_request", Implies(And(a.x > a.y, Or(a.b <= a.x, a.a >= a.y)), r == 0))],
    result=IntT())


# =============================================================================================
# Assumed contract (A): fmtstr(plain str) -- one unformatted run.  fmtstr itself is regex/reflection
# driven (parse, parse_args) and is decided by the bounded suites of C05/C14/C17; callers in this
# file only use it on strings that are free of "ESC[" (PLAIN), where it is FmtStr(Chunk(s)).
# =============================================================================================
def _as_str_term(x):
    if z3.is_expr(x) and x.sort() == T.ItemS:
        return T.ItemS.istr(x)
    if isinstance(x, str):
        return T.str_term(x)
    return x


def _fmtstr_result(a, st):
    s = _as_str_term(a.string)
    ch = T.ChunkS.mkchunk(s, T.NOATTS)
    u = z3.Unit(ch)
    st.fact(T.Lemmas.list_unit(u, ch), T.Lemmas.list_basic(u), z3.Length(u) == 1)
    if isinstance(a.string, str) and a.string == "":
        st.fact(T.CELLS(s, T.NOATTS) == z3.Empty(T.SC))
    return Sym("fmtstr", T.FmtS.mkfmt(u))


fmtstr_plain = Contract(M + "fmtstr", "C17", ["string"], shapes=[],
                        requires=lambda a: True if isinstance(a.string, str) and "\x1b[" not in a.string else PLAIN(_as_str_term(a.string)),
                        result=_fmtstr_result, doc="callee form: fmtstr(s) == FmtStr(Chunk(s)) for s free of ESC[; VERIFIED below (fmtstr#plain)")

# ---------------------------------------------------------------------------------------------
# The callee form above is no longer assumed: the real bodies of fmtstr (no formatting arguments) and of
# FmtStr.from_str are verified against it for every string that is free of "ESC[".
#   PLAIN(s) is *defined* as: "\x1b[" does not occur in s   (stated as a definitional precondition here; elsewhere
#   PLAIN stays uninterpreted and only the lemma  PLAIN(blanks ++ y) == PLAIN(y)  is used - validated by
#   exhaustive evaluation in props/C06.py, since neither solver decides it).
# ---------------------------------------------------------------------------------------------
ESC_CSI = T.str_term("\x1b[")


def _one_plain_run(s):
    return T.FmtS.mkfmt(z3.Unit(T.ChunkS.mkchunk(s, T.NOATTS)))


def _plain_result_ensures(a, r, s):
    if z3.is_expr(s):
        st = getattr(a, "final_state", None)
        if st is not None:
            st.add_index(z3.IntVal(0))          # the single run of the result
        return [("post.one_unformatted_run", r == _one_plain_run(s))]
    return [("post.one_unformatted_run", len(r.chunks) == 1 and r.chunks[0].s == s and dict(r.chunks[0].atts) == {})]


from_str_callee = Contract(M + "FmtStr.from_str", "C17", ["s"], shapes=[],
                           requires=lambda a: True if isinstance(a.s, str) and "\x1b[" not in a.s else PLAIN(_as_str_term(a.s)),
                           result=lambda a, st: _fmtstr_result(NS_string(a.s), st),
                           doc="callee form for strings free of ESC[; verified as FmtStr.from_str#plain")


class NS_string:
    def __init__(self, s):
        self.string = s


from_str_plain = Contract(
    M + "FmtStr.from_str#plain", "C06", ["s"],
    shapes=[Shape("plain", dict(s=StrT(plain=True)))],
    requires=lambda a: (PLAIN(a.s) == Not(z3.Contains(a.s, ESC_CSI))) if z3.is_expr(a.s) else ("\x1b[" not in a.s),
    ensures=lambda a, r: _plain_result_ensures(a, r, a.s), result=FmtT())


class EmptyKwargsT(ConstT):
    """**kwargs of a call without keyword arguments: a fresh empty dict"""
    def __init__(self):
        super().__init__(None)

    def fresh(self, name, st):
        from pyvc.values import DictV
        return st.alloc(DictV({}))

    def concretize(self, value, model, cx):
        return {}


fmtstr_plain_body = Contract(
    M + "fmtstr#plain", "C06", ["string", "*args", "**kwargs"],
    shapes=[Shape("plain_str_no_formatting", dict(string=StrT(plain=True), args=ConstT(()), kwargs=EmptyKwargsT()))],
    ensures=lambda a, r: _plain_result_ensures(a, r, a.string), result=FmtT())
fmtstr_plain_body.inline = {"parse_args": "formatstring:parse_args"}

# ---------------------------------------------------------------------------------------------
# FmtStr.__len__ / s as callees (functional results); their own bodies are verified in the memo
# obligations of C13 (contracts/memo.py)
# ---------------------------------------------------------------------------------------------
def _len_result(a, st):
    xs = T.FmtS.chunks(a.self)
    st.fact(T.Lemmas.list_basic(xs))
    from pyvc.values import mk_int
    return mk_int(T.TOTLEN(xs))


def _s_result(a, st):
    xs = T.FmtS.chunks(a.self)
    st.fact(T.Lemmas.list_basic(xs))
    return Sym("str", T.TEXT(xs))


# ---------------------------------------------------------------------------------------------
# FmtStr.__getitem__                                                                     C06
# ---------------------------------------------------------------------------------------------
def _gi_ensures(a, r):
    P = cells(a.self)
    if is_slice(a.index):
        return [("post.slice", cells(r) == pyslice(P, a.index.start, a.index.stop))]
    return [("post.int", cells(r) == S.item(P, a.index))]


_SL4 = [(f"slice_{'i' if s else 'n'}{'i' if e else 'n'}", SliceT(_I() if s else None, _I() if e else None, None))
        for s in (0, 1) for e in (0, 1)]

getitem = Contract(
    M + "FmtStr.__getitem__", "C06", ["self", "index"], kind="method",
    shapes=[Shape("int", dict(self=FmtT(), index=_I()))] + [Shape(n, dict(self=FmtT(), index=t)) for n, t in _SL4],
    raises={"IndexError": lambda a: False if is_slice(a.index) else Not(And(-length(cells(a.self)) <= a.index, a.index < length(cells(a.self))))},
    ensures=_gi_ensures, result=FmtT(),
    callees={"normalize_slice": M + "normalize_slice", "fmtstr": M + "fmtstr"},
    loops={0: Loop(ghosts=["V"], inv=lambda L: [L.counter == length(L.V),
                                                cells(L.parts) == pyslice(L.V, L.index.start, L.index.stop),
                                                L.index.start >= 0, L.index.stop >= 0])})

# ---------------------------------------------------------------------------------------------
# __add__ / __radd__ / __mul__                                                           C06
# ---------------------------------------------------------------------------------------------
add = Contract(
    M + "FmtStr.__add__", "C06", ["self", "other"], kind="method",
    shapes=[Shape("fmtstr", dict(self=FmtT(), other=FmtT())), Shape("str", dict(self=FmtT(), other=StrT(plain=False))),
            Shape("other", dict(self=FmtT(), other=OtherT()))],
    ensures=lambda a, r: [("post.notimplemented", r is NotImplemented)] if _is_other(a.other) else
                         [("post.concat", cells(r) == concat(cells(a.self), cells(a.other)))],
    result=FmtT(), callees={"fmtstr": M + "fmtstr"})

radd = Contract(
    M + "FmtStr.__radd__", "C06", ["self", "other"], kind="method",
    shapes=[Shape("fmtstr", dict(self=FmtT(), other=FmtT())), Shape("str", dict(self=FmtT(), other=StrT(plain=False))),
            Shape("other", dict(self=FmtT(), other=OtherT()))],
    ensures=lambda a, r: [("post.notimplemented", r is NotImplemented)] if _is_other(a.other) else
                         [("post.concat", cells(r) == concat(cells(a.other), cells(a.self)))],
    result=FmtT(), callees={"fmtstr": M + "fmtstr"})


def _is_other(x):
    from pyvc.values import OpaqueV
    if isinstance(x, OpaqueV):
        return True
    if z3.is_expr(x) or isinstance(x, (str, bytes)) or hasattr(x, "chunks"):
        return False
    return True


mul = Contract(
    M + "FmtStr.__mul__", "C06", ["self", "other"], kind="method",
    shapes=[Shape("int", dict(self=FmtT(), other=_I())), Shape("other", dict(self=FmtT(), other=OtherT()))],
    ensures=lambda a, r: [("post.rep", cells(r) == S.rep(cells(a.self), a.other))]
                         if (z3.is_expr(a.other) or (isinstance(a.other, int) and not isinstance(a.other, bool)))
                         else [("post.notimplemented", r is NotImplemented)],
    result=FmtT(),
    loops={("comp", 0): Loop(inv=lambda L: [cells(L.acc__) == S.rep(cells(L.self), L.k)])})

flen = Contract(M + "FmtStr.__len__", "C06", ["self"], kind="method", shapes=[], result=_len_result,
                doc="callee form; body verified under the memo invariant in C13")
fs_s = Contract(M + "FmtStr.s", "C06", ["self"], kind="property", shapes=[], result=_s_result,
                doc="callee form; body verified under the memo invariant in C13")

# ---------------------------------------------------------------------------------------------
# FmtStr.divides: r[0] = 0, r[i+1] = r[i] + len(run i)                                   C09
# ---------------------------------------------------------------------------------------------
DIVIDES = z3.Function("DIVIDES", T.SCh, T.SI)


def _div_result(a, st):
    from pyvc.values import ListV
    xs = T.FmtS.chunks(a.self)
    ds = DIVIDES(xs)        # a pure property: two reads on the same value agree
    st.fact(z3.Length(ds) == z3.Length(xs) + 1, ds[0] == 0, ds[z3.Length(xs)] == T.TOTLEN(xs), T.Lemmas.list_basic(xs))
    st.add_inst(lambda i: Implies(And(i >= 0, i < z3.Length(xs)),
                                  And(ds[i + 1] == ds[i] + z3.Length(T.ChunkS.s(xs[i])), ds[i] >= 0)))
    return st.alloc(ListV(tag="int", t=ds))


def _div_ensures(a, r):
    xs = T.FmtS.chunks(a.self) if z3.is_expr(a.self) else None
    if xs is None:      # run time
        lens = [len(c.s) for c in a.self.chunks]
        return [("post.len", len(r) == len(lens) + 1), ("post.first", r[0] == 0),
                ("post.steps", all(r[i + 1] == r[i] + lens[i] for i in range(len(lens))))]
    return [("post.len", length(r) == length(xs) + 1), ("post.first", r[0] == 0),
            ("post.steps", lambda i: Implies(And(i >= 0, i < length(xs)), r[i + 1] == r[i] + length(T.ChunkS.s(xs[i]))))]


divides = Contract(
    M + "FmtStr.divides", "C09", ["self"], kind="property",
    shapes=[Shape("any", dict(self=FmtT()))],
    ensures=_div_ensures, result=_div_result,
    loops={0: Loop(inv=lambda L: [length(S.as_int_seq(L.acc)) == L.k + 1, S.as_int_seq(L.acc)[0] == 0,
                                  lambda i: Implies(And(i >= 0, i < L.k),
                                                    S.as_int_seq(L.acc)[i + 1] == S.as_int_seq(L.acc)[i] +
                                                    length(T.ChunkS.s(T.FmtS.chunks(L.self)[i])))])})
# the callee form of divides also gives ds[n] == total length; that closed form is an instance of the
# fold lemma "sum of lengths = length of concat" (lean/Lemmas.lean), not re-proved per run.

# ---------------------------------------------------------------------------------------------
# FmtStr.splice / append                                                                  C09
# ---------------------------------------------------------------------------------------------
def _sp_e(a):
    return a.start if a.end is None else a.end


def _splice_inv(L):
    P = cells(L.self)
    N = cells(L.new_fs)
    D = length(L.V)
    NEW = cells(L.new_components)
    return [L.at(L.k)[1] == D,
            Implies(Not(L.inserted), And(NEW == L.V, D <= L.start)),
            Implies(L.inserted, And(D >= L.start, NEW == concat(pyslice(P, 0, L.start), N, pyslice(L.V, L.end, D))))]


_NEWS = [("fmtstr", FmtT()), ("str", StrT(plain=False))]     # ANY str: the statement has no "free of escape sequences" clause
_ENDS = [("end", None), ("noend", NoneT)]
splice = Contract(
    M + "FmtStr.splice", "C09", ["self", "new_str", "start", "end"], kind="method", defaults={"end": None},
    shapes=[Shape(f"{n}_{e}", dict(self=FmtT(), new_str=t, start=_I(0), end=(_I() if et is None else et)))
            for n, t in _NEWS for e, et in _ENDS],
    requires=lambda a: And(a.start >= 0, True if a.end is None else a.start <= a.end),
    ensures=lambda a, r: [("post.splice", cells(r) == concat(pyslice(cells(a.self), 0, a.start), cells(a.new_str),
                                                              pyslice(cells(a.self), _sp_e(a), None)))],
    result=FmtT(),
    callees={"fmtstr": M + "fmtstr"},
    loops={0: Loop(ghosts=["V"], inv=_splice_inv)})

append = Contract(
    M + "FmtStr.append", "C09", ["self", "string"], kind="method",
    shapes=[Shape("fmtstr", dict(self=FmtT(), string=FmtT())), Shape("str", dict(self=FmtT(), string=StrT(plain=False)))],
    ensures=lambda a, r: [("post.append", cells(r) == concat(cells(a.self), cells(a.string)))],
    result=FmtT())


# ---------------------------------------------------------------------------------------------
# FmtStr.join(iterable)                                                                   C06
#   cells(result) == join_spec(cells(self), [cells(x) for x in items]); TypeError for other items
# ---------------------------------------------------------------------------------------------
JOINSPEC = z3.Function("JOINSPEC", T.SC, T.SItem, T.SC)     # defined by the ghost fold below (= str.join on cells)


def _item_cells(it):
    return z3.If(T.ItemS.is_item_fmt(it), T.VIEW(T.FmtS.chunks(T.ItemS.ifmt(it))), T.CELLS(T.ItemS.istr(it), T.NOATTS))


def join_spec(sep_cells, items):
    if z3.is_expr(items):
        return JOINSPEC(sep_cells, items)
    out = []
    for j, it in enumerate(items):
        if j:
            out += sep_cells
        out += cells(it)
    return out


from pyvc.loops import Ghost
_JOIN_GHOST = Ghost("J", T.SC, lambda: z3.Empty(T.SC),
                    lambda g, e, k, old: z3.If(k == 0, _item_cells(e.t), z3.Concat(g, cells(old.self), _item_cells(e.t))),
                    lambda sp, old: JOINSPEC(cells(old.self), sp.sources[0][0]))


def _join_requires(a):
    if z3.is_expr(a.iterable):
        items = a.iterable
        return [lambda i: Implies(And(i >= 0, i < z3.Length(items)),
                                  And(Not(T.ItemS.is_item_other(items[i])),
                                      z3.Length(T.CELLS(T.ItemS.istr(items[i]), T.NOATTS)) == z3.Length(T.ItemS.istr(items[i]))))]
    return True


join = Contract(
    M + "FmtStr.join", "C06", ["self", "iterable"], kind="method",
    shapes=[Shape("items", dict(self=FmtT(), iterable=ItemListT()))],
    requires=_join_requires,
    raises={"TypeError": lambda a: False if z3.is_expr(a.iterable) else any(not isinstance(x, str) and not hasattr(x, "chunks") for x in a.iterable)},
    ensures=lambda a, r: [("post.join", cells(r) == join_spec(cells(a.self), a.iterable))],
    result=FmtT(), callees={"fmtstr": M + "fmtstr"},
    loops={0: Loop(ghosts=[_JOIN_GHOST],
                   inv=lambda L: [cells(L.chunks) == L.J,
                                  If(L.k == 0, length(L.before) == 0, L.before == T.FmtS.chunks(L.self))])})
join.single_pass_params = ("iterable",)


# ---------------------------------------------------------------------------------------------
# Chunk.width (callee form): wcswidth of the run's text; ValueError when a non-empty run has no width (wcswidth < 0)
# (cwcwidth.wcswidth is an ASSUMED external: WCS).  Body verified in C10.
# ---------------------------------------------------------------------------------------------
def _cw_result(a, st):
    from pyvc.values import mk_int
    return mk_int(T.WCS(T.ChunkS.s(a.self)))


chunk_width = Contract(M + "Chunk.width", "C10", ["self"], kind="property", shapes=[], result=_cw_result,
                       raises={"ValueError": lambda a: And(z3.Length(T.ChunkS.s(a.self)) > 0, T.WCS(T.ChunkS.s(a.self)) < 0)})

# Chunk.__str__ (callee form): the run's terminal string COLORSTR(chunk); body (color_str) decided in C01
from pyvc.loops import COLORSTR, STRFOLD
chunk_str = Contract(M + "Chunk.__str__", "C01", ["self"], kind="method", shapes=[],
                     result=lambda a, st: Sym("str", COLORSTR(a.self)))


# ---------------------------------------------------------------------------------------------
# Chunk.width (own body) and FmtStr.width_at_offset                                       C10
#   ASSUMED external: cwcwidth.wcswidth(s[, n]) = WCS(s[:n]) = sum of wcwidth, or -1 if some character
#   has no width; under the quantifier of C10 (narrow / wide / combining characters) WCS(s) >= 0.
# ---------------------------------------------------------------------------------------------
def _wcswidth_result(a, st):
    from pyvc.values import mk_int
    s = a.pwcs if z3.is_expr(a.pwcs) else T.str_term(a.pwcs)
    if a.n is None:
        return mk_int(T.WCS(s))
    n = a.n if z3.is_expr(a.n) else z3.IntVal(a.n)
    pre = T.pyslice_term(s, z3.IntVal(0), n)
    st.fact(Implies(T.WCS(s) >= 0, T.WCS(pre) >= 0))     # a prefix of a measurable string is measurable
    return mk_int(T.WCS(pre))


wcswidth_ext = Contract("ext:formatstring.wcswidth", "C10", ["pwcs", "n"], defaults={"n": None}, shapes=[],
                        result=_wcswidth_result, doc="ASSUMED: cwcwidth.wcswidth(s, n) == WCS(s[:n]); probed per code point in C10's bounded suite")
wcswidth_ext.assumed = True


class _ChunkObj:
    pass


chunk_width_body = Contract(
    M + "Chunk.width#body", "C10", ["self"], kind="property",
    shapes=[Shape("any", dict(self=ObjT("Chunk", dict(_s=StrT(plain=False)))))],
    requires=lambda a: T.WCS(a.self._s) >= 0,            # every character has a width (C10 quantifier)
    ensures=lambda a, r: [("post.width", r == T.WCS(a.self._s))],
    callees={"wcswidth": "ext:formatstring.wcswidth"})

width_at_offset = Contract(
    M + "FmtStr.width_at_offset", "C10", ["self", "n"], kind="method",
    shapes=[Shape("any", dict(self=FmtT(), n=_I(0)))],
    requires=lambda a: T.WCS(T.TEXT(T.FmtS.chunks(a.self))) >= 0,
    ensures=lambda a, r: [("post.prefix_width", r == T.WCS(T.pyslice_term(T.TEXT(T.FmtS.chunks(a.self)), z3.IntVal(0), a.n)))],
    callees={"wcswidth": "ext:formatstring.wcswidth"})


# ---------------------------------------------------------------------------------------------
# FmtStr.setslice_with_length / setitem (row primitive of FSArray)                        C04
#   padded view of the result == padded old row with the region replaced by the padded value;
#   error when the value is longer than the region and the row continues past it, or when the result
#   would be longer than `length`.
# ---------------------------------------------------------------------------------------------
def _ssl_fs_len(a):
    return length(cells(a.fs))


def _ssl_ensures(a, r):
    """Statement form: padded view of the result == padded old row with the region replaced by the padded value.
    Proof form (`exact`): the same fact with the padding resolved by case analysis on the old row's length, which
    needs no reasoning about slices of blank sequences.  At run time BOTH are evaluated on every enumerated case,
    so a disagreement between the two forms shows up as a failure of one of them (refinement validated, not assumed)."""
    P = cells(a.self)
    F_ = cells(a.fs)
    Lh, st_, en = a.length, a.startindex, a.endindex
    p, f, w = length(P), length(F_), en - st_
    exact = If(p > en, concat(pyslice(P, 0, st_), F_, S.blanks(w - f), pyslice(P, en, None)),
               If(p >= st_, concat(pyslice(P, 0, st_), F_), concat(P, S.blanks(st_ - p), F_)))
    # a value longer than the region that is nevertheless accepted (it ends inside the row's blank tail) is judged by
    # the statement form only, i.e. by the bounded layer (known finding C04-long-row-into-blank-tail)
    out = [("post.region.exact", Implies(f <= w, cells(r) == exact)), ("post.fits", length(cells(r)) <= Lh)]
    if not S.is_sym(P):
        PP = S.padto(P, Lh)
        out.append(("post.region", S.padto(cells(r), Lh) == concat(pyslice(PP, 0, st_), S.padto(F_, w), pyslice(PP, en, None))))
    return out


setslice = Contract(
    M + "FmtStr.setslice_with_length", "C04", ["self", "startindex", "endindex", "fs", "length"], kind="method",
    shapes=[Shape(n, dict(self=FmtT(), startindex=_I(0), endindex=_I(0), fs=t, length=_I(0)))
            for n, t in (("fmtstr", FmtT()), ("str", StrT(plain=False)))],
    requires=lambda a: And(a.startindex <= a.endindex, length(cells(a.self)) <= a.length, a.endindex <= a.length),
    raises={"AssertionError": lambda a: And(length(cells(a.self)) > a.endindex, _ssl_fs_len(a) > a.endindex - a.startindex),
            "ValueError": lambda a: And(length(cells(a.self)) <= a.endindex, a.startindex + _ssl_fs_len(a) > a.length)},
    ensures=_ssl_ensures, result=FmtT())



# ---------------------------------------------------------------------------------------------
# Equality and hashing                                                                    C19
#   two FmtStrs are equal exactly when they produce the same terminal string; a FmtStr equals a plain
#   str exactly when its terminal string is that str; hash is a function of the terminal string.
# ---------------------------------------------------------------------------------------------
from pyvc.calls import HASHSTR, HASHPAIR

fs_str = Contract(M + "FmtStr.__str__", "C01", ["self"], kind="method", shapes=[],
                  result=lambda a, st: Sym("str", STRFOLD(T.FmtS.chunks(a.self))),
                  doc="callee form: concatenation of the runs' terminal strings; body verified under MemoInv in C13")


def render(x):
    """terminal string of a FmtStr / the str itself"""
    if z3.is_expr(x):
        return STRFOLD(T.FmtS.chunks(x)) if x.sort() == T.FmtS else x
    return str(x)


fmt_eq = Contract(
    M + "FmtStr.__eq__", "C19", ["self", "other"], kind="method",
    shapes=[Shape("fmtstr", dict(self=FmtT(), other=FmtT())), Shape("str", dict(self=FmtT(), other=StrT(plain=False))),
            Shape("other", dict(self=FmtT(), other=OtherT()))],
    ensures=lambda a, r: [("post.notimplemented", r is NotImplemented)] if _is_other(a.other) else
                         [("post.eq_iff_same_terminal_string", r == (render(a.self) == render(a.other)))],
    result=BoolT())

fmt_hash = Contract(
    M + "FmtStr.__hash__", "C19", ["self"], kind="method", shapes=[Shape("any", dict(self=FmtT()))],
    ensures=lambda a, r: [("post.hash_of_terminal_string", r == (HASHSTR(render(a.self)) if z3.is_expr(a.self) else hash(str(a.self))))],
    result=IntT())

chunk_eq = Contract(
    M + "Chunk.__eq__", "C19", ["self", "other"], kind="method",
    shapes=[Shape("chunk", dict(self=ChunkT(), other=ChunkT())), Shape("other", dict(self=ChunkT(), other=OtherT()))],
    ensures=lambda a, r: [("post.notimplemented", r is NotImplemented)] if not (z3.is_expr(a.other) or hasattr(a.other, "atts")) else
                         [("post.eq_iff_same_text_and_atts",
                           r == (And(T.ChunkS.s(a.self) == T.ChunkS.s(a.other), T.ChunkS.atts(a.self) == T.ChunkS.atts(a.other))
                                 if z3.is_expr(a.self) else (a.self.s == a.other.s and dict(a.self.atts) == dict(a.other.atts))))],
    result=BoolT())

chunk_hash = Contract(
    M + "Chunk.__hash__", "C19", ["self"], kind="method", shapes=[Shape("any", dict(self=ChunkT()))],
    ensures=lambda a, r: [("post.hash_of_text_and_atts",
                           r == (HASHPAIR(T.ChunkS.s(a.self), T.ChunkS.atts(a.self)) if z3.is_expr(a.self)
                                 else hash((a.self.s, a.self.atts))))],
    result=IntT())
