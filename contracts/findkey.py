"""C03 / C08 (stream level): Input._send.find_key - the loop that cuts the buffered bytes into keys.

  find_key pops bytes off self.unprocessed_bytes one at a time and asks events.get_key about the bytes taken so far (full = nothing
  is left in the buffer).  Contract, for ANY buffer (old = the buffered single bytes, in order) - with GK(seq, full) standing for
  whatever the decoder answers (its own per-call contract is C03's get_key obligations):
    returns a key      consumed ++ remaining == old   (no byte lost, duplicated or reordered), consumed is non-empty, the key is the
                       decoder's answer for exactly `consumed` (full iff nothing remains), and the decoder asked for more on every
                       shorter non-empty prefix: the cut is the FIRST point at which the decoder recognises something
    returns None       only when the buffer was empty; nothing changes
    raises ValueError  only when the buffer was non-empty and the decoder recognised no prefix of it, not even the whole buffer with
                       full=True; the bytes are then gone  (this is the listed finding C08-read-ends-mid-character seen from inside:
                       the contract states exactly when, the bounded suites of C03/C08 state for which inputs)
ASSUMED: events.get_key is a function of (bytes, encoding, keynames, full) and does not touch the buffer (C03 contract);
locale.getpreferredencoding() returns some encoding name."""
import z3
from pyvc import terms as T
from pyvc.spec import And, Or, Not, Implies, If
from pyvc.contract import Contract, Shape, Loop, ObjT, ConstT, TypeSpec
from pyvc.values import Sym, ListV, OpaqueV, fresh

GK = z3.Function("GET_KEY", T.SI, T.B, T.OptInt)        # identity of the key the decoder returns (none = "need more bytes")


class ByteListT(TypeSpec):
    def fresh(self, name, st):
        return st.alloc(ListV(tag="byte1", t=fresh(name, T.SI)))


class OpaqueT(TypeSpec):
    def __init__(self, kind):
        self.kind = kind

    def fresh(self, name, st):
        return OpaqueV(self.kind)


def _getkey_result(a, st):
    seq = a.bytes_
    full = a.full if z3.is_expr(a.full) else z3.BoolVal(bool(a.full))
    return Sym("optint", GK(seq, full))


Contract("ext:events.get_key", "C03", ["bytes_", "encoding", "keynames", "full"], defaults={"keynames": None, "full": False}, shapes=[],
         result=_getkey_result, doc="callee form: the decoder's answer as a function of the bytes taken so far and `full` (C03 obligations)")
enc = Contract("ext:input.getpreferredencoding", "C03", [], shapes=[], result=lambda a, st: OpaqueV("encoding name"),
               doc="ASSUMED: locale.getpreferredencoding() returns an encoding name")
enc.assumed = True


def _prefix(s, j):
    return z3.SubSeq(s, 0, j)


def _inv(L):
    old = L.old.self.unprocessed_bytes
    cur, rest = L.current_bytes, L.self.unprocessed_bytes
    cur = cur if z3.is_expr(cur) and cur.sort() == T.SI else z3.Empty(T.SI)
    return [z3.Concat(cur, rest) == old,
            lambda j: Implies(And(j > 0, j <= z3.Length(cur)), T.OptInt.is_none(GK(_prefix(old, j), z3.Length(old) == j)))]


def _ensures(a, r):
    old, rest = a.self.unprocessed_bytes, a.final.self.unprocessed_bytes
    n = z3.Length(old)
    if r is None:
        return [("post.none_only_for_an_empty_buffer", And(n == 0, rest == old))]
    c = n - z3.Length(rest)                     # number of bytes consumed
    return [("post.no_byte_lost_or_duplicated", And(c > 0, c <= n, rest == z3.SubSeq(old, c, n - c))),
            ("post.key_is_the_decoders_answer_for_the_consumed_bytes", And(T.OptInt.is_some(r), r == GK(_prefix(old, c), z3.Length(rest) == 0))),
            ("post.cut_at_the_first_recognised_prefix", lambda j: Implies(And(j > 0, j < c), T.OptInt.is_none(GK(_prefix(old, j), z3.BoolVal(False)))))]


def _on_raise(a):
    old, rest = a.self.unprocessed_bytes, a.final.self.unprocessed_bytes
    n = z3.Length(old)
    a.final_state.add_index(n)
    a.final_state.fact(z3.SubSeq(old, 0, n) == old)
    return [("raise.only_when_nothing_is_recognised", And(n > 0, z3.Length(rest) == 0, T.OptInt.is_none(GK(old, z3.BoolVal(True))))),
            ("raise.no_shorter_prefix_recognised", lambda j: Implies(And(j > 0, j < n), T.OptInt.is_none(GK(_prefix(old, j), z3.BoolVal(False)))))]


_loop = Loop(inv=_inv)
_loop.types = {"current_bytes": "byte1"}

find_key = Contract(
    "input:Input._send.find_key", "C03", ["self"], kind="function",
    shapes=[Shape("any_buffer", dict(self=ObjT("Input", dict(unprocessed_bytes=ByteListT(), keynames=OpaqueT("keynames")))))],
    ensures=_ensures,
    callees={"getpreferredencoding": "ext:input.getpreferredencoding"},
    loops={0: _loop})
find_key.raises_allowed = ("ValueError",)
find_key.ensures_on_raise = _on_raise


# ---------------------------------------------------------------------------------------------- how bytes get INTO the buffer
# unget_bytes(data) and _nonblocking_read() are the only two writers of Input.unprocessed_bytes besides find_key's pops.  Contract, for
# ANY buffer and ANY data: the buffer afterwards is the buffer before followed by the new bytes, one list element per byte, in order -
# nothing that was waiting is dropped, overtaken or repeated (the statement's "without losing, duplicating or reordering a byte").
class _BytesT(TypeSpec):
    def fresh(self, name, st):
        return Sym("bytes", fresh(name, T.SI))


def _unget_ensures(a, r):
    old, new = a.self.unprocessed_bytes, a.final.self.unprocessed_bytes
    return [("post.buffer_is_the_old_buffer_followed_by_the_new_bytes", new == z3.Concat(old, a.string))]


unget_bytes = Contract(
    "input:Input.unget_bytes", "C03", ["self", "string"], kind="method",
    shapes=[Shape("any_buffer_any_bytes", dict(self=ObjT("Input", dict(unprocessed_bytes=ByteListT())), string=_BytesT()))],
    ensures=_unget_ensures)


def _read_ensures(a, r):
    st = a.final_state
    old, new = a.self.unprocessed_bytes, a.final.self.unprocessed_bytes
    got = st.ghost.get("os.delivered", z3.Empty(T.SI))          # what os.read handed over in this call (nothing if it raised)
    out = [("post.buffer_is_the_old_buffer_followed_by_what_was_read", new == z3.Concat(old, got))]
    if getattr(a, "outcome", ("return",))[0] == "return":
        rr = r.t if isinstance(r, Sym) else (r if z3.is_expr(r) else z3.IntVal(int(r)))
        out.append(("post.returns_the_number_of_bytes_read", rr == z3.Length(got)))
    return out          # (on an OSError from the read nothing was delivered: the same clause says the buffer is untouched)


def _read_setup(st, values):
    from contracts.osmodel import init_os
    init_os(st)


import contracts.contexts as _X   # noqa: E402  (STREAM shape, Nonblocking inlined through its real body)

nonblocking_read_bytes = Contract(
    "input:Input._nonblocking_read#bytes", "C03", ["self"], kind="method",
    shapes=[Shape("any_buffer", dict(self=ObjT("Input", dict(in_stream=_X.STREAM, unprocessed_bytes=ByteListT()))))],
    raises={"OSError": "may"}, ensures=_read_ensures)
nonblocking_read_bytes.setup = _read_setup
nonblocking_read_bytes.inline = {"Nonblocking": "termhelpers:Nonblocking"}

WRITERS = [unget_bytes, nonblocking_read_bytes]
