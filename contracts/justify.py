"""C15 - ljust / rjust without a fill character (the natively implemented padding).

From the statement ("give the same text ... as the method applied to the plain text ... no result shows formatting that no character of
the original had"):
  (T) the characters of the result are those of str.ljust / str.rjust: the text, then (before) max(0, width - len) blanks;
  (O) every original character is still there at its place with its own formatting - except that a background colour that is NOT
      shared by all characters may have been dropped (what the code does so that the padding joins seamlessly; the statement allows
      dropping, it forbids inventing);
  (P) the padding is uniformly formatted, and every attribute it carries is held, with that value, by every run of the original that
      has characters - so nothing is shown that no character had.
The bodies are verified over the contracts of shared_atts (C14), new_with_atts_removed (C14), __add__/__radd__ (C06), FmtStr.s and
an ASSUMED contract of fmtstr(blanks, **atts) (parse_args on attributes that were read from existing runs: the run of blanks carries
exactly those attributes, or ValueError) - parse_args is reflection/table driven and decided by C14's bounded suite."""
import z3
from pyvc import terms as T
from pyvc import spec as S
from pyvc.spec import And, Or, Not, Implies, If, cells, length, concat
from pyvc.contract import Contract, Shape, IntT, FmtT, NoneT, PLAIN
from pyvc.values import Sym, fresh
from contracts.atts import FIELD, ext_term, rem_term, alpha, _enc
from pyvc.terms import ATT_KEYS
import contracts.formatstring as F  # noqa: F401
import contracts.atts as A  # noqa: F401

M = "formatstring:"


# ------------------------------------------------------------------ fmtstr(string, **atts)      (ASSUMED, see module docstring)
def _kw_atts(kwargs):
    base = T.NOATTS
    named = {}
    for k, v in kwargs.items():
        if k == "**":
            base = v if z3.is_expr(v) else alpha({kk: _enc(kk, vv) for kk, vv in v.items()})
        else:
            named[k] = v if z3.is_expr(v) else _enc(k, v)
    if any(k not in ATT_KEYS for k in named):
        return None
    return ext_term(base, alpha(named)) if named else base


def _fmtstr_kw_result(a, st):
    s = F._as_str_term(a.string)
    at = _kw_atts(a.kwargs)
    if at is None:
        from pyvc.values import Unsupported
        raise Unsupported("fmtstr with a keyword outside the attribute universe")
    ch = T.ChunkS.mkchunk(s, at)
    u = z3.Unit(ch)
    st.fact(T.Lemmas.list_unit(u, ch), T.Lemmas.list_basic(u), z3.Length(u) == 1)
    return Sym("fmtstr", T.FmtS.mkfmt(u))


fmtstr_kw = Contract(M + "fmtstr#attributes", "C14", ["string", "**kwargs"], shapes=[],
                     requires=lambda a: True if isinstance(a.string, str) and "\x1b[" not in a.string else PLAIN(F._as_str_term(a.string)),
                     raises={"ValueError": "may"},
                     result=_fmtstr_kw_result,
                     doc="ASSUMED callee form: fmtstr(s, **atts) for s free of ESC[ and attribute values read from existing runs is "
                         "FmtStr(Chunk(s, atts)) or raises ValueError; parse_args is decided by the bounded suite of C14")
fmtstr_kw.assumed = True
