"""C15 - ljust / rjust without a fill character (the natively implemented padding).

From the statement ("give the same text ... as the method applied to the plain text ... no result shows formatting that no character of
the original had"):
  (T) the characters of the result are those of str.ljust / str.rjust: the text, then (before) max(0, width - len) blanks;
  (O) every original character is still there at its place with its own formatting - except that a background colour that is NOT
      shared by all characters may have been dropped (what the code does so that the padding joins seamlessly; the statement allows
      dropping, it forbids inventing);
  (P) the padding is uniformly formatted, and every attribute it carries is held, with that value, by every run of the original that
      has characters - so nothing is shown that no character had.
The bodies are verified over the contracts of shared_atts (C14), new_with_atts_removed (C14), __add__/__radd__ (C06), FmtStr.s and
the contract of fmtstr(blanks, **atts) (the run of blanks carries exactly those attributes, or ValueError), which is itself verified
on the real fmtstr + parse_args for every set of attribute keys (complete finite split, end of this file; run under C14)."""
import z3
from pyvc import terms as T
from pyvc import spec as S
from pyvc.spec import And, Or, Not, Implies, If, cells, length, concat
from pyvc.contract import Contract, Shape, IntT, FmtT, NoneT, PLAIN
from pyvc.values import Sym, fresh
from contracts.atts import FIELD, ext_term, rem_term, alpha, _enc
from pyvc.terms import ATT_KEYS
import contracts.formatstring as F  # noqa: F401
import contracts.atts as A  # noqa: F401

M = "formatstring:"


# ------------------------------------------------------------------ fmtstr(string, **atts)      (ASSUMED, see module docstring)
def _kw_atts(kwargs):
    base = T.NOATTS
    named = {}
    for k, v in kwargs.items():
        if isinstance(v, Sym):
            v = v.t
        if k == "**":
            base = v if z3.is_expr(v) else alpha({kk: _enc(kk, vv) for kk, vv in v.items()})
        else:
            named[k] = v if z3.is_expr(v) else _enc(k, v)
    if any(k not in ATT_KEYS for k in named):
        return None
    return ext_term(base, alpha(named)) if named else base


def _fmtstr_kw_result(a, st):
    s = F._as_str_term(a.string)
    at = _kw_atts(a.kwargs)
    if at is None:
        from pyvc.values import Unsupported
        raise Unsupported("fmtstr with a keyword outside the attribute universe")
    ch = T.ChunkS.mkchunk(s, at)
    u = z3.Unit(ch)
    st.fact(T.Lemmas.list_unit(u, ch), T.Lemmas.list_basic(u), z3.Length(u) == 1)
    cells_nth_facts(st, s, at)
    raw = a._raw["string"]
    if isinstance(raw, Sym) and raw.origin and raw.origin[0] == "spaces":
        spaces_nth_facts(st, raw.origin[1])
    return Sym("fmtstr", T.FmtS.mkfmt(u))


def _blank_or_plain(a):
    raw = a._raw["string"]
    if isinstance(raw, str):
        return "\x1b[" not in raw
    if isinstance(raw, Sym) and raw.origin and raw.origin[0] == "spaces":
        return True                 # a run of blanks contains no ESC[ (definition of PLAIN)
    return PLAIN(F._as_str_term(a.string))


fmtstr_kw = Contract(M + "fmtstr#attributes", "C14", ["string", "**kwargs"], shapes=[],
                     requires=_blank_or_plain,
                     raises={"ValueError": "may"},
                     result=_fmtstr_kw_result,
                     doc="callee form: fmtstr(s, **atts) for s free of ESC[ and attributes in the Atts encoding is FmtStr(Chunk(s, atts)) or "
                         "raises ValueError; VERIFIED for every key set by the complete finite split fmtstr#attributes_* below (C14)")


# ------------------------------------------------------------------ spec functions local to this file
#   NOBG(xs): the run list with the background colour removed from every run (what new_with_atts_removed('bg') returns: its verified
#   postcondition - same number of runs, same texts, attributes minus bg - determines the result completely, so the result IS this
#   function of the argument; asserted in callee mode only).  Ground lemma schemas (map over runs commutes with the cell view):
#       |VIEW(NOBG xs)| = |VIEW xs|,  VIEW(NOBG xs)[i] = (ch(VIEW xs [i]), atts(VIEW xs [i]) - bg)        lean/Lemmas.lean view_map_atts
NOBG = z3.Function("NOBG", T.SCh, T.SCh)
RM_BG = lambda at: rem_term(at, ("bg",))


def nobg_facts(st, xs):
    ys = NOBG(xs)
    V, W = T.VIEW(xs), T.VIEW(ys)
    st.fact(z3.Length(ys) == z3.Length(xs), z3.Length(W) == z3.Length(V), T.TOTLEN(ys) == T.TOTLEN(xs), T.Lemmas.list_basic(ys))
    st.add_inst(lambda i: Implies(And(i >= 0, i < z3.Length(V)),
                                  W[i] == T.Cell.mkcell(T.Cell.ch(V[i]), RM_BG(T.Cell.catts(V[i])))))


def _nwar_effect(a, st, res):
    if tuple(a.attributes) == ("bg",) and z3.is_expr(a.self):
        xs = T.FmtS.chunks(a.self)
        st.fact(T.FmtS.chunks(res.t) == NOBG(xs))
        nobg_facts(st, xs)


A.new_with_atts_removed.effect = _nwar_effect


def cells_nth_facts(st, s, at):
    """CELLS(s, at)[j] == (s[j], at)   (definition of CELLS as a map; lean: cells_getElem)"""
    C = T.CELLS(s, at)
    st.fact(z3.Length(C) == z3.Length(s))
    st.add_inst(lambda j: Implies(And(j >= 0, j < z3.Length(s)), C[j] == T.Cell.mkcell(s[j], at)))


def spaces_nth_facts(st, k):
    sp = T.SPACES(k)
    st.fact(z3.Length(sp) == z3.If(k > 0, k, 0))
    st.add_inst(lambda j: Implies(And(j >= 0, j < z3.Length(sp)), sp[j] == 32))


# ------------------------------------------------------------------ ljust / rjust
def _just_ensures(left):
    def ens(a, r):
        if not z3.is_expr(a.self):
            return _just_concrete(left, a, r)
        st = a.final_state
        xs = T.FmtS.chunks(a.self)
        V, R = T.VIEW(xs), cells(r)
        n = z3.Length(V)
        pad = S.Max(0, a.width - n)
        off = z3.IntVal(0) if left else pad          # where the original characters start in the result
        ps = n if left else z3.IntVal(0)             # where the padding starts
        st.add_index(ps)
        st.add_index(z3.IntVal(0))
        P = T.Cell.catts(R[ps])
        return [("post.length_of_str_just", z3.Length(R) == n + pad),
                ("post.text_kept", lambda i: Implies(And(i >= 0, i < n), T.Cell.ch(R[off + i]) == T.Cell.ch(V[i]))),
                ("post.padding_is_blanks", lambda j: Implies(And(j >= 0, j < pad), T.Cell.ch(R[ps + j]) == 32)),
                ("post.own_formatting_kept_but_for_an_unshared_background",
                 lambda i: Implies(And(i >= 0, i < n), Or(T.Cell.catts(R[off + i]) == T.Cell.catts(V[i]),
                                                          T.Cell.catts(R[off + i]) == RM_BG(T.Cell.catts(V[i]))))),
                ("post.padding_uniform", lambda j: Implies(And(j >= 0, j < pad), T.Cell.catts(R[ps + j]) == P)),
                ("post.padding_shows_only_formatting_every_character_has",
                 lambda i: Implies(And(pad > 0, i >= 0, i < z3.Length(xs), z3.Length(T.ChunkS.s(xs[i])) > 0),
                                   And(*[Implies(FIELD[k](P) != 0, FIELD[k](T.ChunkS.atts(xs[i])) == FIELD[k](P)) for k in ATT_KEYS])))]
    return ens


def _just_concrete(left, a, r):
    from bounded.common import cells as ccells
    V, R = ccells(a.self), ccells(r)
    n = len(V)
    pad = max(0, a.width - n)
    off, ps = (0, n) if left else (pad, 0)
    own = R[off:off + n]
    padc = R[ps:ps + pad]
    nobg = lambda at: tuple(x for x in at if x[0] != "bg")
    out = [("post.length_of_str_just", len(R) == n + pad),
           ("post.text_kept", [c for c, _ in own] == [c for c, _ in V]),
           ("post.padding_is_blanks", all(c == " " for c, _ in padc)),
           ("post.own_formatting_kept_but_for_an_unshared_background", all(b == a0 or b == nobg(a0) for (_, a0), (_, b) in zip(V, own))),
           ("post.padding_uniform", len({b for _, b in padc}) <= 1)]
    if padc and V:
        P = padc[0][1]
        out.append(("post.padding_shows_only_formatting_every_character_has", all(set(P) <= set(a0) for _, a0 in V)))
    return out


def _just_requires(a):
    if not z3.is_expr(a.self):
        return True
    xs = T.FmtS.chunks(a.self)
    return [T.Lemmas.list_basic(xs)]


def _mk(name, left):
    c = Contract(M + "FmtStr." + name, "C15", ["self", "width", "fillchar"], kind="method", defaults={"fillchar": None},
                 shapes=[Shape("pad_with_blanks", dict(self=FmtT(), width=IntT(), fillchar=NoneT))],
                 ensures=_just_ensures(left), result=FmtT(), callees={"fmtstr": M + "fmtstr#attributes"})
    c.raises_allowed = ("ValueError",)      # parse_args rejects attribute values that are not valid codes (a run built by hand with them)
    return c


ljust = _mk("ljust", True)
rjust = _mk("rjust", False)
CONTRACTS = [ljust, rjust]


# ------------------------------------------------------------------ fmtstr(plain string, **attributes): the body behind the callee form above
#   Complete finite split over WHICH keys are present (2^8 key sets; values symbolic in the Atts encoding): the real fmtstr with the
#   real parse_args inlined returns one run with the text and exactly those attributes, and raises ValueError iff fg / bg is not a
#   colour code of the tables (read from the real module on every run).  This is what the callee form promises ("... or ValueError").
from pyvc.contract import StrT, ConstT, AttsDictT


def _color_values():
    import importlib
    tf = importlib.import_module("curtsies.termformatconstants")
    return sorted(set(tf.FG_COLORS.values())), sorted(set(tf.BG_COLORS.values()))


def _bad_color(a):
    fgs, bgs = _color_values()
    kw = a._raw["kwargs"]
    d = a._st.deref(kw).items if hasattr(a, "_st") and not isinstance(kw, dict) else a.kwargs
    conds = []
    for k, vals in (("fg", fgs), ("bg", bgs)):
        if k in d:
            v = d[k].t if isinstance(d[k], Sym) else d[k]
            conds.append(Not(Or(*[v == x for x in vals])) if z3.is_expr(v) else (v not in vals))
    if not conds:
        return False
    return Or(*conds) if any(z3.is_expr(c) for c in conds) else any(conds)


def _kw_body_ensures(a, r):
    d = a.kwargs
    at = alpha({k: (v.t if isinstance(v, Sym) else v) for k, v in d.items()}) if isinstance(d, dict) else d
    st = getattr(a, "final_state", None)
    if st is not None:
        st.add_index(z3.IntVal(0))          # the single run of the result
    return [("post.one_run_with_exactly_the_given_attributes", r == T.FmtS.mkfmt(z3.Unit(T.ChunkS.mkchunk(a.string, at))))]


def fmtstr_kw_bodies(tier):
    import itertools
    out = []
    sizes = range(0, 9)             # all 256 key sets in both tiers (960 obligations, about 10 s)
    for n in sizes:
        for ks in itertools.combinations(ATT_KEYS, n):
            c = Contract(M + "fmtstr#attributes_" + ("_".join(ks) if ks else "none"), "C14", ["string", "*args", "**kwargs"],
                         shapes=[Shape("keys_" + ("_".join(ks) if ks else "none"), dict(string=StrT(plain=True), args=ConstT(()), kwargs=AttsDictT(ks)))],
                         raises={"ValueError": _bad_color}, ensures=_kw_body_ensures, result=FmtT())
            c.inline = {"parse_args": "formatstring:parse_args"}
            out.append(c)
    return out
