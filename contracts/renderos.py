"""C12 (tier 2): what a render does to the state that the window's context restores.

The enter -> exit protocol runs (contracts/contexts.py) prove that leaving a window context restores what ENTERING changed.  What the
application does in between is `render_to_terminal`; for the property to hold after any body, a render must itself leave every restored
component as it found it - in particular a window constructed with hide_cursor=False hides the cursor for the duration of each render and
`__exit__` does not show it again, so every path through a render that hid the cursor must show it again.

Contract (both window classes, every terminal size >= 0 - a terminal may report 0x0 -, any array, any cursor_pos, any cache):
   a cursor that was visible before the render is visible after it; the alternate-screen state, tty attributes, file status flags, SIGINT
   handler, wake-up descriptor and number of open descriptors are what they were.
Nothing is assumed or proved about the screen here (C02 / C07 do that): the loop invariants only carry the OS ghost state through."""
import z3
from pyvc import terms as T
from pyvc.spec import And, Or, Not, Implies, If
from pyvc.contract import Contract, Shape, Loop, IntT, BoolT, ObjT
import contracts.osmodel as OSM
from contracts.osmodel import init_os, same
import contracts.cursorwindow  # noqa: F401  (callee contracts of the cursor-aware render: xform, scroll_down, get_cursor_position ...)
from contracts.fullscreen import LineSeqT, SymDictT, PairT, HIDE, NORMAL, CLEAR_EOL, CLEAR_BOL

M = "window:"
KEPT = ("os.alt", "os.tty", "os.flags", "os.wakeup", "os.fds")


def _os_inv(L):
    g = L._st.ghost
    e = g["os.entry"]
    hide = L.old.self.hide_cursor
    return [g["os.cursor"] == If(hide, e["os.cursor"], False)] + [same(g[k], e[k]) for k in KEPT]


def _ensures(a, r):
    g = a.final_state.ghost
    e = g["os.entry"]
    out = [("render.a_visible_cursor_is_visible_afterwards", Implies(e["os.cursor"], g["os.cursor"]))]
    out += [(f"render.leaves.{k.split('.')[1]}", same(g[k], e[k])) for k in KEPT]
    out.append(("render.leaves.sigint", same(g["os.sigint"], e["os.sigint"])))
    return out


def _setup(st, values):
    init_os(st)


_T = dict(hide_cursor=HIDE, normal_cursor=NORMAL, clear_eol=CLEAR_EOL, clear_bol=CLEAR_BOL)

fs_render_os = Contract(
    M + "FullscreenWindow.render_to_terminal#os_state", "C12", ["self", "array", "cursor_pos"], kind="method",
    shapes=[Shape("any", dict(self=ObjT("FullscreenWindow", dict(
        hide_cursor=BoolT(), height=IntT(0), width=IntT(0), _last_rendered_height=IntT(), _last_rendered_width=IntT(),
        _last_lines_by_row=SymDictT(), t=ObjT("FsTerminal", dict(_T)))), array=LineSeqT(), cursor_pos=PairT()))],
    ensures=_ensures, loops={0: Loop(inv=_os_inv), 1: Loop(inv=_os_inv)})
fs_render_os.symdict = True
fs_render_os.inline_methods = ("on_terminal_size_change",)
fs_render_os.setup = _setup

caw_render_os = Contract(
    M + "CursorAwareWindow.render_to_terminal#os_state", "C12", ["self", "array", "cursor_pos"], kind="method",
    shapes=[Shape("any", dict(self=ObjT("CursorAwareWindow", dict(
        hide_cursor=BoolT(), top_usable_row=IntT(), _last_rendered_height=IntT(), _last_rendered_width=IntT(),
        _last_lines_by_row=SymDictT(), _last_cursor_row=IntT(), _last_cursor_column=IntT(),
        t=ObjT("FsTerminal", dict(_T, height=IntT(0), width=IntT(0))))), array=LineSeqT(), cursor_pos=PairT()))],
    ensures=_ensures, loops={0: Loop(inv=_os_inv), 1: Loop(inv=_os_inv), 2: Loop(inv=_os_inv)})
caw_render_os.symdict = True
caw_render_os.inline_methods = ("on_terminal_size_change",)
caw_render_os.setup = _setup

CONTRACTS = [fs_render_os, caw_render_os]
