"""Sidecar contracts for curtsies/events.py (C03 per-call decoding contract, C20 mode independence).

A call get_key(bytes_, encoding, keynames, full) with seq = b"".join(bytes_), |seq| = n fixed per shape and every byte
symbolic (0..255), is loop-free: full-domain symbolic inputs give a complete proof of the per-call contract for all
256^n inputs.  Tables (CURTSIES_NAMES, CURSES_NAMES, KEYMAP_PREFIXES, MAX_KEYPRESS_SIZE) are taken by value from the
real module on every run; the facts the proofs rely on are separate table obligations (props/C03.py)."""
import z3
from pyvc import terms as T
from pyvc.spec import And, Or, Not, Implies, If
from pyvc.contract import Contract, Shape, TypeSpec, ConstT, BoolT
from pyvc.values import Sym, ListV, fresh, mk_bool, Unsupported
from pyvc.verify import load_module
from spec import utf8

M = "events:"
EV = load_module("events")
ENCODINGS = ("utf-8", "ascii", "latin-1")
DECODE = {e: z3.Function("DECODE_" + e.replace("-", ""), T.SI, T.SI) for e in ENCODINGS}


class ByteListT(TypeSpec):
    """list of n one-byte bytes objects, every byte symbolic"""

    def __init__(self, n):
        self.n = n

    def fresh(self, name, st):
        items = []
        for i in range(self.n):
            b = fresh(f"b{i}", T.I)
            st.assume(b >= 0, b <= 255)
            items.append(Sym("bytes", z3.Unit(b)))
        return st.alloc(ListV(items=items))

    def concretize(self, value_ref, model, cx):
        raise NotImplementedError


class BytesT(TypeSpec):
    """a bytes object of n symbolic bytes"""
    tag = "bytes"

    def __init__(self, n):
        self.n = n

    def fresh(self, name, st):
        bs = []
        for i in range(self.n):
            b = fresh(f"b{i}", T.I)
            st.assume(b >= 0, b <= 255)
            bs.append(z3.Unit(b))
        t = bs[0] if len(bs) == 1 else z3.Concat(*bs)
        return Sym("bytes", t)


def byte_terms(x):
    """byte values of a bytes value: python bytes -> ints; SMT term of statically known length -> terms"""
    if isinstance(x, (bytes, bytearray)):
        return list(x)
    if isinstance(x, list):            # list of one-byte values
        out = []
        for e in x:
            out.extend(byte_terms(e))
        return out
    n = z3.simplify(z3.Length(x))
    if not z3.is_int_value(n):
        raise Unsupported("bytes value of unknown length in an events contract")
    return [z3.simplify(x[i]) for i in range(n.as_long())]


def in_table(bs, table):
    ks = [k for k in table if len(k) == len(bs)]
    return Or(*[And(*[b == kb for b, kb in zip(bs, k)]) for k in ks]) if ks else False


def valid_enc(bs, enc):
    if enc == "utf-8":
        return utf8.valid(bs)
    if enc == "ascii":
        return And(*[b < 128 for b in bs]) if bs else True
    return True


def lead_longer_utf8(bs):
    """what could_be_unfinished_utf8 tests: the lead byte announces a character longer than the bytes present"""
    o, n = bs[0], len(bs)
    return Or(And(o >= 0xC0, o <= 0xDF, n < 2), And(o >= 0xE0, o <= 0xEF, n < 3), And(o >= 0xF0, o <= 0xF7, n < 4),
              And(o >= 0xF8, o <= 0xFB, n < 5), And(o >= 0xFC, o <= 0xFD, n < 6))


def unfinished_code(bs, enc):
    """could_be_unfinished_char as specified by its docstring + encoding classes"""
    if enc == "utf-8":
        return And(Not(valid_enc(bs, enc)), lead_longer_utf8(bs))
    if enc == "ascii":
        return False
    return False        # latin-1: everything decodes


def can_grow_into_char(bs, enc):
    """statement level: the bytes so far are a proper prefix of one validly encoded character"""
    if enc == "utf-8":
        return utf8.proper_prefix_of_char(bs)
    return False


# ------------------------------------------------------------------ external: bytes.decode
def _decode_result(a, st):
    return Sym("str", DECODE[a.encoding](a.self))


decode_ext = Contract("ext:bytes.decode", "C03", ["self", "encoding"], shapes=[], result=_decode_result,
                      raises={"UnicodeDecodeError": lambda a: Not(valid_enc(byte_terms(a.self), a.encoding))},
                      doc="ASSUMED: bytes.decode(enc) raises UnicodeDecodeError exactly on ill-formed input (spec/utf8.py, validated against CPython)")
decode_ext.assumed = True


def _enc_shapes(maxn, extra=None):
    out = []
    for n in range(1, maxn + 1):
        for enc in ENCODINGS:
            d = dict(seq=BytesT(n), encoding=ConstT(enc))
            if extra:
                d.update(extra)
            out.append(Shape(f"n{n}_{enc}", d))
    return out


MAXN = EV.MAX_KEYPRESS_SIZE

decodable = Contract(M + "decodable", "C03", ["seq", "encoding"], shapes=_enc_shapes(4),
                     ensures=lambda a, r: [("post.decodable", r == valid_enc(byte_terms(a.seq), a.encoding))],
                     result=lambda a, st: mk_bool(_b(valid_enc(byte_terms(a.seq), a.encoding))))

unfinished_utf8 = Contract(M + "could_be_unfinished_utf8", "C03", ["seq"],
                           shapes=[Shape(f"n{n}", dict(seq=BytesT(n))) for n in range(1, 7)],
                           ensures=lambda a, r: [("post.lead_byte_class", r == lead_longer_utf8(byte_terms(a.seq)))],
                           result=lambda a, st: mk_bool(_b(lead_longer_utf8(byte_terms(a.seq)))))

unfinished_char = Contract(M + "could_be_unfinished_char", "C03", ["seq", "encoding"], shapes=_enc_shapes(4),
                           ensures=lambda a, r: [("post.unfinished", r == unfinished_code(byte_terms(a.seq), a.encoding))],
                           result=lambda a, st: mk_bool(_b(unfinished_code(byte_terms(a.seq), a.encoding))),
                           callees={"decodable": M + "decodable", "could_be_unfinished_utf8": M + "could_be_unfinished_utf8"})


def _b(x):
    return z3.BoolVal(x) if isinstance(x, bool) else x


# ------------------------------------------------------------------ _key_name
def name_term(seq_term, bs, enc, mode):
    """the name the statement gives a recognised key: table name in the mode's table, else the decoded character"""
    def ite(table):
        ks = [k for k in table if len(k) == len(bs)]
        term = DECODE[enc](seq_term)
        for k in ks:
            term = z3.If(And(*[b == kb for b, kb in zip(bs, k)]), T.str_term(table[k]), term)
        return term
    if mode is EV.Keynames.CURTSIES:
        return ite(EV.CURTSIES_NAMES)
    if mode is EV.Keynames.CURSES:
        return ite(EV.CURSES_NAMES)
    return seq_term


def _kn_ensures(a, r):
    bs = byte_terms(a.seq)
    enc, mode = a.encoding, a.keynames
    V = valid_enc(bs, enc)
    if mode is EV.Keynames.BYTES:
        return [("post.bytes_mode_is_identity", r == a.seq)]
    table = EV.CURTSIES_NAMES if mode is EV.Keynames.CURTSIES else EV.CURSES_NAMES
    if isinstance(r, str) and z3.is_expr(a.seq):
        r = T.str_term(r)
    if isinstance(r, str):          # run time
        exp = table.get(bytes(bs)) if bytes(bs) in table else (bytes(bs).decode(enc) if V else None)
        return [("post.name", exp is None or r == exp)]
    if not z3.is_expr(r):
        return [("post.name", Implies(Or(in_table(bs, table), V), False))]      # an opaque (formatted) name: only for undecodable single bytes
    return [("post.name", Implies(Or(in_table(bs, table), V), r == name_term(a.seq, bs, enc, mode)))]


def _kn_shapes(maxn):
    out = []
    for n in range(1, maxn + 1):
        for enc in ENCODINGS:
            for mode in EV.Keynames:
                out.append(Shape(f"n{n}_{enc}_{mode.name}", dict(seq=BytesT(n), encoding=ConstT(enc), keynames=ConstT(mode))))
    return out


def key_name_contract(maxn):
    return Contract(M + "_key_name", "C03", ["seq", "encoding", "keynames"], shapes=_kn_shapes(maxn),
                    # called by get_key only for known keys: in a table or decodable
                    requires=lambda a: Or(in_table(byte_terms(a.seq), EV.CURTSIES_NAMES), in_table(byte_terms(a.seq), EV.CURSES_NAMES),
                                          valid_enc(byte_terms(a.seq), a.encoding)),
                    raises={"UnicodeDecodeError": lambda a: And(a.keynames is EV.Keynames.CURTSIES,
                                                                Not(in_table(byte_terms(a.seq), EV.CURTSIES_NAMES)),
                                                                Not(valid_enc(byte_terms(a.seq), a.encoding))),
                            "NotImplementedError": lambda a: False},
                    ensures=_kn_ensures,
                    result=lambda a, st: (a._raw["seq"] if a.keynames is EV.Keynames.BYTES else Sym("str", fresh("key_name", T.SI))))


# ------------------------------------------------------------------ get_key
def _gk_facts(a):
    bs = byte_terms(a.bytes_)
    enc = a.encoding
    K = Or(in_table(bs, EV.CURTSIES_NAMES), in_table(bs, EV.CURSES_NAMES), valid_enc(bs, enc))
    P = in_table(bs, EV.KEYMAP_PREFIXES)
    return bs, K, P


def _seq_of(a):
    parts = a.bytes_
    if all(z3.is_expr(p) for p in parts):
        return parts[0] if len(parts) == 1 else z3.Concat(*parts)
    return b"".join(parts)


def _gk_ensures(a, r):
    bs, K, P = _gk_facts(a)
    enc, mode, full = a.encoding, a.keynames, a.full
    U_code = unfinished_code(bs, enc)
    U_spec = And(Not(valid_enc(bs, enc)), can_grow_into_char(bs, enc))
    immediate = And(full, K)
    more = And(Not(immediate), Or(P, U_code))
    seq = _seq_of(a)
    out = []
    if r is None:
        out.append(("G1.asks_for_more_only_when_it_can_grow", Or(P, U_code)))
        out.append(("G2.known_key_at_end_of_input_is_reported", Not(immediate)))
        # on input that can come from valid streams the code's lead-byte test coincides with "can still grow into a character"
        # (under utf-8 the single-byte 8-bit Meta keys collide with lead bytes by design and count as recognised only at the
        #  end of a read, so a lone high byte followed by more input is not "valid input")
        meta_collision = And(enc == "utf-8", len(bs) == 1, bs[0] >= 0x80)
        out.append(("G1.valid_input", Implies(Or(And(K, Not(meta_collision)), P, U_spec), Or(P, U_spec))))
        return out
    out.append(("G1.more_input_is_asked_for", Not(more)))
    out.append(("G3.not_asked_for_more_means_known", K))
    if mode is EV.Keynames.BYTES:
        out.append(("G5.bytes_mode_returns_the_bytes", r == seq))
    elif isinstance(r, str) and not all(isinstance(b, int) for b in bs):
        r = T.str_term(r)
    if mode is not EV.Keynames.BYTES and z3.is_expr(r):
        table = EV.CURTSIES_NAMES if mode is EV.Keynames.CURTSIES else EV.CURSES_NAMES
        out.append(("G2.name", Implies(Or(in_table(bs, table), valid_enc(bs, enc)), r == name_term(seq, bs, enc, mode))))
    return out


def _gk_shapes(ns, modes=None):
    out = []
    for n in ns:
        for enc in ENCODINGS:
            for mode in (modes or list(EV.Keynames)):
                out.append(Shape(f"n{n}_{enc}_{mode.name}", dict(bytes_=ByteListT(n), encoding=ConstT(enc), keynames=ConstT(mode), full=BoolT())))
    return out


def get_key_contract(ns):
    def raises_ude(a):
        bs, K, P = _gk_facts(a)
        if len(bs) > MAXN:
            return False
        return And(Not(K), Not(P), Not(unfinished_code(bs, a.encoding)))

    def raises_ude_curtsies(a):
        return raises_ude(a)
    c = Contract(M + "get_key", "C03", ["bytes_", "encoding", "keynames", "full"], shapes=_gk_shapes(ns),
                 raises={"ValueError": lambda a: len(byte_terms(a.bytes_)) > MAXN,
                         "UnicodeDecodeError": raises_ude},
                 ensures=_gk_ensures,
                 callees={"decodable": M + "decodable", "could_be_unfinished_char": M + "could_be_unfinished_char", "_key_name": M + "_key_name"})
    return c
