"""Sidecar contracts for curtsies/window.py (integer bookkeeping: C18 movement conservation, C07 scroll accounting)."""
import z3
from pyvc import terms as T
from pyvc import spec as S
from pyvc.spec import And, Or, Not, Implies, If
from pyvc.contract import Contract, Shape, Loop, IntT, BoolT, ConstT, NoneT, ObjT, OptIntT
from pyvc.values import Sym, fresh, mk_int

M = "window:"
_I = IntT


def _caw(last_row, in_diff=None):
    """a CursorAwareWindow in an arbitrary state; ghost fields record what the terminal reported"""
    return ObjT("CursorAwareWindow", dict(
        top_usable_row=_I(), _last_cursor_row=last_row, another_sigwinch=BoolT(),
        in_get_cursor_diff=(BoolT() if in_diff is None else in_diff),
        ghost_reported_row=0, ghost_moved=_I(), ghost_queries=_I(0)))


# ---------------------------------------------------------------------------------------------
# ASSUMED: get_cursor_position() returns the reported zero-based (row, col), row >= 0.  While the query is
# in progress a nested get_cursor_vertical_diff (SIGWINCH handler) may arrive: by that function's own
# contract (proved below, shape `nested`) it only sets another_sigwinch and returns 0.
# The parse itself is decided by the bounded suite of C18.
# ---------------------------------------------------------------------------------------------
def _gcp_result(a, st):
    return (Sym("int", fresh("reported_row", T.I)), Sym("int", fresh("reported_col", T.I)))


def _gcp_effect(a, st, res):
    o = st.deref(a._raw["self"])
    st.fact(res[0].t >= 0, res[1].t >= 0)
    o.fields["ghost_reported_row"] = res[0]
    o.fields["ghost_queries"] = mk_int(S_int(o.fields["ghost_queries"]) + 1)
    nested = fresh("nested_sigwinch", T.B)
    cur = o.fields["another_sigwinch"]
    cur_t = cur.t if isinstance(cur, Sym) else z3.BoolVal(cur)
    # a nested call can only arrive while in_get_cursor_diff is set (it then sets the flag); otherwise the flag is untouched
    ing = o.fields["in_get_cursor_diff"]
    ing_t = ing.t if isinstance(ing, Sym) else z3.BoolVal(ing)
    from pyvc.values import mk_bool
    o.fields["another_sigwinch"] = mk_bool(z3.Or(cur_t, z3.And(ing_t, nested)))


def S_int(v):
    return v.t if isinstance(v, Sym) else z3.IntVal(v)


get_cursor_position = Contract(M + "CursorAwareWindow.get_cursor_position", "C18", ["self"], kind="method", shapes=[],
                               result=_gcp_result, doc="ASSUMED: reports (row, col) >= 0; parse decided by the bounded suite")
get_cursor_position.effect = _gcp_effect
get_cursor_position.assumed = True


# ---------------------------------------------------------------------------------------------
# _get_cursor_vertical_diff_once: (top' - top) + result == r - l  (0 and top unchanged when l is None);
# _last_cursor_row' == r                                                                   C18
# ---------------------------------------------------------------------------------------------
def _once_ensures(a, r):
    o, f = a.self, a.final.self
    rep = f.ghost_reported_row
    if z3.is_expr(o._last_cursor_row) and o._last_cursor_row.sort() == T.OptInt:
        lo = o._last_cursor_row
        return [("post.first_query", Implies(T.OptInt.is_none(lo), And(r == 0, f.top_usable_row == o.top_usable_row))),
                ("post.conserve", Implies(T.OptInt.is_some(lo), (f.top_usable_row - o.top_usable_row) + r == rep - T.OptInt.optv(lo))),
                ("post.last_row", _same_row(f._last_cursor_row, rep)), ("post.one_query", f.ghost_queries == o.ghost_queries + 1)]
    if o._last_cursor_row is None:
        return [("post.first_query", And(r == 0, f.top_usable_row == o.top_usable_row)),
                ("post.last_row", f._last_cursor_row == rep), ("post.one_query", f.ghost_queries == o.ghost_queries + 1)]
    return [("post.conserve", (f.top_usable_row - o.top_usable_row) + r == rep - o._last_cursor_row),
            ("post.last_row", f._last_cursor_row == rep), ("post.one_query", f.ghost_queries == o.ghost_queries + 1)]


def _same_row(x, rep):
    if z3.is_expr(x) and x.sort() == T.OptInt:
        return x == T.OptInt.some(rep)
    return x == rep


def _once_inv(L):
    s, o = L.self, L.old.self
    last = o._last_cursor_row
    if z3.is_expr(last) and last.sort() == T.OptInt:
        last = T.OptInt.optv(last)
    return [s.top_usable_row + L.cursor_dy == o.top_usable_row + (L.row - last),
            s.ghost_reported_row == L.row, s.ghost_queries == o.ghost_queries + 1]


def _once_effect(a, st, res):
    """callee form used by get_cursor_vertical_diff"""
    o = st.deref(a._raw["self"])
    _gcp_effect(a, st, (Sym("int", fresh("reported_row", T.I)), Sym("int", fresh("reported_col", T.I))))
    rep = o.fields["ghost_reported_row"]
    last = o.fields["_last_cursor_row"]
    top0 = S_int(o.fields["top_usable_row"])
    top1 = fresh("top_after", T.I)
    if last is None:
        moved = z3.IntVal(0)
        st.fact(res.t == 0, top1 == top0)
    elif isinstance(last, Sym) and last.tag == "optint":
        moved = z3.If(T.OptInt.is_none(last.t), 0, rep.t - T.OptInt.optv(last.t))
        st.fact(z3.Implies(T.OptInt.is_none(last.t), z3.And(res.t == 0, top1 == top0)))
    else:
        moved = rep.t - S_int(last)
    st.fact((top1 - top0) + res.t == moved)
    o.fields["top_usable_row"] = Sym("int", top1)
    o.fields["_last_cursor_row"] = Sym("optint", T.OptInt.some(rep.t))
    o.fields["ghost_moved"] = mk_int(S_int(o.fields["ghost_moved"]) + moved)


once = Contract(
    M + "CursorAwareWindow._get_cursor_vertical_diff_once", "C18", ["self"], kind="method",
    shapes=[Shape("first", dict(self=_caw(None))), Shape("later", dict(self=_caw(_I()))), Shape("optional", dict(self=_caw(OptIntT())))],
    ensures=_once_ensures, result=IntT(),
    loops={0: Loop(inv=_once_inv), 1: Loop(inv=_once_inv)})
once.effect = _once_effect
once.modifies = ["top_usable_row", "_last_cursor_row", "ghost_moved", "ghost_reported_row", "ghost_queries", "another_sigwinch"]
get_cursor_position.modifies = ["ghost_reported_row", "ghost_queries", "another_sigwinch"]


# ---------------------------------------------------------------------------------------------
# get_cursor_vertical_diff: every observed movement accounted exactly once; re-entrant call returns 0
# and only raises the flag; in_get_cursor_diff is False on return                         C18
# ---------------------------------------------------------------------------------------------
def _diff_ensures(a, r):
    o, f = a.self, a.final.self
    nested = o.in_get_cursor_diff
    if nested is True:
        # (the guard belongs to the call that is reading its report: the nested call leaves it set, or a second signal during the
        #  same query would start a query of its own in the middle of the outer call's report)
        return [("post.nested", And(r == 0, f.another_sigwinch == True, f.top_usable_row == o.top_usable_row,  # noqa: E712
                                    f.ghost_queries == o.ghost_queries)),
                ("post.nested_leaves_the_guard_set", f.in_get_cursor_diff == True),  # noqa: E712
                ("post.nested_leaves_the_last_row", f._last_cursor_row == o._last_cursor_row)]
    return [("post.conserve", (f.top_usable_row - o.top_usable_row) + r == f.ghost_moved - o.ghost_moved),
            ("post.flag", f.in_get_cursor_diff == False),  # noqa: E712
            ("post.queried", f.ghost_queries >= o.ghost_queries + 1)]


diff = Contract(
    M + "CursorAwareWindow.get_cursor_vertical_diff", "C18", ["self"], kind="method",
    shapes=[Shape("nested", dict(self=_caw(OptIntT(), in_diff=True))),
            Shape("outer", dict(self=_caw(OptIntT(), in_diff=False)))],
    ensures=_diff_ensures, result=IntT(),
    loops={0: Loop(inv=lambda L: [(L.self.top_usable_row - L.old.self.top_usable_row) + L.cursor_dy ==
                                  L.self.ghost_moved - L.old.self.ghost_moved,
                                  L.self.ghost_queries >= L.old.self.ghost_queries + If(L.k > 0, 1, 0)])})


# ---------------------------------------------------------------------------------------------
# CursorAwareWindow.render_to_terminal: scroll accounting (integers only)                   C07
#   Everything that is not integer bookkeeping (row cache dicts, lines, escape strings) is ABSTRACTED: opaque values,
#   comparisons on them are unknown booleans (both outcomes explored).  Proved for every array length n, terminal
#   height H >= 1 and top usable row T0 >= 0:
#     scroll_down() is called exactly  max(0, n - max(0, H - T0))  times,
#     top_usable_row' = max(0, T0 - scrolls),   return value = scrolls - (T0 - top_usable_row'),
#     _last_cursor_row' = max(0, cursor_pos[0] - return + top_usable_row').
#   What the terminal then shows is decided by the bounded suite of C07.
# ---------------------------------------------------------------------------------------------
from pyvc.contract import TypeSpec
from pyvc.values import AbsSeq, AbsV, OpaqueV
from pyvc.spec import Max, Min
import contracts.osmodel as _OSM


class AbsSeqT(TypeSpec):
    def fresh(self, name, st):
        n = fresh(name + "_len", T.I)
        st.assume(n >= 0)
        return AbsSeq(n)


class AbsDictT(TypeSpec):
    def fresh(self, name, st):
        return st.alloc(AbsV(fresh(name, T.I), kind="dict"))


class IntPairT(TypeSpec):
    def fresh(self, name, st):
        return (Sym("int", fresh(name + "_row", T.I)), Sym("int", fresh(name + "_col", T.I)))


for _cap in ("move", "move_x", "move_down", "clear_eos", "clear_eol", "clear_bol"):
    if ("ext:BlessedTerminal." + _cap) not in __import__("pyvc.contract", fromlist=["REGISTRY"]).REGISTRY:
        Contract("ext:BlessedTerminal." + _cap, "C07", ["self", "*args"], shapes=[], result=lambda a, st: OpaqueV("capability text"))



def _scroll_effect(a, st, res):
    st.ghost["scrolls"] = st.ghost.get("scrolls", z3.IntVal(0)) + 1
    if "term.off" in st.ghost:      # tape model of C07 (contracts/cursorwindow.py): the screen moves one cell down the tape
        st.ghost["term.off"] = st.ghost["term.off"] + 1


scroll_down = Contract(M + "BaseWindow.scroll_down", "C07", ["self"], kind="method", shapes=[],
                       doc="ASSUMED (decided by the bounded suite): scrolls the screen by exactly one line")
scroll_down.effect = _scroll_effect
scroll_down.assumed = True
xform = Contract(M + "BaseWindow.fmtstr_to_stdout_xform", "C07", ["self"], kind="method", shapes=[],
                 result=lambda a, st: OpaqueV("for_stdout"), doc="ASSUMED: returns a function from a line to its terminal string")
xform.assumed = True


def _render_obj():
    return ObjT("CursorAwareWindow", dict(
        hide_cursor=BoolT(), top_usable_row=_I(0), _last_rendered_height=_I(), _last_rendered_width=_I(), _last_lines_by_row=AbsDictT(),
        _last_cursor_row=_I(), _last_cursor_column=_I(),
        t=ObjT("BlessedTerminal", dict(height=_I(1), width=_I(1), hide_cursor="\x1b[?25l", normal_cursor="\x1b[?12l\x1b[?25h",
                                      clear_eol="\x1b[K", clear_bol="\x1b[1K"))))


def _render_ensures(a, r):
    o, f = a.self, a.final.self
    st = a.final_state
    n, H, T0 = a.array.n, o.t.height, o.top_usable_row
    scrolls = st.ghost.get("scrolls", z3.IntVal(0))
    want_scrolls = Max(0, n - Max(0, H - T0))
    T1 = Max(0, T0 - want_scrolls)
    ret = want_scrolls - (T0 - T1)
    return [("post.scrolls_exactly_what_does_not_fit", scrolls == want_scrolls),
            ("post.top_usable_row", f.top_usable_row == T1),
            ("post.returns_rows_pushed_off_the_top", r == ret),
            ("post.cursor_row", f._last_cursor_row == Max(0, a.cursor_pos[0] - ret + T1)),
            ("post.cursor_column", f._last_cursor_column == a.cursor_pos[1]),
            ("post.size_remembered", And(f._last_rendered_height == H, f._last_rendered_width == o.t.width))]


def _render_loop2(L):
    o = L.old.self
    k, T0 = L.k, o.top_usable_row
    sc = L._st.ghost.get("scrolls", z3.IntVal(0))
    return [sc == k, L.self.top_usable_row == Max(0, T0 - k), L.offscreen_scrolls == Max(0, k - T0),
            L.height == o.t.height, L.width == o.t.width]


def _render_loop01(L):
    o = L.old.self
    sc = L._st.ghost.get("scrolls", z3.IntVal(0))
    return [sc == 0, L.self.top_usable_row == o.top_usable_row, L.height == o.t.height, L.width == o.t.width]


caw_render = Contract(
    M + "CursorAwareWindow.render_to_terminal", "C07", ["self", "array", "cursor_pos"], kind="method",
    shapes=[Shape("any", dict(self=_render_obj(), array=AbsSeqT(), cursor_pos=IntPairT()))],
    ensures=_render_ensures,
    loops={0: Loop(inv=_render_loop01), 1: Loop(inv=_render_loop01), 2: Loop(inv=_render_loop2)})
caw_render.abstract = True
caw_render.inline_methods = ("on_terminal_size_change",)
caw_render.setup = lambda st, values: (_OSM.init_os(st), st.ghost.__setitem__("scrolls", z3.IntVal(0)))
