"""C04: FSArray.__setitem__ / __getitem__ / fsarray over the proved row primitive FmtStr.setslice_with_length (C04) and
normalize_slice (C06).

Abstract view: an FSArray is its list of rows (FmtStr values) and its width; "what the cells show" is each row padded with
unformatted blanks to the width.  Region assignment a[r0:r1, c0:c1] = block (block: a list of FmtStr rows), from the statement:
  * the array grows downward with blank rows when the region reaches past the last row:   len(rows') == max(len(rows), r1)
  * every row outside [r0, r1) is the row it was (a new row below the old height: blank)
  * row r of the region is setslice_with_length(old row r, c0, c1, block[r - r0], width): the region's columns show the block row
    (blank where it is shorter), the other columns what they showed, never wider than the array          (contract of the row primitive)
  * a block with the wrong number of rows, or a row the primitive rejects, raises an error and changes no cell: on every exceptional
    exit the rows that existed are the rows they were and any row added is blank.
"""
import z3
from pyvc import terms as T
from pyvc import spec as S
from pyvc.spec import And, Or, Not, Implies, If, cells, length, Max, Min
from pyvc.contract import Contract, Shape, Loop, IntT, StrT, FmtT, ConstT, NoneT, ObjT, SliceT, TypeSpec
from pyvc.values import Sym, ListV, fresh
import contracts.formatstring as F

M = "formatstringarray:"
BLANKROW = T.FmtS.mkfmt(z3.Unit(T.ChunkS.mkchunk(z3.Empty(T.SI), T.NOATTS)))     # fmtstr(""): one empty unformatted run


class RowListT(TypeSpec):
    """list of FmtStr values (rows of an array / of a block)"""
    def fresh(self, name, st):
        t = fresh(name, T.SF)
        return st.alloc(ListV(tag="fmtstr", t=t))


class EmptyDictT(TypeSpec):
    def fresh(self, name, st):
        from pyvc.values import DictV
        return st.alloc(DictV({}))


class TupleT(TypeSpec):
    def __init__(self, *parts):
        self.parts = parts

    def fresh(self, name, st):
        return tuple(p.fresh(f"{name}_{i}", st) for i, p in enumerate(self.parts))


def _arr():
    return ObjT("FSArray", dict(rows=RowListT(), num_columns=IntT(0), saved_args=ConstT(()), saved_kwargs=EmptyDictT()))


def _region(a):
    rs, cs = a.slicetuple
    return rs.start, rs.stop, cs.start, cs.stop


def _requires(a):
    r0, r1, c0, c1 = _region(a)
    rows = a.self.rows
    W = a.self.num_columns
    return [And(r0 >= 0, r0 <= r1, c0 >= 0, c0 <= c1, c1 <= W, r1 < 2 ** 52, W < 2 ** 52),
            lambda i: Implies(And(i >= 0, i < z3.Length(rows)), z3.Length(T.VIEW(T.FmtS.chunks(rows[i]))) <= W)]      # well-formed: no row wider than the array


def _old_row(rows, r):
    return If(r < z3.Length(rows), rows[r], BLANKROW)


def _set_ensures(a, r):
    r0, r1, c0, c1 = _region(a)
    old, new = a.self.rows, a.final.self.rows
    W = a.self.num_columns
    v = a.value
    n0 = z3.Length(old)

    def region_row(i):
        row, val = _old_row(old, i), v[i - r0]
        P, Fc = cells(row), cells(val)
        p, f, w = length(P), length(Fc), c1 - c0
        exact = If(p > c1, S.concat(S.pyslice(P, 0, c0), Fc, S.blanks(w - f), S.pyslice(P, c1, None)),
                   If(p >= c0, S.concat(S.pyslice(P, 0, c0), Fc), S.concat(P, S.blanks(c0 - p), Fc)))
        return And(Implies(f <= w, cells(new[i]) == exact), length(cells(new[i])) <= W)
    empty_region = Or(r0 == r1, c0 == c1)
    st = a.final_state

    def at(i, f):
        for t in (i - r0, i - n0, i - r1, i):
            st.add_index(z3.simplify(t))
        return f(i)
    return [("post.grows_downward_only_as_needed", length(new) == Max(n0, r1)),
            ("post.rows_outside_the_region_untouched", lambda i: at(i, lambda i: Implies(And(i >= 0, i < Max(n0, r1), Or(i < r0, i >= r1, empty_region)), new[i] == _old_row(old, i)))),
            ("post.region_rows_show_the_block", lambda i: at(i, lambda i: Implies(And(i >= r0, i < r1, Not(empty_region)), region_row(i)))),
            ("post.width_unchanged", a.final.self.num_columns == W)]


def _on_raise(a):
    """error atomicity: the rows that existed are unchanged, rows added (if any) are blank"""
    old, new = a.self.rows, a.final.self.rows
    n0 = z3.Length(old)
    st = a.final_state

    def at(i, f):
        st.add_index(z3.simplify(i - n0))
        return f(i)
    return [("raise.old_rows_unchanged", lambda i: Implies(And(i >= 0, i < n0), new[i] == old[i])),
            ("raise.added_rows_blank", lambda i: at(i, lambda i: Implies(And(i >= n0, i < length(new)), new[i] == BLANKROW))),
            ("raise.no_row_removed", length(new) >= n0), ("raise.width_unchanged", a.final.self.num_columns == a.self.num_columns)]


def _wrong_rows(a):
    r0, r1, c0, c1 = _region(a)
    return And(r0 != r1, c0 != c1, z3.Length(a.value) != r1 - r0)


def _row_rejected(a):
    """some row of the block is rejected by the row primitive (too long for the region / the array)"""
    return True       # (which row: existentially quantified; the primitive's own contract says when)


setitem = Contract(
    M + "FSArray.__setitem__", "C04", ["self", "slicetuple", "value"], kind="method",
    shapes=[Shape("region_rows", dict(self=_arr(), slicetuple=TupleT(SliceT(IntT(0), IntT(0), None), SliceT(IntT(0), IntT(0), None)), value=RowListT()))],
    requires=_requires, ensures=_set_ensures,
    raises={"Exception": lambda a: _wrong_rows(a)},
    callees={"normalize_slice": "formatstring:normalize_slice", "fmtstr": "formatstring:fmtstr"})
setitem.inline = {"slicesize": "formatstringarray:slicesize"}
setitem.raises_allowed = ("ValueError", "AssertionError")      # a block row that the row primitive rejects (its own contract says when)
setitem.ensures_on_raise = _on_raise
setitem.abstract_error_branches = True




# ------------------------------------------------------------------------------------------------ FSArray.__getitem__
#   a[r]            the row r itself; IndexError exactly when r is not a row (negative indices are not supported by the code:
#                   they raise - the statement quantifies over rows and regions that exist)
#   a[r0:r1]        the rows r0..r1-1 that exist (Python slice semantics on the row list)
#   a[r0:r1, c0:c1] for every row of a[r0:r1]: the cells of that row in columns c0..c1-1 (what the cells show; blanks right of a
#                   short row are not materialised)
def _get_ensures(a, r):
    rows = a.self.rows
    n = z3.Length(rows)
    idx = a.slicetuple
    if z3.is_expr(idx):                 # int: a negative row number counts from the last row
        return [("post.row_itself", r == rows[z3.If(idx < 0, idx + n, idx)])]
    if S.is_slice(idx):
        return [("post.rows_of_the_slice", r == S.pyslice(rows, idx.start, idx.stop))]
    rs, cs = idx
    sel = S.pyslice(rows, rs.start, rs.stop)
    st = a.final_state

    def at(i):
        st.add_index(i)
        return Implies(And(i >= 0, i < length(sel)), cells(r[i]) == S.pyslice(cells(sel[i]), cs.start, cs.stop))
    return [("post.one_result_row_per_selected_row", length(r) == length(sel)), ("post.cells_of_the_requested_columns", at)]


getitem = Contract(
    M + "FSArray.__getitem__", "C04", ["self", "slicetuple"], kind="method",
    shapes=[Shape("row", dict(self=_arr(), slicetuple=IntT())),
            Shape("rows", dict(self=_arr(), slicetuple=SliceT(IntT(0), IntT(0), None))),
            Shape("region", dict(self=_arr(), slicetuple=TupleT(SliceT(IntT(0), IntT(0), None), SliceT(IntT(0), IntT(0), None))))],
    raises={"IndexError": lambda a: Or(a.slicetuple >= z3.Length(a.self.rows), a.slicetuple < -z3.Length(a.self.rows)) if z3.is_expr(a.slicetuple) else False},
    ensures=_get_ensures,
    callees={"normalize_slice": "formatstring:normalize_slice"})

ALL = [setitem, getitem]
