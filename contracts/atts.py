"""C14: applying or removing formatting touches exactly the named attributes.
  * FrozenAttributes.extend / remove: complete finite split over which of the 8 attribute keys are present in
    each operand, attribute *values* symbolic -> decided by partial evaluation of the real body
  * copy_with_new_atts / new_with_atts_removed: pointwise (forall run) postconditions over those contracts
"""
import itertools
import z3
from pyvc import terms as T
from pyvc.terms import ATT_KEYS
from pyvc.spec import And, Or, Not, Implies, If, cells, length
from pyvc.contract import Contract, Shape, Loop, IntT, FmtT, AttsDictT, AttsT, ConstT
from pyvc.values import Sym, fresh
import contracts.formatstring  # noqa: F401

M = "formatstring:"
FIELD = {k: getattr(T.Atts, k) for k in ATT_KEYS}


def ext_term(a, d):
    """dict merge on the Atts datatype: keys of d override"""
    return T.Atts.mkatts(*[z3.If(FIELD[k](d) != 0, FIELD[k](d), FIELD[k](a)) for k in ATT_KEYS])


def rem_term(a, keys):
    return T.Atts.mkatts(*[z3.IntVal(0) if k in keys else FIELD[k](a) for k in ATT_KEYS])


def alpha(d):
    """abstraction of a dict with symbolic values to the Atts datatype; None if it has a key outside the universe"""
    if any(k not in ATT_KEYS for k in d):
        return None
    return T.Atts.mkatts(*[(d[k] if z3.is_expr(d[k]) else z3.IntVal(d[k])) if k in d else z3.IntVal(0) for k in ATT_KEYS])


# ------------------------------------------------------------------ callee forms (functional results on Atts values)
def _enc(k, v):
    """attribute value -> its Atts encoding (styles: 1 = False, 2 = True; colours: the SGR number)"""
    if isinstance(v, bool):
        return z3.IntVal(2 if v else 1)
    if isinstance(v, Sym):
        return v.t
    return v


def _as_atts(x):
    if z3.is_expr(x):
        return x
    if isinstance(x, dict):
        return alpha({k: _enc(k, v) for k, v in x.items()})
    raise TypeError("attribute dict expected")


extend_callee = Contract(M + "FrozenAttributes.extend", "C14", ["self", "dictlike"], kind="method", shapes=[],
                         result=lambda a, st: Sym("atts", ext_term(_as_atts(a.self), _as_atts(a.dictlike))),
                         doc="callee form; the body is decided by the finite split FrozenAttributes.extend#split")
remove_callee = Contract(M + "FrozenAttributes.remove", "C14", ["self", "*keys"], kind="method", shapes=[],
                         result=lambda a, st: Sym("atts", rem_term(_as_atts(a.self), a.keys)),
                         doc="callee form; the body is decided by the finite split FrozenAttributes.remove#split")

# ------------------------------------------------------------------ finite splits of the real bodies
STATES = ("absent", "self", "other", "both")


def _split_shapes(keys):
    shapes = []
    for combo in itertools.product(STATES, repeat=len(keys)):
        sp = [k for k, c in zip(keys, combo) if c in ("self", "both")]
        op = [k for k, c in zip(keys, combo) if c in ("other", "both")]
        shapes.append(Shape("".join(c[0] for c in combo), dict(self=AttsDictT(sp), dictlike=AttsDictT(op))))
    return shapes


def _extend_ensures(a, r):
    exp = dict(a.self)
    exp.update(a.dictlike)
    if not isinstance(r, dict):
        return [("post.extend", False)]
    if not all(z3.is_expr(v) or isinstance(v, (int, bool)) for v in r.values()):
        return [("post.extend", False)]
    return [("post.extend.keys", set(r) == set(exp)),
            ("post.extend.values", all(k in r and (r[k].eq(exp[k]) if z3.is_expr(r[k]) and z3.is_expr(exp[k]) else r[k] == exp[k]) for k in exp))]


def extend_split(keys):
    return Contract(M + "FrozenAttributes.extend#split", "C14", ["self", "dictlike"], kind="method",
                    shapes=_split_shapes(keys), ensures=_extend_ensures)


def _remove_shapes(keys):
    shapes = []
    for present in itertools.product((0, 1), repeat=len(keys)):
        sp = [k for k, c in zip(keys, present) if c]
        for removed in itertools.product((0, 1), repeat=len(keys)):
            rk = tuple(k for k, c in zip(keys, removed) if c)
            shapes.append(Shape("p" + "".join(map(str, present)) + "r" + "".join(map(str, removed)),
                                dict(self=AttsDictT(sp), keys=ConstT(rk))))
    return shapes


def _remove_ensures(a, r):
    exp = {k: v for k, v in a.self.items() if k not in a.keys}
    if not isinstance(r, dict):
        return [("post.remove", False)]
    return [("post.remove.keys", set(r) == set(exp)),
            ("post.remove.values", all(k in r and (r[k].eq(exp[k]) if z3.is_expr(r[k]) else r[k] == exp[k]) for k in exp))]


def remove_split(keys):
    return Contract(M + "FrozenAttributes.remove#split", "C14", ["self", "*keys"], kind="method",
                    shapes=_remove_shapes(keys), ensures=_remove_ensures)


# ------------------------------------------------------------------ copy_with_new_atts / new_with_atts_removed
def _runs(x):
    return T.FmtS.chunks(x)


def _cwna_ensures(a, r):
    xs, ys = _runs(a.self), _runs(r)
    A = _as_atts(a.attributes)
    return [("post.same_number_of_runs", length(ys) == length(xs)),
            ("post.every_run", lambda i: Implies(And(i >= 0, i < length(xs)),
                                                 And(T.ChunkS.s(ys[i]) == T.ChunkS.s(xs[i]),
                                                     T.ChunkS.atts(ys[i]) == ext_term(T.ChunkS.atts(xs[i]), A))))]


copy_with_new_atts = Contract(
    M + "FmtStr.copy_with_new_atts", "C14", ["self", "**attributes"], kind="method",
    shapes=[Shape("any", dict(self=FmtT(), attributes=AttsT()))],
    ensures=_cwna_ensures, result=FmtT())


def _nwar_shapes():
    out = []
    for n in (0, 1, 2, 8):
        for ks in ([ATT_KEYS[:n]] if n in (0, 8) else list(itertools.combinations(ATT_KEYS, n))):
            out.append(Shape("rm_" + "_".join(ks) if ks else "rm_none", dict(self=FmtT(), attributes=ConstT(tuple(ks)))))
    return out


def _nwar_ensures(a, r):
    xs, ys = _runs(a.self), _runs(r)
    return [("post.same_number_of_runs", length(ys) == length(xs)),
            ("post.every_run", lambda i: Implies(And(i >= 0, i < length(xs)),
                                                 And(T.ChunkS.s(ys[i]) == T.ChunkS.s(xs[i]),
                                                     T.ChunkS.atts(ys[i]) == rem_term(T.ChunkS.atts(xs[i]), a.attributes))))]


new_with_atts_removed = Contract(
    M + "FmtStr.new_with_atts_removed", "C14", ["self", "*attributes"], kind="method",
    shapes=_nwar_shapes(), ensures=_nwar_ensures, result=FmtT())


# ------------------------------------------------------------------ shared_atts                                   C14
#   "shared_atts only ever reports a value that every character has": for every reported key k and every run with at
#   least one character, that run's attributes hold k with the reported value.  (Which run the candidates are taken
#   from does not matter for this clause, so nothing is assumed about it.)
def _reported_on_every_nonempty_run(rep, xs):
    """closure over a run index: every key present in `rep` is held, with the same value, by run i if it has characters"""
    def clause(i):
        run = xs[i]
        return Implies(And(i >= 0, i < length(xs), length(T.ChunkS.s(run)) > 0),
                       And(*[Implies(FIELD[k](rep) != 0, FIELD[k](T.ChunkS.atts(run)) == FIELD[k](rep)) for k in ATT_KEYS]))
    return clause


def _shared_ensures(a, r):
    if z3.is_expr(a.self):
        return [("post.reported_value_on_every_nonempty_run", _reported_on_every_nonempty_run(_as_atts(r), _runs(a.self)))]
    bad = [(k, v, ch) for k, v in dict(r).items() for ch in a.self.chunks if len(ch.s) > 0 and not (k in ch.atts and ch.atts[k] == v)]
    return [("post.reported_value_on_every_nonempty_run", not bad)]


_shared_loop = Loop(inv=lambda L: [_reported_on_every_nonempty_run(_as_atts(L.atts), _runs(L.self))])
_shared_loop.types = {"atts": "atts"}

shared_atts = Contract(
    M + "FmtStr.shared_atts", "C14", ["self"], kind="property",
    shapes=[Shape("any", dict(self=FmtT()))],
    ensures=_shared_ensures,
    loops={0: _shared_loop})


def _small_fmtstrs():
    from curtsies.formatstring import FmtStr, Chunk
    pool = [{}, {"fg": 31}, {"fg": 31, "bold": True}, {"fg": 32, "bold": True}, {"bold": False, "fg": 31}]
    for n in range(0, 4):
        for lens in itertools.product((0, 1, 2), repeat=n):
            for ats in itertools.product(range(len(pool)), repeat=n):
                yield dict(self=FmtStr(*[Chunk("abcdef"[k] * l, pool[x]) for k, (l, x) in enumerate(zip(lens, ats))]))


shared_atts.enumerate_small = _small_fmtstrs
shared_atts.result = AttsT()              # callee form: some attribute dict with the property stated by ensures
shared_atts.fresh_result = True       # a dict handed to the caller: must not be retained by the value (obligation result_not_retained)


def edit_reported(f):
    """what a caller may do with the reported dict; -> True if the edit went through (the result is a mutable dict)"""
    r = f.shared_atts
    try:
        r["bg"] = 42
        r["bold"] = True
        r["fg"] = 36
        return True
    except Exception:       # noqa: BLE001  (an immutable mapping: nothing to check)
        return False


def _shared_probe():
    from curtsies.formatstring import FmtStr, Chunk
    from pyvc.verify import check_concrete, describe
    for f in (FmtStr(Chunk("s", {"fg": 31})), FmtStr(Chunk("a", {"fg": 31}), Chunk("b", {"fg": 31, "underline": True})), FmtStr(Chunk("q"))):
        first = dict(f.shared_atts)
        if not edit_reported(f):
            continue
        ok, clause, detail = check_concrete(shared_atts, dict(self=f))
        if not ok:
            yield (clause, dict(self=describe(f), history="atts = f.shared_atts; atts['bg'] = 42; atts['bold'] = True; atts['fg'] = 36; f.shared_atts"),
                   f"{detail} (first answer {first}, after the caller edited the dict it was handed: {dict(f.shared_atts)})",
                   {"kind": "probe", "contract": shared_atts.key})


shared_atts.probe = _shared_probe


# ------------------------------------------------------------------ copy_with_new_str                              C14
#   "copy_with_new_str swaps the text while keeping a uniformly formatted string's formatting": if every run that has characters
#   carries the attributes A (and, when no run has characters, every run does), the result is ONE run with the new text and A.
from pyvc.contract import StrT


def _cwns_setup(st, values):
    values["_A"] = Sym("atts", fresh("uniform_atts", T.Atts))


def _cwns_requires(a):
    xs = _runs(a.self)
    n = length(xs)
    nochars = T.TOTLEN(xs) == 0
    return [lambda i: Implies(And(i >= 0, i < n, Or(length(T.ChunkS.s(xs[i])) > 0, nochars)), T.ChunkS.atts(xs[i]) == a._A),
            Implies(n == 0, a._A == T.NOATTS),
            lambda i: Implies(And(i >= 0, i < n), And(length(T.ChunkS.s(xs[i])) >= 0, T.TOTLEN(xs) >= length(T.ChunkS.s(xs[i]))))]


def _cwns_ensures(a, r):
    if z3.is_expr(a.self):
        st = a.final_state
        st.add_index(z3.IntVal(0))
        return [("post.one_run_with_the_new_text_and_the_old_formatting",
                 r == T.FmtS.mkfmt(z3.Unit(T.ChunkS.mkchunk(a.new_str, a._A))))]
    runs = [c for c in a.self.chunks if len(c.s) > 0] or list(a.self.chunks)
    fmts = {tuple(sorted(c.atts.items())) for c in runs}
    if len(fmts) > 1:
        return [("post.one_run_with_the_new_text_and_the_old_formatting", True)]       # not uniformly formatted: the statement is silent
    want = dict(next(iter(fmts))) if fmts else {}
    return [("post.one_run_with_the_new_text_and_the_old_formatting",
             len(r.chunks) == 1 and r.chunks[0].s == a.new_str and dict(r.chunks[0].atts) == want)]


copy_with_new_str = Contract(
    M + "FmtStr.copy_with_new_str", "C14", ["self", "new_str"], kind="method",
    shapes=[Shape("uniform", dict(self=FmtT(), new_str=StrT(plain=False)))],
    requires=_cwns_requires, ensures=_cwns_ensures, result=FmtT(),
    callees={"fmtstr": M + "fmtstr#attributes"})      # (not called today; a body that re-parses the new text through fmtstr meets its ESC[-free precondition)
copy_with_new_str.setup = _cwns_setup
copy_with_new_str.enumerate_small = lambda: ({"self": d["self"], "new_str": "zz"} for d in _small_fmtstrs())
