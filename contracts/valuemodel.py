"""Obligations that justify the executor's value model of Chunk and FmtStr (DESIGN 2.3): a `Chunk` is modelled as the immutable
record (s, atts) and a `FmtStr` as its run list.  Here the REAL constructor and accessor bodies are executed on heap objects and
must behave as the model says:
  Chunk.__init__(string, atts)   stores exactly `string` and the given attributes (an empty / missing dict as no attributes);
                                 a non-str raises ValueError
  Chunk.s / Chunk.atts / len     return the stored text / attributes / the length of the text
  FmtStr.__init__(*components)   stores a FRESH list holding exactly the components, all four memo slots empty
  FmtStr.copy()                  a FmtStr over the same runs
so that a change to a constructor or getter is refuted here instead of being invisible to every proof that uses the model."""
import z3
from pyvc import terms as T
from pyvc.spec import And, Or, Not, Implies
from pyvc.contract import Contract, Shape, IntT, StrT, FmtT, ChunkT, AttsT, ConstT, NoneT, OtherT, ObjT, ChunkListT, TypeSpec
from pyvc.values import Ref, ListV
import contracts.formatstring  # noqa: F401

M = "formatstring:"


class EmptyDictT(TypeSpec):
    def fresh(self, name, st):
        from pyvc.values import DictV
        return st.alloc(DictV({}))

    def concretize(self, value, model, cx):
        return {}


def _atts_term(x):
    if z3.is_expr(x):
        return x
    if isinstance(x, dict) and not x:
        return T.NOATTS
    if x is None:
        return T.NOATTS
    raise TypeError("attribute value of an unexpected kind")


def _chunk_init_ensures(a, r):
    f = a.final.self
    given = T.NOATTS if (a.atts is None or isinstance(a.atts, dict)) else a.atts
    return [("post.text_stored_unchanged", f._s == a.string),
            ("post.attributes_stored_unchanged", _atts_term(f._atts) == given)]


chunk_init = Contract(
    M + "Chunk.__init__#model", "C13", ["self", "string", "atts"], kind="method", defaults={"atts": None},
    shapes=[Shape("atts", dict(self=ObjT("Chunk", {}), string=StrT(plain=False), atts=AttsT())),
            Shape("none", dict(self=ObjT("Chunk", {}), string=StrT(plain=False), atts=NoneT)),
            Shape("empty_dict", dict(self=ObjT("Chunk", {}), string=StrT(plain=False), atts=EmptyDictT())),
            Shape("not_a_str", dict(self=ObjT("Chunk", {}), string=OtherT(), atts=NoneT))],
    raises={"ValueError": lambda a: not (z3.is_expr(a.string) or isinstance(a.string, str))},
    ensures=_chunk_init_ensures)


def _chunk_obj():
    return ObjT("Chunk", dict(_s=StrT(plain=False), _atts=AttsT()))


chunk_s = Contract(M + "Chunk.s#model", "C13", ["self"], kind="property", shapes=[Shape("any", dict(self=_chunk_obj()))],
                   ensures=lambda a, r: [("post.returns_the_text", r == a.self._s), ("post.unchanged", And(a.final.self._s == a.self._s, a.final.self._atts == a.self._atts))])
chunk_atts = Contract(M + "Chunk.atts#model", "C13", ["self"], kind="property", shapes=[Shape("any", dict(self=_chunk_obj()))],
                      ensures=lambda a, r: [("post.returns_the_attributes", r == a.self._atts), ("post.unchanged", And(a.final.self._s == a.self._s, a.final.self._atts == a.self._atts))])
chunk_len = Contract(M + "Chunk.__len__#model", "C13", ["self"], kind="method", shapes=[Shape("any", dict(self=_chunk_obj()))],
                     ensures=lambda a, r: [("post.length_of_the_text", r == z3.Length(a.self._s))])


def _fmt_init_ensures(a, r):
    st = a.final_state
    raw_self = a._raw["self"]
    o = st.deref(raw_self)
    stored = o.fields.get("chunks")
    fresh_list = isinstance(stored, Ref) and isinstance(st.deref(stored), ListV) and \
        not (isinstance(a._raw["components"], Ref) and stored.oid == a._raw["components"].oid) and not st.deref(stored).borrowed
    f = a.final.self
    return [("post.holds_exactly_the_components", f.chunks == a.components),
            ("post.stores_a_fresh_list", bool(fresh_list)),
            ("post.memo_slots_empty", all(getattr(f, m) is None for m in ("_unicode", "_len", "_s", "_width")))]


class _BorrowedRuns(ChunkListT):
    def fresh(self, name, st):
        r = super().fresh(name, st)
        st.deref(r).borrowed = True         # the caller's sequence: storing it without copying would alias it
        return r


fmt_init = Contract(
    M + "FmtStr.__init__#model", "C13", ["self", "*components"], kind="method",
    shapes=[Shape("runs", dict(self=ObjT("FmtStr", {}), components=_BorrowedRuns()))],
    ensures=_fmt_init_ensures)

fmt_copy = Contract(
    M + "FmtStr.copy#model", "C13", ["self"], kind="method", shapes=[Shape("any", dict(self=FmtT()))],
    ensures=lambda a, r: [("post.same_runs", T.FmtS.chunks(r) == T.FmtS.chunks(a.self))], result=FmtT())



def _probe():
    """concrete observations of the real constructors / accessors (what the clauses above say, on a few values)"""
    from curtsies.formatstring import Chunk, FmtStr, FrozenAttributes
    out = []
    for text in ("", "ab", " x\n", "\uff25\u0301", "caf\udce9", "\ufeffab", "x\ud83d\ude00y", "\ud800", "\x00z", "ab\ufeff", "\x1b[1m", "c\td", "\tq", "v\x0bw\x0c\r"):
        for at in (None, {}, {"fg": 31}, {"bold": False, "bg": 44}):
            c = Chunk(text, at) if at is not None else Chunk(text)
            want = dict(at or {})
            if c._s != text or c.s != text:
                out.append(("text_stored_unchanged", dict(string=repr(text), atts=repr(at)), f"Chunk(...).s == {c.s!r}"))
            if dict(c._atts) != want or dict(c.atts) != want:
                out.append(("attributes_stored_unchanged", dict(string=repr(text), atts=repr(at)), f"Chunk(...).atts == {dict(c.atts)!r}"))
            if len(c) != len(text):
                out.append(("length_of_the_text", dict(string=repr(text)), f"len(Chunk(...)) == {len(c)}"))
    try:
        Chunk(3)
        out.append(("raises.ValueError", dict(string="3"), "Chunk(3) did not raise"))
    except ValueError:
        pass
    for n in range(0, 4):
        runs = [Chunk("ab"[: (k + n) % 3], {"fg": 31 + k}) for k in range(n)]      # (empty formatted runs, first / last / only, included)
        given = tuple(runs)
        f = FmtStr(*given)
        if list(f.chunks) != runs or not isinstance(f.chunks, list) or f.chunks is given:
            out.append(("holds_exactly_the_components / stores_a_fresh_list", dict(components=repr(runs)), f"FmtStr(*runs).chunks == {f.chunks!r}"))
        if (f._unicode, f._len, f._s, f._width) != (None, None, None, None):
            out.append(("memo_slots_empty", dict(components=repr(runs)), f"memo slots after construction: {(f._unicode, f._len, f._s, f._width)!r}"))
        g = f.copy()
        if list(g.chunks) != runs or g.chunks is f.chunks:
            out.append(("copy.same_runs", dict(components=repr(runs)), f"copy().chunks == {g.chunks!r}"))
    return out


ALL = [chunk_init, chunk_s, chunk_atts, chunk_len, fmt_init, fmt_copy]
for _c in ALL:
    _c.probe = _probe
