"""C12: ghost OS state and assumed POSIX / blessed contracts.

Ghost state (flat keys in State.ghost, all symbolic at entry = "arbitrary initial tty attributes and file status flags"):
  os.tty      Int   contents of the tty's termios attributes (an opaque value)
  os.flags    Int   file status flags of the stream's descriptor
  os.sigint   value the installed SIGINT handler
  os.wakeup   Int   signal wake-up descriptor
  os.fds      Int   number of descriptors this process holds open (relative)
  os.cursor   Bool  cursor visible          os.alt  Bool  alternate screen active      os.main_dirty Bool  main screen written
  os.main_thread Bool (fixed per run of a function: both cases are covered because it is symbolic)
ASSUMED (POSIX / CPython / blessed documentation; probed on a real pty by the bounded suite of C12):
  termios.tcgetattr returns the current attributes (a fresh list); tcsetattr installs the given attributes' contents;
  tty.setcbreak changes the attributes to some function of the old ones; fcntl F_GETFL/F_SETFL read / write the status flags;
  signal.signal installs a handler and returns the previous one; getsignal reads it; set_wakeup_fd installs and returns the old;
  os.pipe opens two descriptors; os.close closes one; os.set_blocking does not touch the tty stream's flags;
  blessed: hide_cursor / normal_cursor / enter_fullscreen / exit_fullscreen are the xterm strings, Terminal.fullscreen() is a context
  manager writing enter_fullscreen on entry and exit_fullscreen on exit (to the window's stream).
Python's guarantee that __exit__ runs on every exit of a `with` body extends "restores on normal exit of __exit__" to "restores when
an exception leaves the body at any point"."""
import z3
from pyvc import terms as T
from pyvc.spec import And, Or, Not, Implies, If
from pyvc.contract import Contract, Shape, Loop, IntT, BoolT, ConstT, ObjT, TypeSpec
from pyvc.values import Sym, AbsV, ObjV, Ref, fresh, mk_int, mk_bool, BoundMethod

OS_KEYS = ("os.tty", "os.flags", "os.sigint", "os.wakeup", "os.fds", "os.cursor", "os.alt", "os.main_dirty", "os.main_thread")
CBREAK = z3.Function("CBREAK", T.I, T.I)

HIDE, NORMAL = "\x1b[?25l", "\x1b[?12l\x1b[?25h"
ENTER_FS, EXIT_FS = "\x1b[?1049h\x1b[22;0;0t", "\x1b[?1049l\x1b[23;0;0t"


def init_os(st):
    st.ghost["os.tty"] = fresh("TTY0", T.I)
    st.ghost["os.flags"] = fresh("FLAGS0", T.I)
    st.ghost["os.sigint"] = Sym("int", fresh("HANDLER0", T.I))
    st.ghost["os.wakeup"] = fresh("WAKEUP0", T.I)
    st.ghost["os.fds"] = fresh("FDS0", T.I)
    st.ghost["os.cursor"] = fresh("CURSOR0", T.B)
    st.ghost["os.alt"] = fresh("ALT0", T.B)
    st.ghost["os.main_dirty"] = z3.BoolVal(False)
    st.ghost["os.main_thread"] = fresh("MAIN_THREAD", T.B)
    st.ghost["os.entry"] = {k: st.ghost[k] for k in OS_KEYS}


def same(a, b):
    """equality of two ghost values (terms or executor values)"""
    if isinstance(a, Sym) and isinstance(b, Sym):
        return a.t == b.t
    if z3.is_expr(a) and z3.is_expr(b):
        return a == b
    if isinstance(a, BoundMethod) and isinstance(b, BoundMethod):
        return a.name == b.name and (a.recv is b.recv or (isinstance(a.recv, Ref) and isinstance(b.recv, Ref) and a.recv.oid == b.recv.oid))
    if isinstance(a, bool) or isinstance(b, bool):
        a2 = z3.BoolVal(a) if isinstance(a, bool) else a
        b2 = z3.BoolVal(b) if isinstance(b, bool) else b
        return a2 == b2
    return a is b


def _ext(key, params, result=None, effect=None, raises=None, defaults=None, doc=""):
    c = Contract("ext:" + key, "C12", params, shapes=[], result=result, raises=raises or {}, defaults=defaults or {}, doc="ASSUMED: " + doc)
    c.effect = effect
    c.assumed = True
    return c


def _abs_value(st, v):
    if isinstance(v, Ref) and isinstance(st.deref(v), AbsV):
        return st.deref(v).term
    if isinstance(v, Sym):
        return v.t
    raise TypeError("opaque value expected")


# ---------------------------------------------------------------------------------------------- termios / tty / fcntl
_ext("termios.tcgetattr", ["fd"], result=lambda a, st: st.alloc(AbsV(st.ghost["os.tty"], kind="termios attrs")),
     doc="returns the tty's current attributes as a new list")


def _tcsetattr(a, st, res):
    st.ghost["os.tty"] = _abs_value(st, a._raw["attributes"])


_ext("termios.tcsetattr", ["fd", "when", "attributes"], effect=_tcsetattr, doc="installs the contents of `attributes`")
_ext("tty.setcbreak", ["fd", "when"], defaults={"when": 2},
     effect=lambda a, st, res: st.ghost.__setitem__("os.tty", CBREAK(st.ghost["os.tty"])), doc="puts the tty into cbreak mode")


def _fcntl_result(a, st):
    if a.cmd == 3:          # F_GETFL
        return mk_int(st.ghost["os.flags"])
    return 0


def _fcntl_effect(a, st, res):
    if a.cmd == 4:          # F_SETFL
        v = a._raw["arg"]
        st.ghost["os.flags"] = v.t if isinstance(v, Sym) else z3.IntVal(v)


_ext("fcntl.fcntl", ["fd", "cmd", "arg"], defaults={"arg": 0}, result=_fcntl_result, effect=_fcntl_effect, doc="F_GETFL reads, F_SETFL writes the file status flags")
_ext("Stream.fileno", ["self"], result=lambda a, st: 7, doc="the stream's descriptor")

# ---------------------------------------------------------------------------------------------- signal / os
def _signal_result(a, st):
    return st.ghost["os.sigint"]


def _signal_effect(a, st, res):
    st.ghost["os.sigint"] = a._raw["handler"]


_ext("signal.signal", ["signalnum", "handler"], result=_signal_result, effect=_signal_effect, doc="installs handler, returns the previous one")
_ext("signal.getsignal", ["signalnum"], result=lambda a, st: st.ghost["os.sigint"], doc="the installed handler")


def _wakeup_result(a, st):
    return mk_int(st.ghost["os.wakeup"])


def _wakeup_effect(a, st, res):
    v = a._raw["fd"]
    st.ghost["os.wakeup"] = v.t if isinstance(v, Sym) else z3.IntVal(v)


_ext("signal.set_wakeup_fd", ["fd", "warn_on_full_buffer"], defaults={"warn_on_full_buffer": True}, result=_wakeup_result, effect=_wakeup_effect,
     raises={"ValueError": lambda a: z3.Not(a._st.ghost["os.main_thread"])},
     doc="installs the wake-up descriptor, returns the previous one; only works in the main thread (ValueError otherwise)")
_ext("signal.signal#thread", [], doc="(signal.signal also requires the main thread; the library guards it with is_main_thread)")


def _pipe_result(a, st):
    return (Sym("int", fresh("pipe_r", T.I)), Sym("int", fresh("pipe_w", T.I)))


_ext("os.pipe", [], result=_pipe_result, effect=lambda a, st, res: st.ghost.__setitem__("os.fds", st.ghost["os.fds"] + 2), doc="opens two descriptors")
_ext("os.close", ["fd"], effect=lambda a, st, res: st.ghost.__setitem__("os.fds", st.ghost["os.fds"] - 1), doc="closes one descriptor")
_ext("os.set_blocking", ["fd", "blocking"], doc="changes the flags of another descriptor (not the tty stream's)")


def _read_raises_blocking(a):
    return a._st.nd_bool("os.read.EAGAIN")


def _read_raises_oserror(a):
    return a._st.nd_bool("os.read.EIO")


def _read_effect(a, st, res):
    # what the stream has delivered so far in this run (ghost): the byte-accounting contracts of the buffer speak about it
    if isinstance(res, Sym) and res.tag == "bytes":
        st.ghost["os.delivered"] = z3.Concat(st.ghost["os.delivered"], res.t) if "os.delivered" in st.ghost else res.t


_ext("os.read", ["fd", "n"], result=lambda a, st: Sym("bytes", fresh("data", T.SI)), effect=_read_effect,
     raises={"BlockingIOError": _read_raises_blocking, "OSError": _read_raises_oserror},
     doc="returns bytes, or raises BlockingIOError / another OSError (nondeterministically)")
_ext("input.is_main_thread", [], result=lambda a, st: mk_bool(st.ghost["os.main_thread"]), doc="whether the caller is the main thread")


# ---------------------------------------------------------------------------------------------- terminal output (blessed + window.write)
def feed(st, msg):
    """effect of writing `msg` (a concrete capability string, or opaque text) on the ghost terminal"""
    if not isinstance(msg, str):
        st.ghost["os.main_dirty"] = z3.Or(st.ghost["os.main_dirty"], z3.Not(st.ghost["os.alt"]))
        return
    for tok, eff in ((HIDE, ("os.cursor", False)), (NORMAL, ("os.cursor", True)), (ENTER_FS, ("os.alt", True)), (EXIT_FS, ("os.alt", False))):
        if msg == tok:
            st.ghost[eff[0]] = z3.BoolVal(eff[1])
            return
    if msg:
        st.ghost["os.main_dirty"] = z3.Or(st.ghost["os.main_dirty"], z3.Not(st.ghost["os.alt"]))


def restored(a, keys):
    """postcondition: the listed components of the OS state equal their values at entry of the *context* (os.saved.*)"""
    st = a.final_state
    out = []
    for k in keys:
        out.append((f"restore.{k}", same(st.ghost[k], st.ghost["ctx." + k])))
    return out


# ---------------------------------------------------------------------------------------------- window.write (assumed)
WRITE_HOOKS = []       # other ghost terminals (C02) interpret the written value as well


def _write_effect(a, st, res):
    for h in WRITE_HOOKS:
        h(a, st)
    if "os.cursor" in st.ghost:
        feed(st, a._raw["msg"] if isinstance(a._raw["msg"], str) else None)


window_write = Contract("window:BaseWindow.write", "C12", ["self", "msg"], kind="method", shapes=[],
                        doc="ASSUMED: out_stream.write+flush deliver msg to the terminal (ghost terminal: cursor visibility, alternate screen, main-screen writes)")
window_write.effect = _write_effect
window_write.assumed = True
